//! C42 — SCIM filter text: real `Display`/`FromStr` of `ScimFilter` / `ScimComplexFilter`
//! (proto/src/scim_v1/mod.rs) vs the Lean model (`km_c42`) vs oracles written from the
//! property text only.
//!
//! Sub-streams (one report, histogram keys are prefixed):
//!   tree    random trees -> real print; model print must equal it; real and model parse of
//!           that text must agree; ORACLE round trip: real parse(real print f) == f
//!   loose   the same trees printed by this file's own minimal-parenthesis printer (random
//!           separator runs, redundant parentheses, non-canonical JSON scalars); real and
//!           model parse must agree; ORACLE precedence: real parse == the tree printed
//!   chain   `a0 op a1 op a2 ...` without parentheses; ORACLE: or-groups of and-groups,
//!           both left-associated
//!   bad     mutated / token-soup texts: real and model must agree (mostly both reject)
//!   depth   nesting around the limit — plain towers of `(` / `not (` / `x and (`, and towers SPLIT
//!           across one or two complex-attribute brackets `attr[ … ]` (n levels outside, the
//!           bracket, m levels inside, for every pair of nesting operators); ORACLE: deeper than
//!           the documented limit is rejected, strictly shallower parses to the tree written.
//!           With `--budget` > 1 also random mixed towers around the limit.
//!           The depth ORACLE judges every text of every stream with its own counter
//!           (`text_nesting`): accepted although nested deeper than the documented limit = failure.
//!   attr    every `ATTR_*` constant of proto/src/constants.rs as attribute name
//!
//! What the comparison canonicalises (the model's stated abstractions): attribute names in the
//! model's reply go through `Attribute::from(&str).as_str()` / `SubAttribute::from`; number
//! tokens in the model's reply go through `serde_json` parse + `Display` (an out-of-range
//! token turns the reply into `reject`); a non-scalar JSON value in the real result expects
//! `reject` from the model.
use hlib::*;
use kanidm_proto::attribute::{Attribute, SubAttribute};
use kanidm_proto::scim_v1::{AttrPath, JsonValue, ScimComplexFilter, ScimFilter};
use serde_json::json;
use std::str::FromStr;

const DOCUMENTED_LIMIT: usize = 128;
const OPS: [&str; 9] = [
    "Equal", "NotEqual", "Contains", "StartsWith", "EndsWith", "Greater", "Less", "GreaterOrEqual", "LessOrEqual",
];

#[derive(Clone, Debug, PartialEq)]
enum V {
    Null,
    Bool(bool),
    /// a JSON number token
    Num(String),
    Str(String),
    NonScalar,
}

#[derive(Clone, Debug, PartialEq)]
enum CT {
    Or(Box<CT>, Box<CT>),
    And(Box<CT>, Box<CT>),
    Not(Box<CT>),
    Pres(String),
    Cmp(&'static str, String, V),
}

#[derive(Clone, Debug, PartialEq)]
enum FT {
    Or(Box<FT>, Box<FT>),
    And(Box<FT>, Box<FT>),
    Not(Box<FT>),
    Pres(String, Option<String>),
    Cmp(&'static str, String, Option<String>, V),
    Cx(String, Box<CT>),
}

// ---------- real <-> mirror ----------

fn v_to_real(v: &V) -> JsonValue {
    match v {
        V::Null => JsonValue::Null,
        V::Bool(b) => JsonValue::Bool(*b),
        V::Num(t) => serde_json::from_str(t).expect("generator made an invalid number token"),
        V::Str(s) => JsonValue::String(s.clone()),
        V::NonScalar => json!({}),
    }
}

fn v_from_real(v: &JsonValue) -> V {
    match v {
        JsonValue::Null => V::Null,
        JsonValue::Bool(b) => V::Bool(*b),
        JsonValue::Number(n) => V::Num(n.to_string()),
        JsonValue::String(s) => V::Str(s.clone()),
        _ => V::NonScalar,
    }
}

fn ct_to_real(t: &CT) -> ScimComplexFilter {
    use ScimComplexFilter as C;
    match t {
        CT::Or(a, b) => C::Or(Box::new(ct_to_real(a)), Box::new(ct_to_real(b))),
        CT::And(a, b) => C::And(Box::new(ct_to_real(a)), Box::new(ct_to_real(b))),
        CT::Not(a) => C::Not(Box::new(ct_to_real(a))),
        CT::Pres(s) => C::Present(SubAttribute::from(s.as_str())),
        CT::Cmp(op, s, v) => {
            let s = SubAttribute::from(s.as_str());
            let v = v_to_real(v);
            match *op {
                "Equal" => C::Equal(s, v),
                "NotEqual" => C::NotEqual(s, v),
                "Contains" => C::Contains(s, v),
                "StartsWith" => C::StartsWith(s, v),
                "EndsWith" => C::EndsWith(s, v),
                "Greater" => C::Greater(s, v),
                "Less" => C::Less(s, v),
                "GreaterOrEqual" => C::GreaterOrEqual(s, v),
                "LessOrEqual" => C::LessOrEqual(s, v),
                o => panic!("op {o}"),
            }
        }
    }
}

fn ct_from_real(f: &ScimComplexFilter) -> CT {
    use ScimComplexFilter as C;
    let n = |s: &SubAttribute| s.as_str().to_string();
    match f {
        C::Or(a, b) => CT::Or(Box::new(ct_from_real(a)), Box::new(ct_from_real(b))),
        C::And(a, b) => CT::And(Box::new(ct_from_real(a)), Box::new(ct_from_real(b))),
        C::Not(a) => CT::Not(Box::new(ct_from_real(a))),
        C::Present(s) => CT::Pres(n(s)),
        C::Equal(s, v) => CT::Cmp("Equal", n(s), v_from_real(v)),
        C::NotEqual(s, v) => CT::Cmp("NotEqual", n(s), v_from_real(v)),
        C::Contains(s, v) => CT::Cmp("Contains", n(s), v_from_real(v)),
        C::StartsWith(s, v) => CT::Cmp("StartsWith", n(s), v_from_real(v)),
        C::EndsWith(s, v) => CT::Cmp("EndsWith", n(s), v_from_real(v)),
        C::Greater(s, v) => CT::Cmp("Greater", n(s), v_from_real(v)),
        C::Less(s, v) => CT::Cmp("Less", n(s), v_from_real(v)),
        C::GreaterOrEqual(s, v) => CT::Cmp("GreaterOrEqual", n(s), v_from_real(v)),
        C::LessOrEqual(s, v) => CT::Cmp("LessOrEqual", n(s), v_from_real(v)),
    }
}

fn path_to_real(a: &str, s: &Option<String>) -> AttrPath {
    AttrPath { a: Attribute::from(a), s: s.as_ref().map(|s| SubAttribute::from(s.as_str())) }
}

fn ft_to_real(t: &FT) -> ScimFilter {
    use ScimFilter as F;
    match t {
        FT::Or(a, b) => F::Or(Box::new(ft_to_real(a)), Box::new(ft_to_real(b))),
        FT::And(a, b) => F::And(Box::new(ft_to_real(a)), Box::new(ft_to_real(b))),
        FT::Not(a) => F::Not(Box::new(ft_to_real(a))),
        FT::Pres(a, s) => F::Present(path_to_real(a, s)),
        FT::Cx(a, c) => F::Complex(Attribute::from(a.as_str()), Box::new(ct_to_real(c))),
        FT::Cmp(op, a, s, v) => {
            let p = path_to_real(a, s);
            let v = v_to_real(v);
            match *op {
                "Equal" => F::Equal(p, v),
                "NotEqual" => F::NotEqual(p, v),
                "Contains" => F::Contains(p, v),
                "StartsWith" => F::StartsWith(p, v),
                "EndsWith" => F::EndsWith(p, v),
                "Greater" => F::Greater(p, v),
                "Less" => F::Less(p, v),
                "GreaterOrEqual" => F::GreaterOrEqual(p, v),
                "LessOrEqual" => F::LessOrEqual(p, v),
                o => panic!("op {o}"),
            }
        }
    }
}

fn ft_from_real(f: &ScimFilter) -> FT {
    use ScimFilter as F;
    let c = |op: &'static str, p: &AttrPath, v: &JsonValue| {
        FT::Cmp(op, p.a.as_str().to_string(), p.s.as_ref().map(|s| s.as_str().to_string()), v_from_real(v))
    };
    match f {
        F::Or(a, b) => FT::Or(Box::new(ft_from_real(a)), Box::new(ft_from_real(b))),
        F::And(a, b) => FT::And(Box::new(ft_from_real(a)), Box::new(ft_from_real(b))),
        F::Not(a) => FT::Not(Box::new(ft_from_real(a))),
        F::Present(p) => FT::Pres(p.a.as_str().to_string(), p.s.as_ref().map(|s| s.as_str().to_string())),
        F::Complex(a, e) => FT::Cx(a.as_str().to_string(), Box::new(ct_from_real(e))),
        F::Equal(p, v) => c("Equal", p, v),
        F::NotEqual(p, v) => c("NotEqual", p, v),
        F::Contains(p, v) => c("Contains", p, v),
        F::StartsWith(p, v) => c("StartsWith", p, v),
        F::EndsWith(p, v) => c("EndsWith", p, v),
        F::Greater(p, v) => c("Greater", p, v),
        F::Less(p, v) => c("Less", p, v),
        F::GreaterOrEqual(p, v) => c("GreaterOrEqual", p, v),
        F::LessOrEqual(p, v) => c("LessOrEqual", p, v),
    }
}

// ---------- Polish notation (line protocol) ----------

fn cps(s: &str) -> String {
    if s.is_empty() {
        "_".into()
    } else {
        s.chars().map(|c| (c as u32).to_string()).collect::<Vec<_>>().join(".")
    }
}

fn text_line(op: &str, s: &str) -> String {
    let mut l = String::from(op);
    for c in s.chars() {
        l.push(' ');
        l += &(c as u32).to_string();
    }
    l
}

fn v_polish(v: &V) -> String {
    match v {
        V::Null => "null".into(),
        V::Bool(true) => "true".into(),
        V::Bool(false) => "false".into(),
        V::Num(t) => format!("n {}", cps(t)),
        V::Str(s) => format!("s {}", cps(s)),
        V::NonScalar => "nonscalar".into(),
    }
}

fn ct_polish(t: &CT) -> String {
    match t {
        CT::Or(a, b) => format!("or {} {}", ct_polish(a), ct_polish(b)),
        CT::And(a, b) => format!("and {} {}", ct_polish(a), ct_polish(b)),
        CT::Not(a) => format!("not {}", ct_polish(a)),
        CT::Pres(s) => format!("pr {}", cps(s)),
        CT::Cmp(op, s, v) => format!("{op} {} {}", cps(s), v_polish(v)),
    }
}

fn sub_polish(s: &Option<String>) -> String {
    match s {
        Some(s) => cps(s),
        None => "-".into(),
    }
}

fn ft_polish(t: &FT) -> String {
    match t {
        FT::Or(a, b) => format!("or {} {}", ft_polish(a), ft_polish(b)),
        FT::And(a, b) => format!("and {} {}", ft_polish(a), ft_polish(b)),
        FT::Not(a) => format!("not {}", ft_polish(a)),
        FT::Pres(a, s) => format!("pr {} {}", cps(a), sub_polish(s)),
        FT::Cmp(op, a, s, v) => format!("{op} {} {} {}", cps(a), sub_polish(s), v_polish(v)),
        FT::Cx(a, c) => format!("cx {} {}", cps(a), ct_polish(c)),
    }
}

struct Toks<'a> {
    t: Vec<&'a str>,
    i: usize,
}

impl<'a> Toks<'a> {
    fn next(&mut self) -> Result<&'a str, String> {
        let x = self.t.get(self.i).copied().ok_or_else(|| "short".to_string())?;
        self.i += 1;
        Ok(x)
    }
}

fn read_name(t: &str) -> Result<String, String> {
    if t == "_" {
        return Ok(String::new());
    }
    t.split('.')
        .map(|x| x.parse::<u32>().ok().and_then(char::from_u32).ok_or_else(|| format!("bad cp {x}")))
        .collect()
}

fn read_v(t: &mut Toks) -> Result<V, String> {
    match t.next()? {
        "null" => Ok(V::Null),
        "true" => Ok(V::Bool(true)),
        "false" => Ok(V::Bool(false)),
        "n" => Ok(V::Num(read_name(t.next()?)?)),
        "s" => Ok(V::Str(read_name(t.next()?)?)),
        o => Err(format!("bad value tag {o}")),
    }
}

fn op_static(o: &str) -> Result<&'static str, String> {
    OPS.iter().find(|x| **x == o).copied().ok_or_else(|| format!("bad op {o}"))
}

fn read_ct(t: &mut Toks) -> Result<CT, String> {
    match t.next()? {
        "or" => Ok(CT::Or(Box::new(read_ct(t)?), Box::new(read_ct(t)?))),
        "and" => Ok(CT::And(Box::new(read_ct(t)?), Box::new(read_ct(t)?))),
        "not" => Ok(CT::Not(Box::new(read_ct(t)?))),
        "pr" => Ok(CT::Pres(read_name(t.next()?)?)),
        o => {
            let op = op_static(o)?;
            let s = read_name(t.next()?)?;
            Ok(CT::Cmp(op, s, read_v(t)?))
        }
    }
}

fn read_sub(t: &mut Toks) -> Result<Option<String>, String> {
    let x = t.next()?;
    if x == "-" {
        Ok(None)
    } else {
        Ok(Some(read_name(x)?))
    }
}

fn read_ft(t: &mut Toks) -> Result<FT, String> {
    match t.next()? {
        "or" => Ok(FT::Or(Box::new(read_ft(t)?), Box::new(read_ft(t)?))),
        "and" => Ok(FT::And(Box::new(read_ft(t)?), Box::new(read_ft(t)?))),
        "not" => Ok(FT::Not(Box::new(read_ft(t)?))),
        "pr" => {
            let a = read_name(t.next()?)?;
            Ok(FT::Pres(a, read_sub(t)?))
        }
        "cx" => {
            let a = read_name(t.next()?)?;
            Ok(FT::Cx(a, Box::new(read_ct(t)?)))
        }
        o => {
            let op = op_static(o)?;
            let a = read_name(t.next()?)?;
            let s = read_sub(t)?;
            Ok(FT::Cmp(op, a, s, read_v(t)?))
        }
    }
}

// ---------- canonicalisation of the model's reply (the stated abstractions) ----------

fn canon_v(v: &V) -> Option<V> {
    match v {
        V::Num(t) => match serde_json::from_str::<JsonValue>(t) {
            Ok(JsonValue::Number(n)) => Some(V::Num(n.to_string())),
            _ => None,
        },
        o => Some(o.clone()),
    }
}

/// `false` while comparing with the `scim_proto::filter` twin, whose names are plain `String`s
static INTERN: std::sync::atomic::AtomicBool = std::sync::atomic::AtomicBool::new(true);

fn canon_sub(s: &str) -> String {
    if INTERN.load(std::sync::atomic::Ordering::Relaxed) {
        SubAttribute::from(s).as_str().to_string()
    } else {
        s.to_string()
    }
}

fn canon_attr(s: &str) -> String {
    if INTERN.load(std::sync::atomic::Ordering::Relaxed) {
        Attribute::from(s).as_str().to_string()
    } else {
        s.to_string()
    }
}

// ---------- the stale twin grammar in libs/scim_proto/src/filter.rs ----------
// Same text syntax over `String` names; its fields are private, so trees are read through serde.

fn tw_name(v: &JsonValue) -> String {
    cps(v.as_str().unwrap_or("?"))
}

fn tw_c(v: &JsonValue) -> String {
    let (k, val) = v.as_object().and_then(|o| o.iter().next()).expect("enum object");
    match k.as_str() {
        "Or" => format!("or {} {}", tw_c(&val[0]), tw_c(&val[1])),
        "And" => format!("and {} {}", tw_c(&val[0]), tw_c(&val[1])),
        "Not" => format!("not {}", tw_c(val)),
        "Present" => format!("pr {}", tw_name(val)),
        op => format!("{op} {} {}", tw_name(&val[0]), v_polish(&v_from_real(&val[1]))),
    }
}

fn tw_path(v: &JsonValue) -> String {
    format!("{} {}", tw_name(&v["a"]), if v["s"].is_null() { "-".to_string() } else { tw_name(&v["s"]) })
}

fn tw_f(v: &JsonValue) -> String {
    let (k, val) = v.as_object().and_then(|o| o.iter().next()).expect("enum object");
    match k.as_str() {
        "Or" => format!("or {} {}", tw_f(&val[0]), tw_f(&val[1])),
        "And" => format!("and {} {}", tw_f(&val[0]), tw_f(&val[1])),
        "Not" => format!("not {}", tw_f(val)),
        "Present" => format!("pr {}", tw_path(val)),
        "Complex" => format!("cx {} {}", tw_name(&val[0]), tw_c(&val[1])),
        op => format!("{op} {} {}", tw_path(&val[0]), v_polish(&v_from_real(&val[1]))),
    }
}

/// (reply, own round trip holds)
fn twin_parse(text: &str, complex: bool) -> (String, bool) {
    use scim_proto::filter as tw;
    if complex {
        match tw::ScimComplexFilter::from_str(text) {
            Ok(f) => {
                let rt = tw::ScimComplexFilter::from_str(&f.to_string()).ok().as_ref() == Some(&f);
                (format!("ok {}", tw_c(&serde_json::to_value(&f).unwrap())), rt)
            }
            Err(_) => ("reject".into(), true),
        }
    } else {
        match tw::ScimFilter::from_str(text) {
            Ok(f) => {
                let rt = tw::ScimFilter::from_str(&f.to_string()).ok().as_ref() == Some(&f);
                (format!("ok {}", tw_f(&serde_json::to_value(&f).unwrap())), rt)
            }
            Err(_) => ("reject".into(), true),
        }
    }
}

fn canon_ct(t: &CT) -> Option<CT> {
    Some(match t {
        CT::Or(a, b) => CT::Or(Box::new(canon_ct(a)?), Box::new(canon_ct(b)?)),
        CT::And(a, b) => CT::And(Box::new(canon_ct(a)?), Box::new(canon_ct(b)?)),
        CT::Not(a) => CT::Not(Box::new(canon_ct(a)?)),
        CT::Pres(s) => CT::Pres(canon_sub(s)),
        CT::Cmp(op, s, v) => CT::Cmp(op, canon_sub(s), canon_v(v)?),
    })
}

fn canon_ft(t: &FT) -> Option<FT> {
    Some(match t {
        FT::Or(a, b) => FT::Or(Box::new(canon_ft(a)?), Box::new(canon_ft(b)?)),
        FT::And(a, b) => FT::And(Box::new(canon_ft(a)?), Box::new(canon_ft(b)?)),
        FT::Not(a) => FT::Not(Box::new(canon_ft(a)?)),
        FT::Pres(a, s) => FT::Pres(canon_attr(a), s.as_ref().map(|s| canon_sub(s))),
        FT::Cmp(op, a, s, v) => FT::Cmp(op, canon_attr(a), s.as_ref().map(|s| canon_sub(s)), canon_v(v)?),
        FT::Cx(a, c) => FT::Cx(canon_attr(a), Box::new(canon_ct(c)?)),
    })
}

/// model reply -> canonical reply string comparable with the real side
fn canon_reply(reply: &str, complex: bool) -> String {
    if reply == "reject" {
        return "reject".into();
    }
    let Some(body) = reply.strip_prefix("ok ") else { return format!("unreadable: {reply}") };
    let mut t = Toks { t: body.split(' ').collect(), i: 0 };
    let r = if complex {
        read_ct(&mut t).map(|c| canon_ct(&c).map(|c| ct_polish(&c)))
    } else {
        read_ft(&mut t).map(|f| canon_ft(&f).map(|f| ft_polish(&f)))
    };
    match r {
        Ok(Some(p)) if t.i == t.t.len() => format!("ok {p}"),
        Ok(None) => "reject".into(),
        Ok(Some(_)) => format!("unreadable(trailing): {reply}"),
        Err(e) => format!("unreadable({e}): {reply}"),
    }
}

fn has_nonscalar(p: &str) -> bool {
    p.split(' ').any(|t| t == "nonscalar")
}

fn real_parse(text: &str, complex: bool) -> String {
    if complex {
        match ScimComplexFilter::from_str(text) {
            Ok(f) => format!("ok {}", ct_polish(&ct_from_real(&f))),
            Err(_) => "reject".into(),
        }
    } else {
        match ScimFilter::from_str(text) {
            Ok(f) => format!("ok {}", ft_polish(&ft_from_real(&f))),
            Err(_) => "reject".into(),
        }
    }
}

// ---------- ORACLE for "rejects nesting deeper than the documented limit" ----------

/// Nesting of a filter text, counted from the text alone: the largest number of brackets — `(`
/// (a group, also the one after `not`) or `[` (a complex-attribute filter) — that are open at
/// the same time, outside string literals. This is what the documented limit counts: the
/// unchanged parser spends one level of its budget per `(`, `not (` and `attr[` (checked on the
/// unchanged tree: every text with nesting <= limit-1 built below parses, every one with nesting
/// >= limit is rejected), and chains `a and b and c` without brackets are not nesting.
/// Only meaningful for texts the parser ACCEPTS (then every `"` outside a literal opens one).
fn text_nesting(text: &str) -> usize {
    let (mut depth, mut max, mut in_str, mut esc) = (0usize, 0usize, false, false);
    for c in text.chars() {
        if in_str {
            if esc {
                esc = false;
            } else if c == '\\' {
                esc = true;
            } else if c == '"' {
                in_str = false;
            }
            continue;
        }
        match c {
            '"' => in_str = true,
            '(' | '[' => {
                depth += 1;
                max = max.max(depth);
            }
            ')' | ']' => depth = depth.saturating_sub(1),
            _ => {}
        }
    }
    max
}

/// The limit constant as the source has it now (regenerated on every run; the ORACLE keeps
/// using `DOCUMENTED_LIMIT`, this only decides where additional directed cases are placed).
fn source_limit() -> Option<usize> {
    let src = std::fs::read_to_string(format!(
        "{}/proto/src/scim_v1/mod.rs",
        std::env::var("VERIF_REPO").unwrap_or_else(|_| "/repo".into())
    ))
    .ok()?;
    let at = src.find("const SCIM_FILTER_MAX_DEPTH")?;
    let rest = &src[at..];
    let eq = rest.find('=')?;
    let end = rest.find(';')?;
    rest[eq + 1..end].trim().replace('_', "").parse().ok()
}

/// One nesting step as the grammar counts it: each of these costs exactly one level.
#[derive(Clone, Copy, Debug, PartialEq)]
enum Nest {
    Paren,
    Not,
    And,
    Or,
}
const NESTS: [Nest; 4] = [Nest::Paren, Nest::Not, Nest::And, Nest::Or];

fn nest_ft(n: Nest, text: String, t: FT) -> (String, FT) {
    let a = || Box::new(FT::Pres("a".into(), None));
    match n {
        Nest::Paren => (format!("({text})"), t),
        Nest::Not => (format!("not ({text})"), FT::Not(Box::new(t))),
        Nest::And => (format!("a pr and ({text})"), FT::And(a(), Box::new(t))),
        Nest::Or => (format!("a pr or ({text})"), FT::Or(a(), Box::new(t))),
    }
}

fn nest_ct(n: Nest, text: String, t: CT) -> (String, CT) {
    let a = || Box::new(CT::Pres("type".into()));
    match n {
        Nest::Paren => (format!("({text})"), t),
        Nest::Not => (format!("not ({text})"), CT::Not(Box::new(t))),
        Nest::And => (format!("type pr and ({text})"), CT::And(a(), Box::new(t))),
        Nest::Or => (format!("type pr or ({text})"), CT::Or(a(), Box::new(t))),
    }
}

/// `outer` steps (outermost first) around one or two sibling brackets `attr[…]`, each holding
/// `inner` steps (outermost first) around `type pr`. Returns the text and the tree it denotes.
fn split_tower(outer: &[Nest], brackets: &[(&str, Vec<Nest>)], join_and: bool) -> (String, FT) {
    let mut parts: Vec<(String, FT)> = vec![];
    for (attr, inner) in brackets {
        let (mut text, mut tree) = ("type pr".to_string(), CT::Pres("type".into()));
        for n in inner.iter().rev() {
            (text, tree) = nest_ct(*n, text, tree);
        }
        parts.push((format!("{attr}[{text}]"), FT::Cx(attr.to_string(), Box::new(tree))));
    }
    let mut it = parts.into_iter();
    let (mut text, mut tree) = it.next().expect("at least one bracket");
    for (t2, f2) in it {
        text = format!("{text} {} {t2}", if join_and { "and" } else { "or" });
        tree = if join_and { FT::And(Box::new(tree), Box::new(f2)) } else { FT::Or(Box::new(tree), Box::new(f2)) };
    }
    for n in outer.iter().rev() {
        (text, tree) = nest_ft(*n, text, tree);
    }
    (text, tree)
}

/// The depth-stream case for a constructed text: ORACLE from the statement — nesting deeper than
/// the documented limit must be rejected; strictly shallower must parse to the tree written
/// (at exactly the limit the statement leaves the answer open: counted, not judged).
fn depth_case(text: String, tree: &FT, built_nesting: usize) -> Case {
    let nesting = text_nesting(&text);
    assert_eq!(nesting, built_nesting, "harness self-check: text_nesting disagrees with the construction for {text}");
    let oracle = if nesting > DOCUMENTED_LIMIT {
        Some(("REJECT".to_string(), "depth-reject"))
    } else if nesting < DOCUMENTED_LIMIT {
        Some((format!("ok {}", ft_polish(&ft_from_real(&ft_to_real(tree)))), "depth-within-limit"))
    } else {
        None
    };
    Case { stream: "depth", complex: false, text, printed_from: None, oracle, nontrivial: true }
}

fn h_lo(l: usize) -> u64 {
    (l / 2) as u64
}

// ---------- generators ----------

const KNOWN_ATTRS: [&str; 10] =
    ["name", "mail", "displayname", "uuid", "gidnumber", "memberof", "class", "MAIL", "DisplayName", "spn"];
const TRICKY_NAMES: [&str; 16] = [
    "or", "and", "not", "pr", "eq", "ne", "true", "false", "null", "nota", "orb", "a", "Z", "x-y_z9", "notpr", "e",
];
const SUBS: [&str; 8] = ["primary", "type", "value", "Type", "VALUE", "display", "or", "x1"];

fn gen_name(r: &mut Rng, sub: bool) -> String {
    match r.below(10) {
        0..=3 => (if sub { *r.pick(&SUBS) } else { *r.pick(&KNOWN_ATTRS) }).to_string(),
        4..=5 => r.pick(&TRICKY_NAMES).to_string(),
        _ => {
            let first = b"abcdefghijklmnopqrstuvwxyzABCDEFGHIJKLMNOPQRSTUVWXYZ";
            let rest = b"abcdefghijklmnopqrstuvwxyzABCDEFGHIJKLMNOPQRSTUVWXYZ0123456789-_";
            let mut s = String::new();
            s.push(first[r.below(first.len() as u64) as usize] as char);
            for _ in 0..r.below(8) {
                s.push(rest[r.below(rest.len() as u64) as usize] as char);
            }
            s
        }
    }
}

const HOSTILE: [&str; 28] = [
    "", " ", "a b", "x)y", "q\"uote", "back\\slash", "br[ack]et", " or ", " and ", "and", "or", "not (", "pr",
    "\\\"", "\\", "\"", "\\\\\"", "ünï", "日本語", "\u{1F600}", "a\nb", "tab\there", "\r", "\u{0}", "\u{1f}\u{7f}",
    "(a pr)", "a eq \"b\"", "\\u0041",
];
const ODD_CHARS: [char; 24] = [
    '"', '\\', '/', ' ', '(', ')', '[', ']', '\n', '\t', '\r', '\u{8}', '\u{c}', '\u{1}', '\u{1f}', '\u{7f}', '\u{80}',
    '\u{d7ff}', '\u{e000}', '\u{ffff}', '\u{10000}', '\u{10ffff}', '\u{2028}', 'u',
];

fn gen_string(r: &mut Rng) -> String {
    match r.below(6) {
        0 | 1 => r.pick(&HOSTILE).to_string(),
        2 => "plain".into(),
        _ => {
            let n = r.below(10);
            let mut s = String::new();
            for _ in 0..n {
                match r.below(4) {
                    0 => s.push(*r.pick(&ODD_CHARS)),
                    1 => s.push((b'a' + r.below(26) as u8) as char),
                    2 => s.push(char::from_u32(r.below(0x30) as u32).unwrap()),
                    _ => loop {
                        let c = r.below(0x11_0000) as u32;
                        if let Some(c) = char::from_u32(c) {
                            s.push(c);
                            break;
                        }
                    },
                }
            }
            s
        }
    }
}

/// a number as `serde_json` would print it (canonical token)
fn gen_number(r: &mut Rng) -> String {
    let v: JsonValue = match r.below(9) {
        0 => json!(r.below(100_000)),
        1 => json!(-(r.below(1000) as i64)),
        2 => json!(r.next()),
        3 => json!(r.next() as i64),
        4 => json!(*r.pick(&[0u64, 1, u64::MAX, i64::MAX as u64])),
        5 => json!(*r.pick(&[i64::MIN, -1, i64::MIN + 1])),
        6 => json!(*r.pick(&[1.5f64, -0.0, 0.0, 1.0, 1e21, 1e300, 5e-324, -2.5e-7, 0.1, 123456.789, 1e15, 1e16, 1e-5])),
        7 => json!((r.below(2_000_001) as f64 - 1_000_000.0) / 1000.0),
        _ => {
            // m / 10^p with m < 10^15, p <= 15: at most 15 significant digits and inside
            // serde_json's exact fast path, so print -> parse is the identity on these.
            // (Longer mantissas are probed separately: see `hardfloat` below and notes/C42.md.)
            let m = r.below(1_000_000_000_000_000);
            let p = r.below(16);
            let f: f64 = format!("{m}e-{p}").parse().unwrap();
            json!(if r.chance(1, 2) { f } else { -f })
        }
    };
    v.to_string()
}

fn gen_val(r: &mut Rng) -> V {
    match r.below(10) {
        0 => V::Null,
        1 => V::Bool(true),
        2 => V::Bool(false),
        3 | 4 | 5 => V::Num(gen_number(r)),
        _ => V::Str(gen_string(r)),
    }
}

fn gen_ct(r: &mut Rng, d: u32) -> CT {
    let k = if d == 0 { 3 + r.below(10) } else { r.below(13) };
    match k {
        0 => CT::Or(Box::new(gen_ct(r, d - 1)), Box::new(gen_ct(r, d - 1))),
        1 => CT::And(Box::new(gen_ct(r, d - 1)), Box::new(gen_ct(r, d - 1))),
        2 => CT::Not(Box::new(gen_ct(r, d - 1))),
        3 => CT::Pres(gen_name(r, true)),
        k => CT::Cmp(OPS[(k - 4) as usize], gen_name(r, true), gen_val(r)),
    }
}

fn gen_ft(r: &mut Rng, d: u32) -> FT {
    let k = if d == 0 { 3 + r.below(12) } else { r.below(15) };
    match k {
        0 => FT::Or(Box::new(gen_ft(r, d - 1)), Box::new(gen_ft(r, d - 1))),
        1 => FT::And(Box::new(gen_ft(r, d - 1)), Box::new(gen_ft(r, d - 1))),
        2 => FT::Not(Box::new(gen_ft(r, d - 1))),
        3 | 4 => FT::Cx(gen_name(r, false), Box::new(gen_ct(r, d.min(3)))),
        5 => FT::Pres(gen_name(r, false), if r.chance(1, 3) { Some(gen_name(r, true)) } else { None }),
        k => FT::Cmp(
            OPS[(k - 6) as usize],
            gen_name(r, false),
            if r.chance(1, 3) { Some(gen_name(r, true)) } else { None },
            gen_val(r),
        ),
    }
}

fn ct_leaves(t: &CT) -> usize {
    match t {
        CT::Or(a, b) | CT::And(a, b) => ct_leaves(a) + ct_leaves(b),
        CT::Not(a) => ct_leaves(a),
        _ => 1,
    }
}

fn ft_leaves(t: &FT) -> usize {
    match t {
        FT::Or(a, b) | FT::And(a, b) => ft_leaves(a) + ft_leaves(b),
        FT::Not(a) => ft_leaves(a),
        FT::Cx(_, c) => ct_leaves(c),
        _ => 1,
    }
}

// ---------- this file's own ("loose") printer: standard precedence, minimal parentheses ----------

fn ws(r: &mut Rng) -> String {
    if r.chance(3, 4) {
        " ".into()
    } else {
        (0..r.range(1, 3)).map(|_| *r.pick(&[' ', '\n', '\t'])).collect()
    }
}

/// value text and the value the parser must produce for it
fn loose_val(r: &mut Rng, v: &V) -> (String, V) {
    match v {
        V::Str(s) => {
            let mut t = String::from("\"");
            for c in s.chars() {
                let plain_ok = c != '"' && c != '\\' && (c as u32) >= 0x20;
                if plain_ok && r.chance(5, 6) {
                    t.push(c);
                } else if c == '/' || c == '"' || c == '\\' {
                    t.push('\\');
                    t.push(c);
                } else {
                    let mut buf = [0u16; 2];
                    for u in c.encode_utf16(&mut buf) {
                        if r.chance(1, 2) {
                            t += &format!("\\u{:04x}", u);
                        } else {
                            t += &format!("\\u{:04X}", u);
                        }
                    }
                }
            }
            t.push('"');
            (t, v.clone())
        }
        V::Num(tok) => {
            if r.chance(1, 2) {
                return (tok.clone(), v.clone());
            }
            let t = match r.below(6) {
                0 => format!("{}.50", r.below(1000)),
                1 => format!("{}E{}", r.range(1, 99), r.below(5)),
                2 => format!("-{}e+{}", r.range(1, 99), r.below(5)),
                3 => "-0".to_string(),
                4 => format!("{}.0e-{}", r.below(100), r.below(5)),
                _ => format!("\r{}\r", r.below(1000)),
            };
            let n: JsonValue = serde_json::from_str(&t).expect("loose number");
            (t, v_from_real(&n))
        }
        o => (v_polish(o), o.clone()),
    }
}

fn loose_ct(r: &mut Rng, t: &CT, ctx: u8) -> (String, CT) {
    let (s, e, lvl) = match t {
        CT::Or(a, b) => {
            let (sa, ea) = loose_ct(r, a, 0);
            let (sb, eb) = loose_ct(r, b, 1);
            (format!("{sa}{}or{}{sb}", ws(r), ws(r)), CT::Or(Box::new(ea), Box::new(eb)), 0)
        }
        CT::And(a, b) => {
            let (sa, ea) = loose_ct(r, a, 1);
            let (sb, eb) = loose_ct(r, b, 2);
            (format!("{sa}{}and{}{sb}", ws(r), ws(r)), CT::And(Box::new(ea), Box::new(eb)), 1)
        }
        CT::Not(a) => {
            let (sa, ea) = loose_ct(r, a, 0);
            (format!("not{}({sa})", ws(r)), CT::Not(Box::new(ea)), 2)
        }
        CT::Pres(s) => (format!("{s}{}pr", ws(r)), t.clone(), 2),
        CT::Cmp(op, s, v) => {
            let (vt, ve) = loose_val(r, v);
            (format!("{s}{}{}{}{vt}", ws(r), kw(op), ws(r)), CT::Cmp(op, s.clone(), ve), 2)
        }
    };
    if lvl < ctx || r.chance(1, 8) {
        (format!("({s})"), e)
    } else {
        (s, e)
    }
}

fn kw(op: &str) -> &'static str {
    match op {
        "Equal" => "eq",
        "NotEqual" => "ne",
        "Contains" => "co",
        "StartsWith" => "sw",
        "EndsWith" => "ew",
        "Greater" => "gt",
        "Less" => "lt",
        "GreaterOrEqual" => "ge",
        "LessOrEqual" => "le",
        o => panic!("op {o}"),
    }
}

fn path_text(a: &str, s: &Option<String>) -> String {
    match s {
        Some(s) => format!("{a}.{s}"),
        None => a.to_string(),
    }
}

fn loose_ft(r: &mut Rng, t: &FT, ctx: u8) -> (String, FT) {
    let (s, e, lvl) = match t {
        FT::Or(a, b) => {
            let (sa, ea) = loose_ft(r, a, 0);
            let (sb, eb) = loose_ft(r, b, 1);
            (format!("{sa}{}or{}{sb}", ws(r), ws(r)), FT::Or(Box::new(ea), Box::new(eb)), 0)
        }
        FT::And(a, b) => {
            let (sa, ea) = loose_ft(r, a, 1);
            let (sb, eb) = loose_ft(r, b, 2);
            (format!("{sa}{}and{}{sb}", ws(r), ws(r)), FT::And(Box::new(ea), Box::new(eb)), 1)
        }
        FT::Not(a) => {
            let (sa, ea) = loose_ft(r, a, 0);
            (format!("not{}({sa})", ws(r)), FT::Not(Box::new(ea)), 2)
        }
        FT::Pres(a, s) => (format!("{}{}pr", path_text(a, s), ws(r)), t.clone(), 2),
        FT::Cmp(op, a, s, v) => {
            let (vt, ve) = loose_val(r, v);
            (
                format!("{}{}{}{}{vt}", path_text(a, s), ws(r), kw(op), ws(r)),
                FT::Cmp(op, a.clone(), s.clone(), ve),
                2,
            )
        }
        FT::Cx(a, c) => {
            let (sc, ec) = loose_ct(r, c, 0);
            (format!("{a}[{sc}]"), FT::Cx(a.clone(), Box::new(ec)), 2)
        }
    };
    if lvl < ctx || r.chance(1, 8) {
        (format!("({s})"), e)
    } else {
        (s, e)
    }
}

// ---------- the run ----------

#[derive(Clone)]
struct Case {
    stream: &'static str,
    complex: bool,
    text: String,
    /// the tree whose real print `text` is (stream tree): model print must reproduce it
    printed_from: Option<String>,
    /// ORACLE: what the real parser must answer (canonical reply string), if the property says
    oracle: Option<(String, &'static str)>,
    nontrivial: bool,
}

struct Ctx {
    drv: Driver,
    rep: Report,
    pending: Vec<Case>,
    pending_bytes: usize,
}

fn ask_all(drv: &mut Driver, lines: &[String]) -> Vec<String> {
    let mut out = Vec::with_capacity(lines.len());
    let mut group: Vec<String> = vec![];
    let mut bytes = 0usize;
    for l in lines {
        if l.len() > 30_000 {
            out.extend(drv.ask_batch(&group));
            group.clear();
            bytes = 0;
            out.push(drv.ask(l));
            continue;
        }
        if bytes + l.len() + 1 > 40_000 || group.len() >= 200 {
            out.extend(drv.ask_batch(&group));
            group.clear();
            bytes = 0;
        }
        bytes += l.len() + 1;
        group.push(l.clone());
    }
    out.extend(drv.ask_batch(&group));
    out
}

impl Ctx {
    /// Model disagreements (and the known float finding) are recorded a handful per class and
    /// counted beyond that, so that they can never use up the report's failure slots before the
    /// ORACLE has judged the remaining cases (AGENT_GUIDE "Search on break").
    fn fail_capped(&mut self, f: Failure, cap: u64) {
        let key = format!("failures:{}:{}", f.kind, f.class);
        self.rep.count(&key);
        if self.rep.histogram[&key] <= cap {
            self.rep.fail(f);
        }
    }

    fn push(&mut self, c: Case) {
        self.pending_bytes += c.text.len() * 5;
        self.pending.push(c);
        if self.pending.len() >= 1000 || self.pending_bytes > 2_000_000 {
            self.flush();
        }
    }

    fn flush(&mut self) {
        let cases = std::mem::take(&mut self.pending);
        self.pending_bytes = 0;
        let mut lines = vec![];
        for c in &cases {
            lines.push(text_line(if c.complex { "c" } else { "p" }, &c.text));
            if let Some(p) = &c.printed_from {
                lines.push(format!("{} {p}", if c.complex { "wc" } else { "wf" }));
            }
        }
        let replies = ask_all(&mut self.drv, &lines);
        let mut ri = 0;
        for c in &cases {
            let model_raw = &replies[ri];
            ri += 1;
            let model = canon_reply(model_raw, c.complex);
            let real = real_parse(&c.text, c.complex);
            let st = c.stream;
            self.rep.count(&format!("{st}:cases"));
            self.rep.count(&format!("{st}:real-{}", if real == "reject" { "reject" } else { "accept" }));
            self.rep.count(&format!("len:{}", match c.text.chars().count() { 0..=15 => "0-15", 16..=63 => "16-63", 64..=255 => "64-255", _ => "256+" }));
            let input = json!({"stream": st, "complex": c.complex, "text": c.text, "printed_from": c.printed_from,
                               "oracle": c.oracle.as_ref().map(|o| o.0.clone()), "oracle_name": c.oracle.as_ref().map(|o| o.1)});
            let expect_model = if has_nonscalar(&real) {
                self.rep.count("nonscalar-json-accepted-by-real");
                "reject".to_string()
            } else {
                real.clone()
            };
            if model != expect_model {
                self.fail_capped(Failure {
                    kind: "impl-vs-model".into(),
                    class: "unclassified".into(),
                    input: input.clone(),
                    expected: model.clone(),
                    observed: real.clone(),
                }, 8);
            }
            // the twin grammar of libs/scim_proto (names are not interned there)
            {
                INTERN.store(false, std::sync::atomic::Ordering::Relaxed);
                let model_tw = canon_reply(model_raw, c.complex);
                INTERN.store(true, std::sync::atomic::Ordering::Relaxed);
                let (twin, twin_rt) = twin_parse(&c.text, c.complex);
                let expect_tw = if has_nonscalar(&twin) { "reject".to_string() } else { twin.clone() };
                if model_tw != expect_tw {
                    if model_tw == "reject" && twin != "reject" && c.text.contains('[') && (st == "depth" || st == "replay") {
                        // documented difference: `attr[` restarts the depth budget in the twin
                        self.rep.count("twin:complex-depth-restart-accepts-deeper");
                    } else {
                        self.fail_capped(Failure {
                            kind: "impl-vs-model".into(),
                            class: "twin-scim_proto-filter".into(),
                            input: input.clone(),
                            expected: model_tw,
                            observed: twin.clone(),
                        }, 8);
                    }
                }
                // the twin's own round trip, where the property's preconditions hold by construction
                // (shallow trees, canonical <= 15-digit numbers): not on mutated texts (17-digit
                // floats, see C42-F1) nor on the depth stream (printing doubles the nesting)
                if !twin_rt && matches!(st, "tree" | "loose" | "chain" | "attr") {
                    self.rep.fail(Failure {
                        kind: "impl-vs-oracle".into(),
                        class: "oracle-roundtrip-twin".into(),
                        input: input.clone(),
                        expected: "scim_proto::filter parse(to_string(f)) == f".into(),
                        observed: twin.clone(),
                    });
                }
                self.rep.count(if twin == "reject" { "twin:reject" } else { "twin:accept" });
            }
            if let Some(p) = &c.printed_from {
                let mp = &replies[ri];
                ri += 1;
                let mtext: Option<String> = mp.strip_prefix('t').map(|b| {
                    b.split(' ').filter(|x| !x.is_empty()).map(|x| char::from_u32(x.parse().unwrap()).unwrap()).collect()
                });
                if mtext.as_deref() != Some(c.text.as_str()) {
                    self.fail_capped(Failure {
                        kind: "impl-vs-model".into(),
                        class: "printer".into(),
                        input: json!({"stream": st, "complex": c.complex, "tree": p, "text": c.text, "printed_from": p}),
                        expected: format!("{mtext:?}"),
                        observed: c.text.clone(),
                    }, 8);
                }
            }
            // ORACLE depth (statement: "rejects nesting deeper than the documented limit"), on every
            // text of every stream, from the implementation's answer and the text alone
            if real != "reject" {
                let nesting = text_nesting(&c.text);
                self.rep.count(&format!("accepted-nesting:{}", match nesting {
                    0..=3 => "0-3",
                    4..=31 => "4-31",
                    32..=119 => "32-119",
                    120..=126 => "120-126",
                    127 => "127",
                    128 => "128",
                    _ => "over-documented-limit",
                }));
                let judged_below = matches!(&c.oracle, Some((w, _)) if w == "REJECT");
                if nesting > DOCUMENTED_LIMIT && !judged_below {
                    self.fail_capped(Failure {
                        kind: "impl-vs-oracle".into(),
                        class: "oracle-depth-reject".into(),
                        input: json!({"stream": st, "complex": c.complex, "text": c.text, "printed_from": c.printed_from,
                                      "oracle": "REJECT", "oracle_name": "depth-reject"}),
                        expected: format!("REJECT (text nests {nesting} deep, documented limit {DOCUMENTED_LIMIT})"),
                        observed: real.clone(),
                    }, 6);
                }
            }
            if let Some((want, name)) = &c.oracle {
                self.rep.count(&format!("oracle:{name}"));
                let ok = if want == "REJECT" { real == "reject" } else { real == *want };
                if !ok {
                    let expected = if *name == "depth-reject" {
                        format!("REJECT (text nests {} deep, documented limit {DOCUMENTED_LIMIT})", text_nesting(&c.text))
                    } else {
                        want.clone()
                    };
                    // every oracle failure is counted; 12 witnesses per oracle are kept
                    self.fail_capped(Failure {
                        kind: "impl-vs-oracle".into(),
                        class: format!("oracle-{name}"),
                        input,
                        expected,
                        observed: real.clone(),
                    }, 12);
                }
            }
            let nt = c.nontrivial || (st == "bad" && real == "reject");
            self.rep.case(if nt { Some(format!("{}|{}", c.complex, c.text)) } else { None });
            if self.rep.evaluations % 4999 == 7 {
                self.rep.sample(json!({"stream": st, "text": c.text, "real": real, "model": model_raw}));
            }
        }
    }
}

/// real print of a tree, plus the canonical Polish form of the real value (names interned)
fn real_print_ft(t: &FT) -> (String, String, ScimFilter) {
    let f = ft_to_real(t);
    (f.to_string(), ft_polish(&ft_from_real(&f)), f)
}

fn real_print_ct(t: &CT) -> (String, String, ScimComplexFilter) {
    let f = ct_to_real(t);
    (f.to_string(), ct_polish(&ct_from_real(&f)), f)
}

fn wrap_not_ft(mut t: FT, n: usize) -> FT {
    for _ in 0..n {
        t = FT::Not(Box::new(t));
    }
    t
}

fn mutate(r: &mut Rng, s: &str) -> String {
    let mut cs: Vec<char> = s.chars().collect();
    let alphabet: Vec<char> = "()[]\" \\.orandtpeq-_09\n\t\r{}:,/u".chars().collect();
    for _ in 0..r.range(1, 3) {
        let n = cs.len();
        match r.below(6) {
            0 if n > 0 => {
                cs.remove(r.below(n as u64) as usize);
            }
            1 => cs.insert(r.below(n as u64 + 1) as usize, *r.pick(&alphabet)),
            2 if n > 0 => cs[r.below(n as u64) as usize] = *r.pick(&alphabet),
            3 if n > 0 => cs.truncate(r.below(n as u64) as usize),
            4 if n > 1 => {
                let i = r.below(n as u64 - 1) as usize;
                cs.swap(i, i + 1);
            }
            _ if n > 0 => {
                let i = r.below(n as u64) as usize;
                let j = (i + r.range(1, 6) as usize).min(n);
                let span: Vec<char> = cs[i..j].to_vec();
                for (k, c) in span.into_iter().enumerate() {
                    cs.insert(j + k, c);
                }
            }
            _ => {}
        }
    }
    cs.into_iter().collect()
}

const SOUP: [&str; 30] = [
    "(", ")", "[", "]", " ", "  ", "or", "and", "not", "pr", "eq", "ne", "a", "mail", "b.c", "\"x\"", "\"a b\"", "1",
    "-1.5", "null", "true", ".", "\"", "\\", "\n", "\t", "\r", "{}", "{\"a\":1}", "not (",
];

fn main() {
    let args = Args::parse();
    let mut ctx = Ctx {
        drv: Driver::spawn(&args.driver),
        rep: Report::new(
            "scim-text",
            "random ScimFilter/ScimComplexFilter trees (all operators, sub-attributes, complex filters, hostile strings, \
             numbers, bool, null) printed by the real Display and by an independent minimal-parenthesis printer, \
             operator chains, mutated/token-soup texts, nesting around the limit, all ATTR_* constants; \
             non-trivial = tree with >= 2 leaves or a string value or a sub-attribute/complex filter (tree/loose/chain), \
             any text the real parser rejects (bad), every depth/attr case; distinct = distinct (kind, text)",
        ),
        pending: vec![],
        pending_bytes: 0,
    };

    if let Some(path) = &args.replay {
        let v: serde_json::Value = serde_json::from_str(&std::fs::read_to_string(path).unwrap()).unwrap();
        let inp = &v["input"];
        let oracle = match (inp["oracle"].as_str(), inp["oracle_name"].as_str()) {
            (Some(o), Some(n)) => {
                let n: &'static str = match n {
                    "roundtrip" => "roundtrip",
                    "precedence" => "precedence",
                    "chain" => "chain",
                    "depth-reject" => "depth-reject",
                    "depth-within-limit" => "depth-within-limit",
                    _ => "replayed",
                };
                Some((o.to_string(), n))
            }
            _ => None,
        };
        ctx.push(Case {
            stream: "replay",
            complex: inp["complex"].as_bool().unwrap_or(false),
            text: inp["text"].as_str().unwrap().to_string(),
            printed_from: inp["printed_from"].as_str().map(|s| s.to_string()),
            oracle,
            nontrivial: true,
        });
        ctx.flush();
        ctx.rep.write(&args.out);
        return;
    }

    let n = args.cases(6_000, 150_000);
    for i in 0..n {
        let mut r = Rng::for_case(args.seed, i);
        let complex = r.chance(1, 4);
        let d = *r.pick(&[0u32, 1, 2, 2, 3, 3, 4, 5]);
        // --- tree + loose ---
        if complex {
            let t = gen_ct(&mut r, d);
            let (text, polish, f) = real_print_ct(&t);
            let nontrivial = ct_leaves(&t) >= 2 || polish.contains(" s ");
            ctx.rep.count(&format!("tree-depth:{d}"));
            // ORACLE round trip, real types only
            let back = ScimComplexFilter::from_str(&text);
            if back.as_ref().ok() != Some(&f) {
                ctx.rep.fail(Failure {
                    kind: "impl-vs-oracle".into(),
                    class: "oracle-roundtrip".into(),
                    input: json!({"stream": "tree", "complex": true, "text": text, "printed_from": polish,
                                  "oracle": format!("ok {polish}"), "oracle_name": "roundtrip"}),
                    expected: format!("{f:?}"),
                    observed: format!("{:?}", back.map_err(|e| e.to_string())),
                });
            }
            ctx.push(Case { stream: "tree", complex, text, printed_from: Some(polish.clone()),
                            oracle: Some((format!("ok {polish}"), "roundtrip")), nontrivial });
            let (lt, le) = loose_ct(&mut r, &t, 0);
            let want = format!("ok {}", ct_polish(&ct_from_real(&ct_to_real(&le))));
            ctx.push(Case { stream: "loose", complex, text: lt, printed_from: None, oracle: Some((want, "precedence")), nontrivial });
        } else {
            let t = gen_ft(&mut r, d);
            let (text, polish, f) = real_print_ft(&t);
            let nontrivial = ft_leaves(&t) >= 2 || polish.contains(" s ") || polish.contains("cx ");
            ctx.rep.count(&format!("tree-depth:{d}"));
            let back = ScimFilter::from_str(&text);
            if back.as_ref().ok() != Some(&f) {
                ctx.rep.fail(Failure {
                    kind: "impl-vs-oracle".into(),
                    class: "oracle-roundtrip".into(),
                    input: json!({"stream": "tree", "complex": false, "text": text, "printed_from": polish,
                                  "oracle": format!("ok {polish}"), "oracle_name": "roundtrip"}),
                    expected: format!("{f:?}"),
                    observed: format!("{:?}", back.map_err(|e| e.to_string())),
                });
            }
            ctx.push(Case { stream: "tree", complex, text: text.clone(), printed_from: Some(polish.clone()),
                            oracle: Some((format!("ok {polish}"), "roundtrip")), nontrivial });
            let (lt, le) = loose_ft(&mut r, &t, 0);
            let want = format!("ok {}", ft_polish(&ft_from_real(&ft_to_real(&le))));
            ctx.push(Case { stream: "loose", complex, text: lt.clone(), printed_from: None, oracle: Some((want, "precedence")), nontrivial });
            // --- bad: mutations of both texts ---
            for base in [&text, &lt] {
                let m = mutate(&mut r, base);
                ctx.push(Case { stream: "bad", complex: r.chance(1, 8), text: m, printed_from: None, oracle: None, nontrivial: false });
            }
        }
        // --- chain: a0 op a1 op a2 ... (no parentheses between the operands) ---
        if i % 3 == 0 {
            let k = r.range(2, 7) as usize;
            let atoms: Vec<FT> = (0..k).map(|_| gen_ft(&mut r, 0)).collect();
            let texts: Vec<String> = atoms.iter().map(|a| loose_ft(&mut r, a, 2)).map(|(s, e)| {
                // operands are used as printed; expected operand = what the loose printer promises
                let _ = e;
                s
            }).collect();
            // expected operands: re-derive through the canonical print (numbers may be non-canonical in `texts`)
            let operands: Vec<FT> = texts.iter().zip(atoms.iter()).map(|(s, a)| {
                match ScimFilter::from_str(s) { Ok(f) => ft_from_real(&f), Err(_) => ft_from_real(&ft_to_real(a)) }
            }).collect();
            let ops: Vec<bool> = (0..k - 1).map(|_| r.chance(1, 2)).collect(); // true = and
            let mut text = texts[0].clone();
            for j in 0..k - 1 {
                text += &format!("{}{}{}{}", ws(&mut r), if ops[j] { "and" } else { "or" }, ws(&mut r), texts[j + 1]);
            }
            // property text: AND binds tighter than OR; equal operators associate to the left
            let mut groups: Vec<FT> = vec![];
            let mut cur = operands[0].clone();
            for j in 0..k - 1 {
                if ops[j] {
                    cur = FT::And(Box::new(cur), Box::new(operands[j + 1].clone()));
                } else {
                    groups.push(cur);
                    cur = operands[j + 1].clone();
                }
            }
            groups.push(cur);
            let mut it = groups.into_iter();
            let mut want = it.next().unwrap();
            for g in it {
                want = FT::Or(Box::new(want), Box::new(g));
            }
            ctx.rep.count(&format!("chain-len:{k}"));
            ctx.push(Case { stream: "chain", complex: false, text, printed_from: None,
                            oracle: Some((format!("ok {}", ft_polish(&want)), "chain")), nontrivial: true });
        }
        // --- bad: token soup ---
        if i % 2 == 0 {
            let k = r.range(1, 12);
            let text: String = (0..k).map(|_| *r.pick(&SOUP)).collect::<Vec<_>>().join(if r.chance(1, 2) { " " } else { "" });
            ctx.push(Case { stream: "bad", complex: r.chance(1, 4), text, printed_from: None, oracle: None, nontrivial: false });
        }
    }
    ctx.flush();

    // --- depth: nesting around the limit (deterministic) ---
    for nest in (DOCUMENTED_LIMIT - 6)..=(DOCUMENTED_LIMIT + 6) {
        let must_reject = nest > DOCUMENTED_LIMIT;
        let oracle = |want_reject: bool| if want_reject { Some(("REJECT".to_string(), "depth-reject")) } else { None };
        // parentheses
        let text = format!("{}a pr{}", "(".repeat(nest), ")".repeat(nest));
        ctx.push(Case { stream: "depth", complex: false, text, printed_from: None, oracle: oracle(must_reject), nontrivial: true });
        let text = format!("{}type pr{}", "(".repeat(nest), ")".repeat(nest));
        ctx.push(Case { stream: "depth", complex: true, text, printed_from: None, oracle: oracle(must_reject), nontrivial: true });
        // not (
        let text = format!("{}a pr{}", "not (".repeat(nest), ")".repeat(nest));
        ctx.push(Case { stream: "depth", complex: false, text, printed_from: None, oracle: oracle(must_reject), nontrivial: true });
        // complex inside parentheses
        let text = format!("{}mail[type pr]{}", "(".repeat(nest), ")".repeat(nest));
        ctx.push(Case { stream: "depth", complex: false, text, printed_from: None, oracle: oracle(must_reject), nontrivial: true });
        // right-nested and/or with parentheses
        let text = format!("{}a pr{}", "a pr and (".repeat(nest), ")".repeat(nest));
        ctx.push(Case { stream: "depth", complex: false, text, printed_from: None, oracle: oracle(must_reject), nontrivial: true });
    }
    // --- depth: towers split across complex-attribute brackets (deterministic) ---
    // n nesting steps outside, the bracket `attr[` (one level itself), m steps inside: the text nests
    // n + 1 + m deep although neither side alone reaches the limit. For the documented limit and,
    // if the source constant has moved, for that value too.
    let mut limits = vec![DOCUMENTED_LIMIT];
    match source_limit() {
        Some(l) if l != DOCUMENTED_LIMIT && (8..=1024).contains(&l) => {
            limits.push(l);
            ctx.rep.note(format!("depth: SCIM_FILTER_MAX_DEPTH in the source is {l}, documented {DOCUMENTED_LIMIT}: split towers generated around both"));
        }
        Some(l) if l != DOCUMENTED_LIMIT => ctx.rep.note(format!("depth: SCIM_FILTER_MAX_DEPTH in the source is {l} (no extra towers generated for it)")),
        Some(_) => {}
        None => ctx.rep.count("depth:source-limit-unreadable"),
    }
    for l in limits {
        let h = l / 2;
        let mut pairs: Vec<(usize, usize)> = vec![
            // deeper than the limit in total, each side below it
            (l - 1, 1), (h, h + 1), (l - 1, l - 1), (1, l), (l - 2, 2), (0, l), (h, h), (l - l / 4 + 4, l - l / 4 + 4), (h + 1, h - 1), (1, l - 1),
            // exactly at the limit (the statement leaves it open; observed only)
            (l - 2, 1), (h, h - 1), (0, l - 1), (l - 1, 0),
            // the in-limit neighbours: must parse
            (l - 3, 1), (h, h - 2), (0, l - 2), (1, l - 3), (l - 2, 0), (h - 1, h - 2), (2, 2),
        ];
        pairs.sort();
        pairs.dedup();
        for (n, m) in pairs.iter().copied() {
            for on in NESTS {
                for inn in NESTS {
                    let (text, tree) = split_tower(&vec![on; n], &[("mail", vec![inn; m])], true);
                    ctx.rep.count(&format!("depth-split:{}", match (n + 1 + m).cmp(&DOCUMENTED_LIMIT) {
                        std::cmp::Ordering::Less => "within", std::cmp::Ordering::Equal => "at-limit", _ => "over" }));
                    ctx.push(depth_case(text, &tree, n + 1 + m));
                }
            }
            // every step a different operator (outside and inside)
            let mixed = |k: usize, off: usize| -> Vec<Nest> { (0..k).map(|i| NESTS[(i + off) % 4]).collect() };
            for off in 0..2 {
                let (text, tree) = split_tower(&mixed(n, off), &[("mail", mixed(m, off + 1))], true);
                ctx.push(depth_case(text, &tree, n + 1 + m));
            }
            // two sibling brackets under the same n steps: one shallow, one carrying the m steps
            if m >= 1 {
                for (k, on) in NESTS.iter().enumerate() {
                    let inn = NESTS[(k + 1) % 4];
                    for deep_first in [false, true] {
                        let deep = ("mail", vec![inn; m]);
                        let shallow = ("emails", vec![NESTS[k]; 1]);
                        let br = if deep_first { [deep, shallow] } else { [shallow, deep] };
                        let (text, tree) = split_tower(&vec![*on; n], &br, k % 2 == 0);
                        ctx.rep.count("depth-split:two-brackets");
                        ctx.push(depth_case(text, &tree, n + 1 + m));
                    }
                }
                // both brackets deep: each within the limit on its own side, over it with the outside
                let br = [("mail", vec![Nest::Paren; m]), ("emails", vec![Nest::Not; m])];
                let (text, tree) = split_tower(&vec![Nest::Paren; n], &br, false);
                ctx.rep.count("depth-split:two-brackets");
                ctx.push(depth_case(text, &tree, n + 1 + m));
            }
        }
    }
    // --- depth, search mode only (`--budget` > 1): random towers around the limit ---
    if args.budget > 1 {
        let l = DOCUMENTED_LIMIT;
        for i in 0..400 * args.budget {
            let mut r = Rng::for_case(args.seed ^ 0xDE97, i);
            // total nesting: mostly within +-3 of the limit, else anywhere up to twice the limit
            let (n, m) = match r.below(6) {
                0..=2 => {
                    let total = (l - 3 + r.below(8) as usize).max(2);
                    let n = r.below(total.min(l + 1) as u64) as usize;
                    (n, total - 1 - n)
                }
                3 => (r.range(h_lo(l), l as u64 - 1) as usize, r.range(h_lo(l), l as u64 - 1) as usize),
                4 => (r.below(l as u64) as usize, r.below(l as u64) as usize),
                _ => (r.below(2 * l as u64) as usize, r.below(2 * l as u64) as usize),
            };
            let ops = |r: &mut Rng, k: usize| -> Vec<Nest> {
                if r.chance(1, 2) { vec![*r.pick(&NESTS); k] } else { (0..k).map(|_| *r.pick(&NESTS)).collect() }
            };
            let outer = ops(&mut r, n);
            let deep = (*r.pick(&["mail", "emails", "x", "MAIL"]), ops(&mut r, m));
            let (text, tree) = if r.chance(1, 4) {
                let m2 = r.below(m as u64 + 1) as usize;
                let other = (*r.pick(&["mail", "addresses"]), ops(&mut r, m2));
                let br = if r.chance(1, 2) { [deep, other] } else { [other, deep] };
                split_tower(&outer, &br, r.chance(1, 2))
            } else {
                split_tower(&outer, &[deep], true)
            };
            ctx.rep.count("depth-split:random-search");
            ctx.push(depth_case(text, &tree, n + 1 + m));
        }
    }
    // printed deep trees: `Not` towers; the printed form nests 2 per Not plus 1; round trip while within the limit
    for k in 55..=70usize {
        let t = wrap_not_ft(FT::Pres("name".into(), None), k);
        let (text, polish, f) = real_print_ft(&t);
        let printed_nesting = 2 * k + 1;
        let oracle = if printed_nesting < DOCUMENTED_LIMIT {
            Some((format!("ok {polish}"), "roundtrip"))
        } else if printed_nesting > DOCUMENTED_LIMIT {
            Some(("REJECT".to_string(), "depth-reject"))
        } else {
            None
        };
        let _ = f;
        ctx.push(Case { stream: "depth", complex: false, text, printed_from: Some(polish), oracle, nontrivial: true });
    }
    // long flat chains do not count as nesting
    for k in [200usize, 1000] {
        let text = vec!["a pr"; k].join(" and ");
        let mut want = FT::Pres("a".into(), None);
        for _ in 1..k {
            want = FT::And(Box::new(want), Box::new(FT::Pres("a".into(), None)));
        }
        ctx.push(Case { stream: "depth", complex: false, text, printed_from: None,
                        oracle: Some((format!("ok {}", ft_polish(&want)), "chain")), nontrivial: true });
    }
    ctx.flush();

    // --- attr: every ATTR_* / SUB_ATTR_* constant as a name ---
    let consts = std::fs::read_to_string(format!(
        "{}/proto/src/constants.rs",
        std::env::var("VERIF_REPO").unwrap_or_else(|_| "/repo".into())
    ))
    .unwrap_or_default();
    let mut n_attr = 0;
    for line in consts.lines() {
        let l = line.trim();
        if !(l.starts_with("pub const ATTR_") || l.starts_with("pub const SUB_ATTR_")) || !l.contains(": &str") {
            continue;
        }
        let Some(val) = l.split('"').nth(1) else { continue };
        n_attr += 1;
        for name in [val.to_string(), val.to_uppercase()] {
            let t = FT::Cmp("Equal", name.clone(), Some("value".into()), V::Str(name.clone()));
            let (text, polish, f) = real_print_ft(&t);
            if ScimFilter::from_str(&text).ok().as_ref() != Some(&f) {
                ctx.rep.fail(Failure {
                    kind: "impl-vs-oracle".into(),
                    class: "oracle-roundtrip".into(),
                    input: json!({"stream": "attr", "complex": false, "text": text, "printed_from": polish,
                                  "oracle": format!("ok {polish}"), "oracle_name": "roundtrip"}),
                    expected: format!("{f:?}"),
                    observed: format!("{:?}", ScimFilter::from_str(&text).map_err(|e| e.to_string())),
                });
            }
            ctx.push(Case { stream: "attr", complex: false, text, printed_from: Some(polish.clone()),
                            oracle: Some((format!("ok {polish}"), "roundtrip")), nontrivial: true });
        }
    }
    ctx.flush();
    ctx.rep.note(format!("attr stream: {n_attr} name constants read from proto/src/constants.rs"));
    if n_attr < 100 {
        ctx.rep.fail(Failure {
            kind: "impl-vs-model".into(),
            class: "harness-attr-constants-unreadable".into(),
            input: json!({"stream": "attr"}),
            expected: ">= 100 ATTR_* constants".into(),
            observed: format!("{n_attr}"),
        });
    }

    // --- hardfloat: f64 values whose shortest decimal form needs 16-17 digits ---
    // `serde_json` is built without `float_roundtrip`, so its parser may be 1 ulp off on such
    // tokens and `Equal(a, x).to_string().parse()` then differs from the original filter.
    // Genuine (minor) defect of the property as stated: every such case is reported as an
    // oracle failure of class FLOAT_CLASS (listed in known_findings.json as D19); a reparse that
    // differs by more than the numeric value of that one token is left unclassified.
    const FLOAT_CLASS: &str = "C42-F1:float-shortest-repr-reparsed-1ulp-off";
    let listed = true;
    let nf = args.cases(20_000, 200_000);
    let mut first: Option<String> = None;
    for i in 0..nf {
        let mut r = Rng::for_case(args.seed ^ 0xF10A7, i);
        let x = f64::from_bits(r.next());
        if !x.is_finite() {
            continue;
        }
        let f = ScimFilter::Equal(AttrPath { a: Attribute::from("gidnumber"), s: None }, json!(x));
        let text = f.to_string();
        ctx.rep.count("hardfloat:cases");
        match ScimFilter::from_str(&text) {
            Ok(g) if g == f => {}
            other => {
                ctx.rep.count("hardfloat:reparse-differs");
                if first.is_none() {
                    first = Some(text.clone());
                }
                if listed {
                    ctx.fail_capped(Failure {
                        kind: "impl-vs-oracle".into(),
                        class: FLOAT_CLASS.into(),
                        input: json!({"stream": "hardfloat", "complex": false, "text": text}),
                        expected: format!("{f:?}"),
                        observed: format!("{:?}", other.map_err(|e| e.to_string())),
                    }, 5);
                }
            }
        }
    }
    if let Some(w) = first {
        ctx.rep.note(format!("hardfloat: real parse(real print f) != f for e.g. {w} (serde_json without float_roundtrip); class {FLOAT_CLASS}, listed={listed}"));
    }

    ctx.rep.model_requests = ctx.drv.requests;
    ctx.rep.write(&args.out);
    println!("c42: {} cases, {} failures", ctx.rep.evaluations, ctx.rep.failures.len());
}
