//! C48 — upgrading the domain level preserves data and consistency.
//!
//! Stream `upgrade`. A real file-backed server is created at `DOMAIN_PREVIOUS_TGT_LEVEL`
//! (`Backend::new` on a SQLite file, `QueryServer::new`, `initialise_helper(ct, previous)`), filled with a
//! random population (persons with credentials / sessions / ssh keys, nested groups, service accounts with
//! api tokens, OAuth2 clients with scope maps, custom schema entries, recycled entries) and random
//! modifications of BUILT-IN entries (extra members in builtin groups, removed default members, emptied
//! create-once groups, changed account policy, changed single-valued and access-control attributes, a
//! password on a builtin account, a changed domain display name).  Then the database is upgraded to
//! `DOMAIN_TGT_LEVEL` along one of several paths (restart + `initialise_helper`, the running server's
//! `initialise_helper`, the in-transaction level raise the unit tests use, `domain_raise` + commit; before
//! it sometimes a refused jump to `DOMAIN_TGT_NEXT_LEVEL` and a restart), then the same level is run again,
//! the migration is re-run (`domain_remigrate`), and a downgrade is attempted.
//!
//! Oracle (from the property text only, evaluated on the implementation's own before/after dumps):
//!  * every user-created entry exists afterwards in the same state with every non-derived attribute equal
//!    in its stored (db JSON) form;
//!  * every built-in entry defined for the target level exists (live) afterwards and carries every value its
//!    definition specifies (except `member_create_once`, which is a creation-time default, and the ignore
//!    list of `internal_migrate_or_create`, where the administrator's value wins — both documented in the
//!    code and pinned by kanidm's own migration test);
//!  * user-added values of multi-valued attributes of built-in entries are still there;
//!  * `verify()` of the server and of the backend (indexes, RUV) report nothing; the index tables equal the
//!    ones a forced full reindex produces; the relatives' invariants hold on the whole upgraded database:
//!    membership closure (C17), no dangling reference (C16), unique names/spns (C19), spn = name@domain (C22);
//!  * re-running the same level and re-running the migration change nothing; a downgrade and a jump past the
//!    target level are refused and leave the database as it was.
//!
//! Correspondence: every definition of the target level is given to the Lean model together with the
//! entry's stored attributes before the upgrade; the model's `migrateOrCreate` result must equal the stored
//! non-derived attributes afterwards.  `gen_modlist_assert` of the real code is compared modification by
//! modification with the model's list.  Stream `levels` (same binary, runs after `upgrade`): servers at every
//! creatable level × every target level, outcome (error code / final level) against the model's driver.
use hlib::*;
use kanidm_lib_crypto::Password;
use kanidm_proto::internal::FsType;
use kanidmd_lib::be::{Backend, BackendConfig};
use kanidmd_lib::credential::totp::{Totp, TotpAlgo, TotpDigits};
use kanidmd_lib::entry::{Entry, EntryInit, EntryNew};
use kanidmd_lib::filter::{Filter, FC};
use kanidmd_lib::prelude::*;
use kanidmd_lib::schema::{Schema, SchemaTransaction};
use kanidmd_lib::value::{ApiToken, ApiTokenScope, AuthType, CredentialType, Session, SessionExtMetadata, SessionScope, SessionState};
use kanidmd_lib::verif_hooks::{c01 as hk01, c12 as hk12, c13 as hk13, c48 as hk};
use serde_json::{json, Value as J};
use std::collections::{BTreeMap, BTreeSet};
use std::path::{Path, PathBuf};
use time::OffsetDateTime;

include!("../c12_data/pwvectors.rs");
include!("../c12_data/sshkeys.rs");

type EntryNewT = Entry<EntryInit, EntryNew>;

fn u(n: u64) -> Uuid {
    nat_uuid(0xC48_0000 + n)
}

fn scratch() -> PathBuf {
    let p = PathBuf::from(format!("/tmp/C48/{}", std::process::id()));
    std::fs::create_dir_all(&p).expect("scratch dir");
    p
}

fn rm_db(p: &Path) {
    for suf in ["", "-wal", "-shm"] {
        let _ = std::fs::remove_file(format!("{}{}", p.display(), suf));
    }
}

struct Srv {
    qs: QueryServer,
    be: Backend,
}

/// Open (or create) the database file and run the server start-up migration driver towards `level`.
fn start(rt: &tokio::runtime::Runtime, path: &Path, ct: Duration, level: u32) -> Result<Srv, OperationError> {
    let schema = Schema::new().expect("schema");
    let idxmeta = {
        let s = schema.write();
        s.reload_idxmeta()
    };
    let be = Backend::new(BackendConfig::new(Some(path), 4, FsType::Generic, Some(2048)), idxmeta, false)?;
    let qs = QueryServer::new(be.clone(), schema, "example.com".to_string(), Duration::ZERO)?;
    rt.block_on(qs.initialise_helper(ct, level))?;
    Ok(Srv { qs, be })
}

fn err_code(e: &OperationError) -> String {
    match e {
        OperationError::MG0001InvalidReMigrationLevel => "MG0001".into(),
        OperationError::MG0002RaiseDomainLevelExceedsMaximum => "MG0002".into(),
        OperationError::MG0004DomainLevelInDevelopment => "MG0004".into(),
        OperationError::MG0008SkipUpgradeAttempted => "MG0008".into(),
        OperationError::MG0009InvalidTargetLevelForBootstrap => "MG0009".into(),
        OperationError::MG0010DowngradeNotAllowed => "MG0010".into(),
        other => format!("other:{other:?}"),
    }
}

// ------------------------------------------------------------------------------------------------
// history
// ------------------------------------------------------------------------------------------------

/// Built-in groups the history adds members to / removes defaults from (index = op argument).
const BGROUPS: &[Uuid] = &[
    UUID_IDM_ADMINS,
    UUID_SYSTEM_ADMINS,
    UUID_IDM_PEOPLE_ADMINS,
    UUID_IDM_GROUP_ADMINS,
    UUID_IDM_HIGH_PRIVILEGE,
    UUID_IDM_PEOPLE_SELF_NAME_WRITE,
];

#[derive(Clone, Debug, PartialEq)]
enum Op {
    Person(u64, u64),
    Group(u64, u64),
    Svc(u64, u64),
    Oauth2(u64, u64),
    SchemaAttr(u64),
    SchemaClass(u64),
    Modify(u64, u64),
    Delete(u64),
    /// builtin group index, created entry index: add the user entry as a member
    BAdd(u64, u64),
    /// builtin group index: purge all members (defaults and create-once ones)
    BPurge(u64),
    /// builtin group index, created group index: nest a builtin group into a user group
    BNest(u64, u64),
    /// change the minimum credential type of idm_all_persons (the ignore list of the upsert)
    BCredType(u64),
    /// purge the minimum credential type of idm_all_persons
    BCredTypePurge,
    /// account policy attribute not in any definition on idm_all_persons
    BPolicy(u64),
    /// single-valued attribute that IS in the definition (description) on a builtin group
    BDesc(u64, u64),
    /// change an access control profile: 0 add a receiver group, 1 drop a search attr, 2 add a search attr
    BAcp(u64, u64),
    /// password on the builtin idm_admin account
    BAdminPw(u64),
    /// domain display name
    BDomain(u64),
    /// a user group whose name is the name of an entry that only the target level defines
    Clash,
    /// kind index (0 person, 1 group, 2 service account, 3 OAuth2 client): an entry of that kind carrying EVERY
    /// optional (`may` / `systemmay`) attribute its classes allow in the schema in force at the previous level
    /// for which a value can be built (legacy OAuth2 key attributes included)
    Full(u64),
}

impl Op {
    fn show(&self) -> String {
        match self {
            Op::Person(i, s) => format!("person {i} {s}"),
            Op::Group(i, s) => format!("group {i} {s}"),
            Op::Svc(i, s) => format!("svc {i} {s}"),
            Op::Oauth2(i, s) => format!("oauth2 {i} {s}"),
            Op::SchemaAttr(i) => format!("schemaattr {i}"),
            Op::SchemaClass(i) => format!("schemaclass {i}"),
            Op::Modify(i, s) => format!("modify {i} {s}"),
            Op::Delete(i) => format!("delete {i}"),
            Op::BAdd(g, i) => format!("badd {g} {i}"),
            Op::BPurge(g) => format!("bpurge {g}"),
            Op::BNest(g, i) => format!("bnest {g} {i}"),
            Op::BCredType(k) => format!("bcredtype {k}"),
            Op::BCredTypePurge => "bcredtypepurge".into(),
            Op::BPolicy(k) => format!("bpolicy {k}"),
            Op::BDesc(g, s) => format!("bdesc {g} {s}"),
            Op::BAcp(k, i) => format!("bacp {k} {i}"),
            Op::BAdminPw(s) => format!("badminpw {s}"),
            Op::BDomain(s) => format!("bdomain {s}"),
            Op::Clash => "clash".into(),
            Op::Full(k) => format!("full {k}"),
        }
    }
    fn parse(s: &str) -> Option<Op> {
        let t: Vec<&str> = s.split_whitespace().collect();
        let n = |i: usize| t.get(i).and_then(|x| x.parse::<u64>().ok());
        Some(match *t.first()? {
            "person" => Op::Person(n(1)?, n(2)?),
            "group" => Op::Group(n(1)?, n(2)?),
            "svc" => Op::Svc(n(1)?, n(2)?),
            "oauth2" => Op::Oauth2(n(1)?, n(2)?),
            "schemaattr" => Op::SchemaAttr(n(1)?),
            "schemaclass" => Op::SchemaClass(n(1)?),
            "modify" => Op::Modify(n(1)?, n(2)?),
            "delete" => Op::Delete(n(1)?),
            "badd" => Op::BAdd(n(1)?, n(2)?),
            "bpurge" => Op::BPurge(n(1)?),
            "bnest" => Op::BNest(n(1)?, n(2)?),
            "bcredtype" => Op::BCredType(n(1)?),
            "bcredtypepurge" => Op::BCredTypePurge,
            "bpolicy" => Op::BPolicy(n(1)?),
            "bdesc" => Op::BDesc(n(1)?, n(2)?),
            "bacp" => Op::BAcp(n(1)?, n(2)?),
            "badminpw" => Op::BAdminPw(n(1)?),
            "bdomain" => Op::BDomain(n(1)?),
            "clash" => Op::Clash,
            "full" => Op::Full(n(1)?),
            _ => return None,
        })
    }
}

/// Failure class of the one recognised defect: the upgrade aborts (debug build: `debug_assert!`; release build:
/// the batch is cut short and its built-in entries are missing) when a user entry already holds the unique
/// name of an entry that only the target level defines.
const RECOGNISED: &str = "upgrade-aborts-user-entry-holds-new-builtin-name";

/// How the upgrade is performed.
#[derive(Clone, Copy, Debug, PartialEq)]
enum PathKind {
    /// stop the server, start a new one on the file with the target level
    Restart,
    /// `initialise_helper(target)` on the running server
    Running,
    /// `internal_apply_domain_migration(target)` inside a write transaction, commit (what the unit tests do)
    InTxn,
    /// `domain_raise(target)` then commit (the admin task raises to the maximum; here to the target)
    Raise,
}

#[derive(Clone, Debug)]
struct Case {
    ops: Vec<Op>,
    path: PathKind,
    /// first try `DOMAIN_TGT_NEXT_LEVEL` in one jump (must be refused, database untouched)
    jump_first: bool,
    /// restart between the population and the upgrade / between the upgrade and the re-runs
    restart_between: bool,
}

fn path_name(p: PathKind) -> &'static str {
    match p {
        PathKind::Restart => "restart",
        PathKind::Running => "running",
        PathKind::InTxn => "intxn",
        PathKind::Raise => "raise",
    }
}

fn path_parse(s: &str) -> Option<PathKind> {
    Some(match s {
        "restart" => PathKind::Restart,
        "running" => PathKind::Running,
        "intxn" => PathKind::InTxn,
        "raise" => PathKind::Raise,
        _ => return None,
    })
}

fn gen_case(r: &mut Rng, idx: u64, budget: u64) -> Case {
    let len = r.range(10, 26) as usize;
    let mut ops = vec![];
    let mut made = 0u64;
    // what the generator believes exists (mostly-valid ops; a refused op is still a legal history)
    let mut live: Vec<(u64, char)> = vec![];
    for _ in 0..len {
        let roll = r.below(100);
        let any = |r: &mut Rng, live: &[(u64, char)], made: u64| if live.is_empty() || r.chance(1, 10) { r.range(1, made.max(1)) } else { r.pick(live).0 };
        let group = |r: &mut Rng, live: &[(u64, char)], made: u64| {
            let gs: Vec<u64> = live.iter().filter(|(_, k)| *k == 'g').map(|(i, _)| *i).collect();
            if gs.is_empty() || r.chance(1, 10) { r.range(1, made.max(1)) } else { *r.pick(&gs) }
        };
        let op = if made < 3 || roll < 30 {
            made += 1;
            let (op, k) = match r.below(8) {
                0 | 1 | 2 => (Op::Person(made, r.next() % 100_000), 'p'),
                3 | 4 => (Op::Group(made, r.next() % 100_000), 'g'),
                5 => (Op::Svc(made, r.next() % 100_000), 's'),
                6 => (Op::Oauth2(made, r.next() % 100_000), 'o'),
                _ => {
                    if r.chance(1, 2) {
                        (Op::SchemaAttr(made), 'a')
                    } else {
                        (Op::SchemaClass(made), 'c')
                    }
                }
            };
            live.push((made, k));
            op
        } else if roll < 40 {
            Op::Modify(any(r, &live, made), r.next() % 100_000)
        } else if roll < 47 {
            let i = any(r, &live, made);
            live.retain(|(j, _)| *j != i);
            Op::Delete(i)
        } else if roll < 60 {
            Op::BAdd(r.below(BGROUPS.len() as u64), any(r, &live, made))
        } else if roll < 67 {
            Op::BPurge(r.below(BGROUPS.len() as u64))
        } else if roll < 72 {
            Op::BNest(r.below(BGROUPS.len() as u64), group(r, &live, made))
        } else if roll < 77 {
            Op::BCredType(r.below(4))
        } else if roll < 79 {
            Op::BCredTypePurge
        } else if roll < 83 {
            Op::BPolicy(r.range(1, 9))
        } else if roll < 88 {
            Op::BDesc(r.below(BGROUPS.len() as u64), r.next() % 1000)
        } else if roll < 94 {
            Op::BAcp(r.below(3), any(r, &live, made))
        } else if roll < 97 {
            Op::BAdminPw(r.next() % 1000)
        } else {
            Op::BDomain(r.next() % 1000)
        };
        ops.push(op);
    }
    // one entry per kind that uses every optional attribute the previous level's schema allows
    for k in 0..4 {
        ops.push(Op::Full(k));
    }
    // the name of the one entry only the target level defines: a boundary the generator visits rarely
    // (and often when a failing input is being searched for)
    if (budget > 1 && r.chance(1, 6)) || (budget == 1 && idx % 23 == 11) {
        ops.push(Op::Clash);
    }
    let path = *r.pick(&[PathKind::Restart, PathKind::Restart, PathKind::Running, PathKind::InTxn, PathKind::Raise]);
    Case { ops, path, jump_first: r.chance(1, 3), restart_between: r.chance(1, 2) }
}

// ------------------------------------------------------------------------------------------------
// entries
// ------------------------------------------------------------------------------------------------

fn person_entry(i: u64, salt: u64, ct: Duration) -> EntryNewT {
    let mut r = Rng::new(salt ^ 0x9e3779b97f4a7c15);
    let name = format!("c48p{i}");
    let mut e: EntryNewT = Entry::new();
    e.add_ava(Attribute::Class, EntryClass::Object.to_value());
    e.add_ava(Attribute::Class, EntryClass::Account.to_value());
    e.add_ava(Attribute::Class, EntryClass::Person.to_value());
    e.add_ava(Attribute::Name, Value::new_iname(&name));
    e.add_ava(Attribute::DisplayName, Value::new_utf8s(&format!("Person {i} délta 日本 \"q\"")));
    e.add_ava(Attribute::Uuid, Value::Uuid(u(i)));
    e.add_ava(Attribute::Mail, Value::EmailAddress(format!("{name}@example.com"), true));
    if r.chance(1, 2) {
        e.add_ava(Attribute::Mail, Value::EmailAddress(format!("{name}.alt@example.com"), false));
    }
    let (_k, s, _clear) = *r.pick(PW_VECTORS);
    if let Ok(pw) = Password::try_from(s) {
        let mut c = hk12::cred_from_password(pw, false, OffsetDateTime::UNIX_EPOCH + ct);
        if r.chance(1, 2) {
            c = hk12::cred_append_totp(&c, "totp".into(), Totp::new(r.bytes(20), 30, TotpAlgo::Sha256, TotpDigits::Six), OffsetDateTime::UNIX_EPOCH + ct);
        }
        e.add_ava(Attribute::PrimaryCredential, Value::Cred("primary".into(), c));
    }
    if r.chance(1, 2) {
        if let Ok(k) = Value::new_sshkey_str("k1", r.pick(SSH_KEYS)) {
            e.add_ava(Attribute::SshPublicKey, k);
        }
    }
    if r.chance(2, 3) {
        let sess = Session {
            label: format!("sess{i}"),
            state: match r.below(3) {
                0 => SessionState::NeverExpires,
                1 => SessionState::ExpiresAt(OffsetDateTime::UNIX_EPOCH + ct + Duration::new(3600, 5)),
                _ => SessionState::RevokedAt(Cid { ts: ct, s_uuid: u(999) }),
            },
            issued_at: OffsetDateTime::UNIX_EPOCH + ct,
            issued_by: IdentityId::User(u(i)),
            cred_id: u(5000 + i),
            scope: *r.pick(&[SessionScope::ReadOnly, SessionScope::ReadWrite, SessionScope::PrivilegeCapable]),
            type_: *r.pick(&[AuthType::Password, AuthType::PasswordTotp, AuthType::Passkey]),
            ext_metadata: SessionExtMetadata::None,
        };
        e.add_ava(Attribute::UserAuthTokenSession, Value::Session(u(7000 + i), sess));
    }
    if r.chance(1, 3) {
        e.add_ava(Attribute::AccountExpire, Value::new_datetime_epoch(ct + Duration::from_secs(86400 * 400)));
    }
    e
}

/// Members of a new group: entries created earlier (nesting included) and builtin accounts / groups.
fn group_entry(i: u64, salt: u64, made: &[u64]) -> EntryNewT {
    let mut r = Rng::new(salt ^ 0x51ed270b);
    let mut g: EntryNewT = Entry::new();
    g.add_ava(Attribute::Class, EntryClass::Object.to_value());
    g.add_ava(Attribute::Class, EntryClass::Group.to_value());
    g.add_ava(Attribute::Name, Value::new_iname(&format!("c48g{i}")));
    g.add_ava(Attribute::Uuid, Value::Uuid(u(i)));
    g.add_ava(Attribute::Description, Value::new_utf8s("group description ünï"));
    for _ in 0..r.below(4) {
        if !made.is_empty() && r.chance(3, 4) {
            g.add_ava(Attribute::Member, Value::Refer(u(*r.pick(made))));
        } else {
            g.add_ava(Attribute::Member, Value::Refer(*r.pick(&[UUID_IDM_ADMIN, UUID_ADMIN, UUID_IDM_ADMINS, UUID_ANONYMOUS])));
        }
    }
    g
}

fn oauth2_entry(i: u64, salt: u64, groups: &[u64]) -> EntryNewT {
    let mut r = Rng::new(salt ^ 0x0a0a7);
    let name = format!("c48o{i}");
    let mut e: EntryNewT = Entry::new();
    e.add_ava(Attribute::Class, EntryClass::Object.to_value());
    e.add_ava(Attribute::Class, EntryClass::Account.to_value());
    e.add_ava(Attribute::Class, EntryClass::OAuth2ResourceServer.to_value());
    e.add_ava(Attribute::Class, EntryClass::OAuth2ResourceServerPublic.to_value());
    e.add_ava(Attribute::Name, Value::new_iname(&name));
    e.add_ava(Attribute::DisplayName, Value::new_utf8s(&format!("client {i}")));
    e.add_ava(Attribute::Uuid, Value::Uuid(u(i)));
    if let Some(v) = Value::new_url_s(&format!("https://{name}.example.com/landing?x={salt}")) {
        e.add_ava(Attribute::OAuth2RsOriginLanding, v);
    }
    let gid = if !groups.is_empty() && r.chance(2, 3) { u(*r.pick(groups)) } else { UUID_IDM_ALL_PERSONS };
    let scopes: BTreeSet<String> = ["openid", "email", "groups"].iter().take(1 + r.below(3) as usize).map(|s| s.to_string()).collect();
    if let Some(v) = Value::new_oauthscopemap(gid, scopes) {
        e.add_ava(Attribute::OAuth2RsScopeMap, v);
    }
    if r.chance(1, 2) {
        e.add_ava(Attribute::OAuth2RsClaimMap, Value::OauthClaimValue("team".into(), gid, ["blue".to_string(), "green".to_string()].into_iter().collect()));
    }
    e
}

fn svc_entry(i: u64, salt: u64, ct: Duration) -> EntryNewT {
    let mut r = Rng::new(salt ^ 0x7f4a7c15);
    let mut s: EntryNewT = Entry::new();
    s.add_ava(Attribute::Class, EntryClass::Object.to_value());
    s.add_ava(Attribute::Class, EntryClass::Account.to_value());
    s.add_ava(Attribute::Class, EntryClass::ServiceAccount.to_value());
    s.add_ava(Attribute::Name, Value::new_iname(&format!("c48s{i}")));
    s.add_ava(Attribute::DisplayName, Value::new_utf8s("svc"));
    s.add_ava(Attribute::Uuid, Value::Uuid(u(i)));
    s.add_ava(
        Attribute::ApiTokenSession,
        Value::ApiToken(
            u(8000 + i),
            ApiToken {
                label: "tok".into(),
                expiry: if r.chance(1, 2) { Some(OffsetDateTime::UNIX_EPOCH + ct + Duration::new(86400, 123)) } else { None },
                issued_at: OffsetDateTime::UNIX_EPOCH + ct,
                issued_by: IdentityId::User(u(i)),
                scope: *r.pick(&[ApiTokenScope::ReadOnly, ApiTokenScope::ReadWrite, ApiTokenScope::Synchronise]),
            },
        ),
    );
    s
}

fn schema_attr_entry(i: u64) -> EntryNewT {
    let mut e: EntryNewT = Entry::new();
    e.add_ava(Attribute::Class, EntryClass::Object.to_value());
    e.add_ava(Attribute::Class, EntryClass::AttributeType.to_value());
    e.add_ava(Attribute::Uuid, Value::Uuid(u(i)));
    e.add_ava(Attribute::AttributeName, Value::new_iutf8(&format!("c48attr{i}")));
    e.add_ava(Attribute::Description, Value::new_utf8s("custom attribute"));
    e.add_ava(Attribute::MultiValue, Value::new_bool(i % 2 == 0));
    e.add_ava(Attribute::Unique, Value::new_bool(false));
    if let Some(v) = Value::new_syntaxs("UTF8STRING") {
        e.add_ava(Attribute::Syntax, v);
    }
    e
}

fn schema_class_entry(i: u64) -> EntryNewT {
    let mut e: EntryNewT = Entry::new();
    e.add_ava(Attribute::Class, EntryClass::Object.to_value());
    e.add_ava(Attribute::Class, EntryClass::ClassType.to_value());
    e.add_ava(Attribute::Uuid, Value::Uuid(u(i)));
    e.add_ava(Attribute::ClassName, Value::new_iutf8(&format!("c48class{i}")));
    e.add_ava(Attribute::Description, Value::new_utf8s("custom class"));
    e.add_ava(Attribute::May, Value::new_iutf8("description"));
    e
}

// ------------------------------------------------------------------------------------------------
// observation
// ------------------------------------------------------------------------------------------------

#[derive(Clone, Debug, PartialEq)]
struct Ent {
    /// 0 live, 1 recycled, 2 tombstone
    state: u8,
    /// attribute name -> values in proto-string form
    vals: BTreeMap<String, BTreeSet<String>>,
    /// attribute name -> the JSON the backend stores for the value set
    raw: BTreeMap<String, String>,
}

type Snap = BTreeMap<Uuid, Ent>;

fn guard<T>(f: impl FnOnce() -> T + std::panic::UnwindSafe) -> Option<T> {
    std::panic::catch_unwind(f).ok()
}

fn snapshot(rt: &tokio::runtime::Runtime, qs: &QueryServer) -> Result<Snap, String> {
    let mut r = rt.block_on(qs.read()).map_err(|e| format!("read:{e:?}"))?;
    let all = r.internal_search(Filter::new(FC::Pres(Attribute::Class))).map_err(|e| format!("search-all:{e:?}"))?;
    let mut out = Snap::new();
    for e in all {
        let cls: BTreeSet<String> = e.get_ava_set(Attribute::Class).map(|v| v.to_proto_string_clone_iter().collect()).unwrap_or_default();
        let state = if cls.contains("tombstone") {
            2
        } else if cls.contains("recycled") {
            1
        } else {
            0
        };
        let mut vals = BTreeMap::new();
        let mut raw = BTreeMap::new();
        for (a, vs) in e.get_ava_iter() {
            vals.insert(a.as_str().to_string(), vs.to_proto_string_clone_iter().collect());
            raw.insert(a.as_str().to_string(), hk12::vs_to_db_json(vs).unwrap_or_else(|e| format!("!{e}")));
        }
        out.insert(e.get_uuid(), Ent { state, vals, raw });
    }
    Ok(out)
}

/// Attributes the plugins derive from other stored data (not user-set): membership closure (C17), dynamic
/// members (C18), spn (C22), the change id of the last write.
const DERIVED: &[&str] = &["memberof", "directmemberof", "dynmember", "spn", "last_modified_cid"];

/// Attributes of the domain entry the migration DRIVER writes (level, patch level, taint), not the upsert.
const DRIVER_ATTRS: &[&str] = &["version", "patch_level", "domain_development_taint"];

fn is_derived(a: &str) -> bool {
    DERIVED.contains(&a)
}

fn index_dump(be: &Backend) -> Result<Vec<(String, Vec<(String, Vec<u64>)>)>, String> {
    let mut t = be.read().map_err(|e| format!("be.read:{e:?}"))?;
    let mut d = hk01::dump_indexes(&mut t).map_err(|e| format!("dump_indexes:{e:?}"))?;
    d.sort();
    for (_, rows) in d.iter_mut() {
        rows.retain(|(_, ids)| !ids.is_empty());
        rows.sort();
    }
    Ok(d)
}

// ------------------------------------------------------------------------------------------------
// the run
// ------------------------------------------------------------------------------------------------

struct Ctx {
    rt: tokio::runtime::Runtime,
    drv: Option<Driver>,
    rep: Report,
    dir: PathBuf,
    model_fails: u64,
    oracle_failed: bool,
    counter: u64,
    /// special attribute ids of the model (`attrs` request), other attributes are numbered from 100
    attr_ids: BTreeMap<String, u64>,
    val_ids: BTreeMap<String, u64>,
    explore: bool,
}

fn clip(s: &str) -> String {
    if s.len() > 900 {
        let mut e = 900;
        while !s.is_char_boundary(e) {
            e -= 1;
        }
        format!("{}…", &s[..e])
    } else {
        s.to_string()
    }
}

impl Ctx {
    fn room(&mut self, class: &str) -> bool {
        let k = format!("failures:{class}");
        self.rep.count(&k);
        self.rep.histogram.get(&k).cloned().unwrap_or(0) <= 2
    }
    fn oracle_fail(&mut self, class: &str, case: &Case, detail: J, expected: String, observed: String) {
        self.oracle_failed = true;
        if self.room(class) {
            self.rep.fail(Failure {
                kind: "impl-vs-oracle".into(),
                class: class.into(),
                input: case_json(case, detail),
                expected: clip(&expected),
                observed: clip(&observed),
            });
        }
    }
    fn model_fail(&mut self, class: &str, case: &Case, detail: J, expected: String, observed: String) {
        self.model_fails += 1;
        if self.model_fails <= 4 && self.room(class) {
            self.rep.fail(Failure {
                kind: "impl-vs-model".into(),
                class: class.into(),
                input: case_json(case, detail),
                expected: clip(&expected),
                observed: clip(&observed),
            });
        }
    }
    fn ask(&mut self, line: &str) -> Option<String> {
        if self.model_fails > 4 {
            return None;
        }
        self.drv.as_mut().map(|d| d.ask(line))
    }
    fn fresh_path(&mut self, tag: &str) -> PathBuf {
        self.counter += 1;
        self.dir.join(format!("{tag}{}.db", self.counter))
    }
    fn attr_id(&mut self, variant: &str) -> u64 {
        let n = 100 + self.attr_ids.len() as u64;
        *self.attr_ids.entry(variant.to_string()).or_insert(n)
    }
    fn val_id(&mut self, attr: &str, v: &str) -> u64 {
        let n = 1 + self.val_ids.len() as u64;
        *self.val_ids.entry(format!("{attr}\u{1}{v}")).or_insert(n)
    }
}

fn case_json(case: &Case, detail: J) -> J {
    json!({
        "ops": case.ops.iter().map(|o| o.show()).collect::<Vec<_>>(),
        "path": path_name(case.path),
        "jump_first": case.jump_first,
        "restart_between": case.restart_between,
        "detail": detail,
    })
}

fn case_from_json(j: &J) -> Option<Case> {
    let ops = j["ops"].as_array()?.iter().filter_map(|x| x.as_str().and_then(Op::parse)).collect();
    Some(Case {
        ops,
        path: path_parse(j["path"].as_str()?)?,
        jump_first: j["jump_first"].as_bool().unwrap_or(false),
        restart_between: j["restart_between"].as_bool().unwrap_or(false),
    })
}

/// What the history knows about the entries it created.
#[derive(Default)]
struct Made {
    /// index -> kind ('p','g','s','o','a','c')
    kind: BTreeMap<u64, char>,
    deleted: BTreeSet<u64>,
    /// values the history added to multi-valued attributes of builtin entries: (entry, attribute, proto value)
    builtin_added: BTreeSet<(Uuid, String, String)>,
    /// the administrator changed the minimum credential type of idm_all_persons (ignore list of the upsert)
    cred_type_set: bool,
}

fn apply_op(ctx: &mut Ctx, srv: &Srv, made: &mut Made, op: &Op, ct: Duration) -> Result<(), String> {
    let e = |x: OperationError| format!("{x:?}");
    if let Op::Full(k) = op {
        return apply_full(ctx, srv, made, *k % 4, ct);
    }
    let mut w = ctx.rt.block_on(srv.qs.write(ct)).map_err(e)?;
    let live: Vec<u64> = made.kind.keys().filter(|i| !made.deleted.contains(i)).cloned().collect();
    let groups: Vec<u64> = made.kind.iter().filter(|(i, k)| **k == 'g' && !made.deleted.contains(i)).map(|(i, _)| *i).collect();
    let mut note: Option<(u64, char)> = None;
    let mut added: Option<(Uuid, String, String)> = None;
    match op {
        Op::Person(i, s) => {
            w.internal_create(vec![person_entry(*i, *s, ct)]).map_err(e)?;
            note = Some((*i, 'p'));
        }
        Op::Group(i, s) => {
            w.internal_create(vec![group_entry(*i, *s, &live)]).map_err(e)?;
            note = Some((*i, 'g'));
        }
        Op::Svc(i, s) => {
            w.internal_create(vec![svc_entry(*i, *s, ct)]).map_err(e)?;
            note = Some((*i, 's'));
        }
        Op::Oauth2(i, s) => {
            w.internal_create(vec![oauth2_entry(*i, *s, &groups)]).map_err(e)?;
            note = Some((*i, 'o'));
        }
        Op::SchemaAttr(i) => {
            w.internal_create(vec![schema_attr_entry(*i)]).map_err(e)?;
            note = Some((*i, 'a'));
        }
        Op::SchemaClass(i) => {
            w.internal_create(vec![schema_class_entry(*i)]).map_err(e)?;
            note = Some((*i, 'c'));
        }
        Op::Modify(i, s) => {
            let kind = made.kind.get(i).cloned().unwrap_or('p');
            let mut r = Rng::new(*s);
            let m = match kind {
                'p' => Modify::Present(Attribute::LegalName, Value::new_utf8s(&format!("Legal {i} {s}"))),
                'g' if !live.is_empty() => Modify::Present(Attribute::Member, Value::Refer(u(*r.pick(&live)))),
                'o' | 's' => Modify::Present(Attribute::DisplayName, Value::new_utf8s(&format!("display {i} {s}"))),
                _ => Modify::Present(Attribute::Description, Value::new_utf8s(&format!("desc {s}"))),
            };
            let ml = match m {
                Modify::Present(a, v) if a != Attribute::Member => ModifyList::new_purge_and_set(a, v),
                other => ModifyList::new_list(vec![other]),
            };
            w.internal_modify_uuid(u(*i), &ml).map_err(e)?;
        }
        Op::Delete(i) => {
            w.internal_delete_uuid(u(*i)).map_err(e)?;
            made.deleted.insert(*i);
        }
        Op::BAdd(g, i) => {
            let gu = BGROUPS[*g as usize % BGROUPS.len()];
            w.internal_modify_uuid(gu, &ModifyList::new_list(vec![Modify::Present(Attribute::Member, Value::Refer(u(*i)))])).map_err(e)?;
            added = Some((gu, "member".into(), u(*i).to_string()));
        }
        Op::BPurge(g) => {
            let gu = BGROUPS[*g as usize % BGROUPS.len()];
            w.internal_modify_uuid(gu, &ModifyList::new_list(vec![Modify::Purged(Attribute::Member)])).map_err(e)?;
            made.builtin_added.retain(|(x, a, _)| !(*x == gu && a == "member"));
        }
        Op::BNest(g, i) => {
            let gu = BGROUPS[*g as usize % BGROUPS.len()];
            w.internal_modify_uuid(u(*i), &ModifyList::new_list(vec![Modify::Present(Attribute::Member, Value::Refer(gu))])).map_err(e)?;
        }
        Op::BCredType(k) => {
            let ctp = [CredentialType::Any, CredentialType::Mfa, CredentialType::Passkey, CredentialType::AttestedPasskey][*k as usize % 4];
            w.internal_modify_uuid(UUID_IDM_ALL_PERSONS, &ModifyList::new_purge_and_set(Attribute::CredentialTypeMinimum, Value::CredentialType(ctp))).map_err(e)?;
            made.cred_type_set = true;
        }
        Op::BCredTypePurge => {
            w.internal_modify_uuid(UUID_IDM_ALL_PERSONS, &ModifyList::new_list(vec![Modify::Purged(Attribute::CredentialTypeMinimum)])).map_err(e)?;
        }
        Op::BPolicy(k) => {
            w.internal_modify_uuid(UUID_IDM_ALL_PERSONS, &ModifyList::new_purge_and_set(Attribute::AuthSessionExpiry, Value::Uint32(3600 * *k as u32))).map_err(e)?;
        }
        Op::BDesc(g, s) => {
            let gu = BGROUPS[*g as usize % BGROUPS.len()];
            w.internal_modify_uuid(gu, &ModifyList::new_purge_and_set(Attribute::Description, Value::new_utf8s(&format!("changed description {s}")))).map_err(e)?;
        }
        Op::BAcp(k, i) => {
            let m = match k % 3 {
                0 => Modify::Present(Attribute::AcpReceiverGroup, Value::Refer(u(*i))),
                1 => Modify::Removed(Attribute::AcpSearchAttr, PartialValue::new_iutf8("name")),
                _ => Modify::Present(Attribute::AcpSearchAttr, Value::new_iutf8("legalname")),
            };
            w.internal_modify_uuid(UUID_IDM_ACP_SELF_READ, &ModifyList::new_list(vec![m])).map_err(e)?;
            if k % 3 == 2 {
                added = Some((UUID_IDM_ACP_SELF_READ, "acp_search_attr".into(), "legalname".into()));
            }
        }
        Op::BAdminPw(s) => {
            let (_k, h, _c) = PW_VECTORS[*s as usize % PW_VECTORS.len()];
            if let Ok(pw) = Password::try_from(h) {
                let c = hk12::cred_from_password(pw, false, OffsetDateTime::UNIX_EPOCH + ct);
                w.internal_modify_uuid(UUID_IDM_ADMIN, &ModifyList::new_purge_and_set(Attribute::PrimaryCredential, Value::Cred("primary".into(), c))).map_err(e)?;
            }
        }
        Op::BDomain(s) => {
            w.internal_modify_uuid(UUID_DOMAIN_INFO, &ModifyList::new_purge_and_set(Attribute::DomainDisplayName, Value::new_utf8s(&format!("Domain {s}")))).map_err(e)?;
        }
        Op::Full(_) => {}
        Op::Clash => {
            let mut g: EntryNewT = Entry::new();
            g.add_ava(Attribute::Class, EntryClass::Object.to_value());
            g.add_ava(Attribute::Class, EntryClass::Group.to_value());
            g.add_ava(Attribute::Name, Value::new_iname("account_signup_feature"));
            g.add_ava(Attribute::Uuid, Value::Uuid(u(900)));
            w.internal_create(vec![g]).map_err(e)?;
            note = Some((900, 'g'));
        }
    }
    w.commit().map_err(e)?;
    if let Some((i, k)) = note {
        made.kind.insert(i, k);
    }
    if let Some(a) = added {
        made.builtin_added.insert(a);
    }
    Ok(())
}

// ------------------------------------------------------------------------------------------------
// the schema in force, as plain data; entries that use every optional attribute; conformance; writability
// ------------------------------------------------------------------------------------------------

#[derive(Clone, Debug, Default)]
struct SchemaD {
    /// attribute -> (syntax, multivalue, phantom)
    attrs: BTreeMap<String, (String, bool, bool)>,
    /// class -> [systemmust, must, systemmay, may, systemsupplements, supplements, systemexcludes, excludes]
    classes: BTreeMap<String, [Vec<String>; 8]>,
}

fn dump_schema(rt: &tokio::runtime::Runtime, qs: &QueryServer) -> Result<SchemaD, String> {
    let r = rt.block_on(qs.read()).map_err(|e| format!("read:{e:?}"))?;
    let s = r.get_schema();
    let mut d = SchemaD::default();
    for (n, a) in s.get_attributes().iter() {
        d.attrs.insert(n.as_str().to_string(), (format!("{:?}", a.syntax), a.multivalue, a.phantom));
    }
    for (n, c) in s.get_classes().iter() {
        let av = |l: &Vec<Attribute>| l.iter().map(|a| a.as_str().to_string()).collect::<Vec<_>>();
        let cv = |l: &Vec<AttrString>| l.iter().map(|a| a.to_string()).collect::<Vec<_>>();
        d.classes.insert(n.to_string(), [av(&c.systemmust), av(&c.must), av(&c.systemmay), av(&c.may), cv(&c.systemsupplements), cv(&c.supplements), cv(&c.systemexcludes), cv(&c.excludes)]);
    }
    Ok(d)
}

/// Independent conformance check (from the statement "every stored entry conforms to the schema in force"):
/// (entry, rule broken) for every live / recycled entry of the dump.  Tombstones and recycled conflict entries
/// are exempt; a recycled entry need not carry the required attributes.
fn conformance(s: &SchemaD, snap: &Snap) -> BTreeSet<(Uuid, String)> {
    let mut out = BTreeSet::new();
    for (uuid, e) in snap {
        if e.state == 2 {
            continue;
        }
        let Some(cls) = e.vals.get("class") else {
            out.insert((*uuid, "no-class".to_string()));
            continue;
        };
        let recycled = cls.contains("recycled");
        if cls.contains("conflict") && recycled {
            continue;
        }
        let extensible = cls.contains("extensibleobject");
        let mut defs = vec![];
        for c in cls {
            match s.classes.get(c) {
                Some(d) => defs.push(d),
                None => {
                    out.insert((*uuid, format!("unknown-class:{c}")));
                }
            }
        }
        let supp: Vec<&String> = defs.iter().flat_map(|d| d[4].iter().chain(d[5].iter())).collect();
        if !supp.is_empty() && !supp.iter().any(|x| cls.contains(*x)) {
            out.insert((*uuid, "supplements".to_string()));
        }
        for x in defs.iter().flat_map(|d| d[6].iter().chain(d[7].iter())) {
            if cls.contains(x) {
                out.insert((*uuid, format!("excludes:{x}")));
            }
        }
        if !recycled {
            for a in defs.iter().flat_map(|d| d[0].iter().chain(d[1].iter())) {
                if !e.vals.contains_key(a) {
                    out.insert((*uuid, format!("required-missing:{a}")));
                }
            }
        }
        let allowed: BTreeSet<&String> = defs.iter().flat_map(|d| d[0].iter().chain(d[1].iter()).chain(d[2].iter()).chain(d[3].iter())).collect();
        for (a, vs) in &e.vals {
            let Some((_, multi, phantom)) = s.attrs.get(a) else {
                out.insert((*uuid, format!("undefined-attribute:{a}")));
                continue;
            };
            if extensible {
                if *phantom {
                    out.insert((*uuid, format!("phantom:{a}")));
                }
            } else if !allowed.contains(a) {
                out.insert((*uuid, format!("not-allowed:{a}")));
            }
            if !*multi && vs.len() > 1 {
                out.insert((*uuid, format!("multi-on-single:{a}")));
            }
        }
    }
    out
}

/// A value of the attribute's syntax, where one can be built from plain data.
fn full_value(attr: &str, syntax: &str, k: u64, ct: Duration) -> Option<Value> {
    let odt = OffsetDateTime::UNIX_EPOCH + ct;
    Some(match syntax {
        "Utf8String" => Value::new_utf8s(&format!("full {attr} {k}")),
        "Utf8StringInsensitive" => Value::new_iutf8(&format!("full{k}")),
        "Utf8StringIname" => Value::new_iname(&format!("c48full{k}x{}", attr.len())),
        "Boolean" => Value::new_bool(true),
        "Uint32" => Value::new_uint32(3600 + k as u32),
        "Uuid" => Value::Uuid(u(960 + k)),
        "ReferenceUuid" => Value::Refer(UUID_IDM_ADMINS),
        "SecretUtf8String" => Value::new_secret_str("legacy token key material"),
        "PrivateBinary" => Value::new_privatebinary(&[0x30, 0x82, 1, 2, 3, 4, k as u8]),
        "Url" => Value::new_url_s(&format!("https://full{k}.example.com/{attr}"))?,
        "OauthScope" => Value::new_oauthscope("read")?,
        "OauthScopeMap" => Value::new_oauthscopemap(UUID_IDM_ALL_PERSONS, ["openid".to_string()].into_iter().collect())?,
        "OauthClaimMap" => Value::new_oauthclaimmap("team".into(), UUID_IDM_ALL_PERSONS, ["blue".to_string()].into_iter().collect())?,
        "EmailAddress" => Value::EmailAddress(format!("c48full{k}@example.com"), true),
        "DateTime" => Value::new_datetime_epoch(ct + Duration::from_secs(86400 * 300)),
        "SshKey" => Value::new_sshkey_str("full", SSH_KEYS[0]).ok()?,
        "CredentialType" => Value::CredentialType(CredentialType::Mfa),
        "Credential" => {
            let (_k, h, _c) = PW_VECTORS[0];
            Value::Cred("primary".into(), hk12::cred_from_password(Password::try_from(h).ok()?, false, odt))
        }
        "Session" => Value::Session(
            u(970 + k),
            Session {
                label: "full".into(),
                state: SessionState::NeverExpires,
                issued_at: odt,
                issued_by: IdentityId::User(u(950 + k)),
                cred_id: u(975 + k),
                scope: SessionScope::ReadOnly,
                type_: AuthType::Password,
                ext_metadata: SessionExtMetadata::None,
            },
        ),
        "ApiToken" => Value::ApiToken(u(980 + k), ApiToken { label: "full".into(), expiry: None, issued_at: odt, issued_by: IdentityId::User(u(950 + k)), scope: ApiTokenScope::ReadOnly }),
        _ => return None,
    })
}

const FULL_KINDS: [char; 4] = ['p', 'g', 's', 'o'];

/// Create entry `950 + k`: the kind's usual entry plus every optional attribute its classes allow in the schema
/// in force (greedy: an attribute the server refuses together with the ones already taken is left out; the
/// trial transactions are dropped without commit).
fn apply_full(ctx: &mut Ctx, srv: &Srv, made: &mut Made, k: u64, ct: Duration) -> Result<(), String> {
    let i = 950 + k;
    let kind = FULL_KINDS[k as usize];
    let mut cur = match kind {
        'p' => person_entry(i, 7, ct),
        'g' => group_entry(i, 7, &[]),
        's' => svc_entry(i, 7, ct),
        _ => oauth2_entry(i, 7, &[]),
    };
    let sd = dump_schema(&ctx.rt, &srv.qs)?;
    let cls: Vec<String> = cur.get_ava_set(Attribute::Class).map(|v| v.to_proto_string_clone_iter().collect()).unwrap_or_default();
    let mut optional: BTreeSet<String> = BTreeSet::new();
    for c in &cls {
        if let Some(d) = sd.classes.get(c) {
            optional.extend(d[2].iter().chain(d[3].iter()).cloned());
        }
    }
    for a in optional {
        if is_derived(&a) || cur.attribute_pres(Attribute::from(a.as_str())) {
            continue;
        }
        let Some((syntax, _, phantom)) = sd.attrs.get(&a).cloned() else { continue };
        let Some(v) = (if phantom { None } else { full_value(&a, &syntax, k, ct) }) else {
            ctx.rep.count(&format!("full-no-value:{kind}:{a}"));
            continue;
        };
        let mut trial = cur.clone();
        trial.add_ava(Attribute::from(a.as_str()), v);
        let ok = {
            let mut w = ctx.rt.block_on(srv.qs.write(ct)).map_err(|e| format!("{e:?}"))?;
            w.internal_create(vec![trial.clone()]).is_ok()
        };
        if ok {
            cur = trial;
            ctx.rep.count(&format!("full-attr:{kind}:{a}"));
        } else {
            ctx.rep.count(&format!("full-refused:{kind}:{a}"));
        }
    }
    let mut w = ctx.rt.block_on(srv.qs.write(ct)).map_err(|e| format!("{e:?}"))?;
    w.internal_create(vec![cur]).map_err(|e| format!("{e:?}"))?;
    w.commit().map_err(|e| format!("{e:?}"))?;
    made.kind.insert(i, kind);
    Ok(())
}

/// A harmless modification of every live user entry (display name of accounts, description of the others), in a
/// transaction that is dropped without commit: uuid -> the refusal, for the entries the server refuses to write.
fn probe_writable(rt: &tokio::runtime::Runtime, qs: &QueryServer, made: &Made, snap: &Snap, ct: Duration) -> BTreeMap<Uuid, String> {
    let mut out = BTreeMap::new();
    for (i, kind) in &made.kind {
        let uuid = u(*i);
        if snap.get(&uuid).map(|e| e.state) != Some(0) {
            continue;
        }
        let ml = match kind {
            'p' | 's' | 'o' => ModifyList::new_purge_and_set(Attribute::DisplayName, Value::new_utf8s("c48 writability probe")),
            _ => ModifyList::new_purge_and_set(Attribute::Description, Value::new_utf8s("c48 writability probe")),
        };
        let res: Result<(), OperationError> = (|| {
            let mut w = rt.block_on(qs.write(ct))?;
            w.internal_modify_uuid(uuid, &ml)
        })();
        if let Err(e) = res {
            out.insert(uuid, format!("{e:?}"));
        }
    }
    out
}

/// The definitions of the target level as plain data: (phase, uuid, attribute -> proto values, Attribute keys).
struct Def {
    phase: u8,
    uuid: Uuid,
    entry: EntryNewT,
}

fn target_defs() -> (Vec<Def>, Vec<Uuid>) {
    let (batches, dels) = hk::defs_target().expect("defs_target");
    let mut out = vec![];
    for (phase, es) in batches {
        for e in es {
            let uuid = e.get_uuid().expect("definition without uuid");
            out.push(Def { phase, uuid, entry: e });
        }
    }
    (out, dels)
}

fn previous_def_uuids() -> BTreeSet<Uuid> {
    let (batches, _) = hk::defs_previous().expect("defs_previous");
    batches.into_iter().flat_map(|(_, es)| es.into_iter().filter_map(|e| e.get_uuid())).collect()
}

/// `skip`: 0 nothing, 1 only the change id of the last write (a re-run re-asserts the definitions: same
/// values, new change id), 2 every derived attribute.
fn diff_snap(a: &Snap, b: &Snap, skip: u8) -> Vec<String> {
    let mut out = vec![];
    for (uuid, ea) in a {
        match b.get(uuid) {
            None => out.push(format!("{uuid}: missing afterwards")),
            Some(eb) => {
                if ea.state != eb.state {
                    out.push(format!("{uuid}: state {} -> {}", ea.state, eb.state));
                }
                let keys: BTreeSet<&String> = ea.raw.keys().chain(eb.raw.keys()).collect();
                for k in keys {
                    if (skip == 2 && is_derived(k)) || (skip == 1 && k == "last_modified_cid") {
                        continue;
                    }
                    if ea.raw.get(k) != eb.raw.get(k) {
                        out.push(format!("{uuid}: {k}: {:?} -> {:?}", ea.vals.get(k), eb.vals.get(k)));
                    }
                }
            }
        }
    }
    for uuid in b.keys() {
        if !a.contains_key(uuid) {
            out.push(format!("{uuid}: new entry"));
        }
    }
    out
}

// ---- the relatives' invariants, evaluated on a dump of the whole database -----------------------

/// Attributes whose values are references to other entries (uuid in proto form, possibly with a suffix).
const REF_ATTRS: &[&str] = &[
    "member",
    "memberof",
    "directmemberof",
    "dynmember",
    "acp_receiver_group",
    "acp_target_group",
    "entry_managed_by",
    "oauth2_rs_scope_map",
    "oauth2_rs_sup_scope_map",
    "oauth2_rs_claim_map",
    "refers",
];

fn ref_uuids(attr: &str, v: &str) -> Vec<Uuid> {
    // plain reference: the uuid; maps: "<uuid>: ..." or "name:<uuid>:..." — take every uuid-shaped token
    let _ = attr;
    let mut out = vec![];
    let bytes: Vec<char> = v.chars().collect();
    let mut i = 0;
    while i + 36 <= bytes.len() {
        let s: String = bytes[i..i + 36].iter().collect();
        if let Ok(x) = Uuid::parse_str(&s) {
            out.push(x);
            i += 36;
        } else {
            i += 1;
        }
    }
    out
}

/// (class, subject, description); the subject identifies the finding across two dumps
fn relatives(snap: &Snap, domain: &str) -> Vec<(String, String, String)> {
    let mut bad: Vec<(String, String, String)> = vec![];
    let live: BTreeMap<&Uuid, &Ent> = snap.iter().filter(|(_, e)| e.state == 0).collect();
    // C16: no live entry refers to something that is not a live entry
    for (uuid, e) in &live {
        for a in REF_ATTRS {
            if let Some(vs) = e.vals.get(*a) {
                for v in vs {
                    for t in ref_uuids(a, v) {
                        if !live.contains_key(&t) {
                            bad.push(("dangling-reference".into(), format!("{uuid} {a} {t}"), format!("{uuid} {a} -> {t}")));
                        }
                    }
                }
            }
        }
    }
    // C17: directmemberof / memberof = direct and transitive groups by member + dynmember
    let mut direct: BTreeMap<Uuid, BTreeSet<Uuid>> = BTreeMap::new();
    for (g, e) in &live {
        for a in ["member", "dynmember"] {
            if let Some(vs) = e.vals.get(a) {
                for v in vs {
                    if let Ok(m) = Uuid::parse_str(v) {
                        direct.entry(m).or_default().insert(**g);
                    }
                }
            }
        }
    }
    for (uuid, e) in &live {
        let d = direct.get(*uuid).cloned().unwrap_or_default();
        let mut closure: BTreeSet<Uuid> = BTreeSet::new();
        let mut todo: Vec<Uuid> = d.iter().cloned().collect();
        while let Some(g) = todo.pop() {
            if closure.insert(g) {
                if let Some(up) = direct.get(&g) {
                    todo.extend(up.iter().cloned());
                }
            }
        }
        let get = |a: &str| -> BTreeSet<Uuid> { e.vals.get(a).map(|vs| vs.iter().filter_map(|v| Uuid::parse_str(v).ok()).collect()).unwrap_or_default() };
        if get("directmemberof") != d {
            bad.push(("directmemberof-wrong".into(), uuid.to_string(), format!("{uuid}: stored {:?} expected {:?}", get("directmemberof"), d)));
        }
        if get("memberof") != closure {
            bad.push(("memberof-wrong".into(), uuid.to_string(), format!("{uuid}: stored {:?} expected {:?}", get("memberof"), closure)));
        }
    }
    // C19: names and spns of live entries are unique; C22: spn = name@domain wherever an spn is stored
    let mut names: BTreeMap<String, Uuid> = BTreeMap::new();
    let mut spns: BTreeMap<String, Uuid> = BTreeMap::new();
    for (uuid, e) in &live {
        if let Some(vs) = e.vals.get("name") {
            for v in vs {
                if let Some(o) = names.insert(v.clone(), **uuid) {
                    bad.push(("duplicate-name".into(), v.clone(), format!("{v}: {o} and {uuid}")));
                }
            }
            if let Some(sp) = e.vals.get("spn") {
                let want: BTreeSet<String> = vs.iter().map(|n| format!("{n}@{domain}")).collect();
                if *sp != want {
                    bad.push(("spn-wrong".into(), uuid.to_string(), format!("{uuid}: spn {sp:?} name {vs:?}")));
                }
            }
        }
        if let Some(vs) = e.vals.get("spn") {
            for v in vs {
                if let Some(o) = spns.insert(v.clone(), **uuid) {
                    bad.push(("duplicate-spn".into(), v.clone(), format!("{v}: {o} and {uuid}")));
                }
            }
        }
    }
    bad
}

/// Everything the property demands of an upgraded database `after`, given the dump `before`.
fn oracle(ctx: &mut Ctx, case: &Case, made: &Made, before: &Snap, after: &Snap, defs: &[Def]) {
    // (1) user-created entries keep state and user-set attributes
    for (i, kind) in &made.kind {
        let uuid = u(*i);
        let Some(b) = before.get(&uuid) else { continue };
        match after.get(&uuid) {
            None => ctx.oracle_fail("user-entry-lost", case, json!({"uuid": uuid.to_string(), "kind": kind.to_string()}), format!("entry {uuid} kept"), "missing after the upgrade".into()),
            Some(a) => {
                if a.state != b.state {
                    ctx.oracle_fail("user-entry-state-changed", case, json!({"uuid": uuid.to_string(), "kind": kind.to_string()}), format!("state {}", b.state), format!("state {}", a.state));
                }
                let keys: BTreeSet<&String> = b.raw.keys().chain(a.raw.keys()).collect();
                for k in keys {
                    if is_derived(k) {
                        continue;
                    }
                    if a.raw.get(k) != b.raw.get(k) {
                        ctx.oracle_fail(
                            "user-attribute-changed",
                            case,
                            json!({"uuid": uuid.to_string(), "kind": kind.to_string(), "attr": k}),
                            format!("{k} = {:?}", b.raw.get(k)),
                            format!("{k} = {:?}", a.raw.get(k)),
                        );
                    }
                }
            }
        }
    }
    // (2) every definition of the target level exists and carries its values
    for d in defs {
        match after.get(&d.uuid) {
            Some(a) if a.state == 0 => {
                for (attr, vs) in d.entry.get_ava_iter() {
                    if *attr == Attribute::Uuid || *attr == Attribute::MemberCreateOnce || *attr == Attribute::CredentialTypeMinimum {
                        continue;
                    }
                    let have = a.vals.get(attr.as_str()).cloned().unwrap_or_default();
                    for v in vs.to_proto_string_clone_iter() {
                        if !have.contains(&v) {
                            ctx.oracle_fail(
                                "builtin-value-missing",
                                case,
                                json!({"uuid": d.uuid.to_string(), "attr": attr.as_str(), "value": v}),
                                format!("{} carries {v}", attr.as_str()),
                                format!("{have:?}"),
                            );
                        }
                    }
                }
            }
            other => {
                let name: Vec<String> = d.entry.get_ava_set(Attribute::Name).map(|v| v.to_proto_string_clone_iter().collect()).unwrap_or_default();
                let clash = after.values().any(|e| e.state == 0 && e.vals.get("name").map(|n| name.iter().any(|x| n.contains(x))).unwrap_or(false));
                let class = if clash && !before.contains_key(&d.uuid) { "builtin-missing-user-entry-holds-its-name" } else { "builtin-entry-missing" };
                ctx.oracle_fail(class, case, json!({"uuid": d.uuid.to_string(), "name": name, "phase": d.phase}), "built-in entry exists (live)".into(), format!("{:?}", other.map(|e| e.state)));
            }
        }
    }
    // (3) values the administrator added to multi-valued attributes of builtin entries
    for (uuid, attr, v) in &made.builtin_added {
        // a member that was deleted afterwards is removed by referential integrity, not by the upgrade
        if before.get(uuid).and_then(|e| e.vals.get(attr)).map(|s| s.contains(v)) != Some(true) {
            continue;
        }
        // access control attributes listed in gen_modlist_assert are documented as re-asserted
        if attr == "acp_receiver_group" {
            continue;
        }
        if after.get(uuid).and_then(|e| e.vals.get(attr)).map(|s| s.contains(v)) != Some(true) {
            ctx.oracle_fail("builtin-user-value-lost", case, json!({"uuid": uuid.to_string(), "attr": attr, "value": v}), format!("{attr} keeps {v}"), format!("{:?}", after.get(uuid).and_then(|e| e.vals.get(attr))));
        }
    }
    // (3b) the administrator's minimum credential type (the upsert's ignore list: "if an admin has modified
    // those values then we don't stomp them")
    if made.cred_type_set {
        let get = |s: &Snap| s.get(&UUID_IDM_ALL_PERSONS).and_then(|e| e.raw.get("credential_type_minimum")).cloned();
        if get(before).is_some() && get(before) != get(after) {
            ctx.oracle_fail("builtin-ignored-attr-overwritten", case, json!({"attr": "credential_type_minimum"}), format!("{:?}", get(before)), format!("{:?}", get(after)));
        }
    }
    // (4) the relatives' invariants on the whole database
    // (an inconsistency the history had produced BEFORE the upgrade — stale membership inside a broken cycle,
    // C17's known finding — is not the upgrade's: only findings that are new count)
    let pre: BTreeSet<(String, String)> = relatives(before, "example.com").into_iter().map(|(c, k, _)| (c, k)).collect();
    if !pre.is_empty() {
        ctx.rep.count("inconsistent-before-upgrade");
    }
    for (class, key, what) in relatives(after, "example.com").into_iter().filter(|(c, k, _)| !pre.contains(&(c.clone(), k.clone()))).take(6) {
        ctx.oracle_fail(&format!("inconsistent:{class}"), case, json!({"what": what, "subject": key}), "invariant holds after the upgrade".into(), what.clone());
    }
}

fn verify_all(ctx: &mut Ctx, case: &Case, srv: &Srv, tag: &str) {
    let v = {
        let mut r = match ctx.rt.block_on(srv.qs.read()) {
            Ok(r) => r,
            Err(e) => {
                ctx.oracle_fail("read-failed", case, json!({"at": tag}), "read transaction".into(), format!("{e:?}"));
                return;
            }
        };
        hk13::qs_verify(&mut r)
    };
    if !v.is_empty() {
        ctx.oracle_fail("verify-not-empty", case, json!({"at": tag}), "verify() reports nothing".into(), format!("{v:?}"));
    }
    match hk13::be_verify(&srv.be) {
        Ok(v) if v.is_empty() => {}
        other => ctx.oracle_fail("backend-verify-not-empty", case, json!({"at": tag}), "backend verify reports nothing".into(), format!("{other:?}")),
    }
}

fn db_version(rt: &tokio::runtime::Runtime, qs: &QueryServer) -> Option<(u32, u32)> {
    let mut r = rt.block_on(qs.read()).ok()?;
    let e = r.internal_search_uuid(UUID_DOMAIN_INFO).ok()?;
    Some((e.get_ava_single_uint32(Attribute::Version)?, e.get_ava_single_uint32(Attribute::PatchLevel).unwrap_or(0)))
}

/// Encode an entry's attributes for the model: `a:v.v,a:v` with the model's attribute ids.
fn enc_attrs(ctx: &mut Ctx, names: &BTreeMap<String, String>, vals: &BTreeMap<String, BTreeSet<String>>, only: &BTreeSet<String>) -> String {
    let mut items = vec![];
    for (a, vs) in vals {
        if !only.contains(a) {
            continue;
        }
        let variant = names.get(a).cloned().unwrap_or_else(|| a.clone());
        let aid = ctx.attr_id(&variant);
        let ids: Vec<String> = vs.iter().map(|v| ctx.val_id(a, v).to_string()).collect();
        items.push(format!("{aid}:{}", ids.join(".")));
    }
    if items.is_empty() {
        "-".into()
    } else {
        items.join(",")
    }
}

/// Model correspondence of the upsert: for every definition, model(before, definition) = after.
fn correspond(ctx: &mut Ctx, case: &Case, srv: &Srv, before: &Snap, after: &Snap, defs: &[Def]) {
    if ctx.drv.is_none() {
        return;
    }
    let Ok(w) = ctx.rt.block_on(srv.qs.write(Duration::from_secs(2_000_000_000))) else { return };
    // several definitions of one uuid apply in order: thread the model's own result through
    let mut cur: BTreeMap<Uuid, Option<BTreeMap<String, BTreeSet<String>>>> = BTreeMap::new();
    for d in defs {
        let mut dvals: BTreeMap<String, BTreeSet<String>> = BTreeMap::new();
        let mut names: BTreeMap<String, String> = BTreeMap::new();
        let mut order: Vec<String> = vec![];
        let mut multi: Vec<String> = vec![];
        for (attr, vs) in d.entry.get_ava_iter() {
            let a = attr.as_str().to_string();
            names.insert(a.clone(), format!("{attr:?}"));
            dvals.insert(a.clone(), vs.to_proto_string_clone_iter().collect());
            order.push(a.clone());
            let aid = ctx.attr_id(&format!("{attr:?}"));
            match hk::is_multivalue(&w, attr) {
                Ok(b) => multi.push(format!("{aid}={}", if b { 1 } else { 0 })),
                Err(_) => multi.push(format!("{aid}=x")),
            }
        }
        let pre = cur.get(&d.uuid).cloned().unwrap_or_else(|| before.get(&d.uuid).filter(|e| e.state == 0).map(|e| e.vals.clone()));
        let post = after.get(&d.uuid).filter(|e| e.state == 0).map(|e| e.vals.clone());
        // the attribute universe of this comparison: everything named by either side, minus derived ones
        let mut uni: BTreeSet<String> = dvals.keys().cloned().collect();
        if let Some(p) = &pre {
            uni.extend(p.keys().cloned());
        }
        uni.retain(|a| !is_derived(a) && !(d.uuid == UUID_DOMAIN_INFO && DRIVER_ATTRS.contains(&a.as_str())));
        for a in uni.iter() {
            names.entry(a.clone()).or_insert_with(|| format!("{:?}", Attribute::from(a.as_str())));
        }
        let pre_s = match &pre {
            Some(p) => enc_attrs(ctx, &names, p, &uni),
            None => "absent".into(),
        };
        // the definition keeps its own (BTreeMap) attribute order
        let mut def_items = vec![];
        for a in &order {
            let aid = ctx.attr_id(&names[a]);
            let ids: Vec<String> = dvals[a].iter().map(|v| ctx.val_id(a, v).to_string()).collect();
            def_items.push(format!("{aid}:{}", ids.join(".")));
        }
        let line = format!("upsert {} | {} | {}", multi.join(","), pre_s, def_items.join(","));
        let Some(reply) = ctx.ask(&line) else { return };
        // expected reply: "create <attrs>" / "modify <attrs>" with attrs sorted by id, values sorted
        let want_kind = if pre.is_some() { "modify" } else { "create" };
        let observed = match &post {
            Some(p) => {
                let mut cmp_uni = uni.clone();
                if pre.is_none() {
                    // a created entry also gets plugin-generated attributes; compare the defined ones
                    cmp_uni = dvals.keys().filter(|a| !is_derived(a)).cloned().collect();
                    cmp_uni.remove("member_create_once");
                    cmp_uni.insert("member".into());
                    names.entry("member".into()).or_insert_with(|| "Member".into());
                }
                let mut items: Vec<(u64, Vec<u64>)> = vec![];
                for (a, vs) in p {
                    if !cmp_uni.contains(a) {
                        continue;
                    }
                    let aid = ctx.attr_id(&names[a]);
                    // the base plugin marks every entry created in the reserved uuid range with class `builtin`
                    let mut ids: Vec<u64> = vs.iter().filter(|v| !(pre.is_none() && a == "class" && v.as_str() == "builtin")).map(|v| ctx.val_id(a, v)).collect();
                    ids.sort();
                    items.push((aid, ids));
                }
                items.sort();
                let s: Vec<String> = items.iter().map(|(a, v)| format!("{a}:{}", v.iter().map(|x| x.to_string()).collect::<Vec<_>>().join("."))).collect();
                format!("{want_kind} {}", if s.is_empty() { "-".to_string() } else { s.join(",") })
            }
            None => "missing".into(),
        };
        ctx.rep.count(&format!("upsert-{want_kind}"));
        if reply != observed {
            ctx.model_fail("upsert-differs", case, json!({"uuid": d.uuid.to_string(), "line": clip(&line)}), reply.clone(), observed.clone());
        }
        // thread the real result
        cur.insert(d.uuid, post);
    }
}

/// `gen_modlist_assert` of the real code against the model's list, for a sample of the definitions.
fn correspond_modlist(ctx: &mut Ctx, case: &Case, srv: &Srv, defs: &[Def], r: &mut Rng) {
    if ctx.drv.is_none() || defs.is_empty() {
        return;
    }
    let Ok(w) = ctx.rt.block_on(srv.qs.write(Duration::from_secs(2_000_000_001))) else { return };
    for _ in 0..12 {
        let d = r.pick(defs);
        let real = match hk::gen_modlist_assert(&w, &d.entry) {
            Ok(m) => m,
            Err(e) => {
                ctx.rep.count("modlist-err");
                let _ = e;
                vec![(true, Attribute::Uuid, Some("!err".to_string()))]
            }
        };
        let mut multi = vec![];
        let mut def_items = vec![];
        for (attr, vs) in d.entry.get_ava_iter() {
            let aid = ctx.attr_id(&format!("{attr:?}"));
            match hk::is_multivalue(&w, attr) {
                Ok(b) => multi.push(format!("{aid}={}", if b { 1 } else { 0 })),
                Err(_) => multi.push(format!("{aid}=x")),
            }
            let ids: Vec<String> = vs.to_proto_string_clone_iter().map(|v| ctx.val_id(attr.as_str(), &v).to_string()).collect();
            def_items.push(format!("{aid}:{}", ids.join(".")));
        }
        let line = format!("modlist {} | {}", multi.join(","), def_items.join(","));
        let Some(reply) = ctx.ask(&line) else { return };
        let obs: Vec<String> = real
            .iter()
            .map(|(p, a, v)| {
                let aid = ctx.attr_id(&format!("{a:?}"));
                match (p, v) {
                    (true, _) => format!("P{aid}"),
                    (false, Some(v)) => format!("A{aid}:{}", ctx.val_id(a.as_str(), v)),
                    (false, None) => format!("A{aid}:?"),
                }
            })
            .collect();
        let obs = if real.first().map(|x| x.2.as_deref() == Some("!err")).unwrap_or(false) {
            "err:schema".to_string()
        } else if obs.is_empty() {
            "-".to_string()
        } else {
            obs.join(" ")
        };
        ctx.rep.count("modlist");
        if reply != obs {
            ctx.model_fail("modlist-differs", case, json!({"uuid": d.uuid.to_string(), "line": clip(&line)}), reply, obs);
        }
    }
}

/// One upgrade along `kind`; `srv` is taken out while the server is restarted.
fn upgrade_step(rt: &tokio::runtime::Runtime, srv: &mut Option<Srv>, path: &Path, ct: Duration, prev: u32, tgt: u32, kind: PathKind) -> Result<Result<(), OperationError>, String> {
    Ok(match kind {
        PathKind::Restart => {
            drop(srv.take());
            match start(rt, path, ct, tgt) {
                Ok(s) => {
                    *srv = Some(s);
                    Ok(())
                }
                Err(e) => {
                    // reopen at the previous level so that the failure can be described
                    *srv = Some(start(rt, path, ct, prev).map_err(|e| format!("reopen after failed upgrade: {e:?}"))?);
                    Err(e)
                }
            }
        }
        PathKind::Running => {
            let s = srv.as_ref().ok_or("no server")?;
            rt.block_on(s.qs.initialise_helper(ct, tgt))
        }
        PathKind::InTxn => {
            let s = srv.as_ref().ok_or("no server")?;
            (|| {
                let mut w = rt.block_on(s.qs.write(ct))?;
                hk::apply_domain_migration(&mut w, tgt)?;
                w.commit()
            })()
        }
        PathKind::Raise => {
            let s = srv.as_ref().ok_or("no server")?;
            (|| {
                let mut w = rt.block_on(s.qs.write(ct))?;
                w.domain_raise(tgt)?;
                w.commit()
            })()
        }
    })
}

/// `run_case_inner` with every panic of the implementation (a debug build asserts where a release build logs)
/// turned into an oracle failure of the case.
fn run_case(ctx: &mut Ctx, case: &Case, defs: &[Def], r: &mut Rng) -> Result<String, String> {
    let prev_hook = std::panic::take_hook();
    std::panic::set_hook(Box::new(|_| {}));
    let caught = std::panic::catch_unwind(std::panic::AssertUnwindSafe(|| run_case_inner(ctx, case, defs, r)));
    std::panic::set_hook(prev_hook);
    match caught {
        Ok(r) => r,
        Err(p) => {
            let msg = p.downcast_ref::<&str>().map(|s| s.to_string()).or_else(|| p.downcast_ref::<String>().cloned()).unwrap_or_default();
            let clash = case.ops.contains(&Op::Clash);
            ctx.rep.count("case-panicked");
            ctx.oracle_fail(
                if clash { RECOGNISED } else { "upgrade-panicked" },
                case,
                json!({"panic": msg, "at": "outside the upgrade step"}),
                "every start / migration step returns".into(),
                format!("panic: {msg}"),
            );
            Ok("upgrade-failed".into())
        }
    }
}

fn run_case_inner(ctx: &mut Ctx, case: &Case, defs: &[Def], r: &mut Rng) -> Result<String, String> {
    let prev = DOMAIN_PREVIOUS_TGT_LEVEL;
    let tgt = DOMAIN_TGT_LEVEL;
    let path = ctx.fresh_path("u");
    rm_db(&path);
    let mut ct = Duration::from_secs(1_700_000_000);
    let mut srv = start(&ctx.rt, &path, ct, prev).map_err(|e| format!("start at previous level: {e:?}"))?;
    let mut made = Made::default();
    let mut applied = 0;
    for op in &case.ops {
        ct += Duration::from_secs(3);
        match apply_op(ctx, &srv, &mut made, op, ct) {
            Ok(()) => {
                applied += 1;
                ctx.rep.count(&format!("op:{}", op.show().split(' ').next().unwrap_or("")));
            }
            Err(e) => {
                let short: String = e.chars().take(48).collect();
                ctx.rep.count(&format!("op-refused:{}:{short}", op.show().split(' ').next().unwrap_or("")))
            }
        }
    }
    if case.restart_between {
        drop(srv);
        ct += Duration::from_secs(5);
        srv = start(&ctx.rt, &path, ct, prev).map_err(|e| format!("restart at previous level: {e:?}"))?;
        ctx.rep.count("restart-before-upgrade");
    }
    let before = snapshot(&ctx.rt, &srv.qs)?;
    let taint = before.get(&UUID_DOMAIN_INFO).and_then(|e| e.vals.get("domain_development_taint")).map(|v| v.contains("true")).unwrap_or(false);
    let taint = if taint { 1 } else { 0 };
    if db_version(&ctx.rt, &srv.qs).map(|v| v.0) != Some(prev) {
        return Err("database is not at the previous level after the population".into());
    }
    verify_all(ctx, case, &srv, "before");
    // what the entries break / which entries refuse a write BEFORE the upgrade is not the upgrade's
    let nonconf_before = conformance(&dump_schema(&ctx.rt, &srv.qs)?, &before);
    let unwritable_before = probe_writable(&ctx.rt, &srv.qs, &made, &before, ct + Duration::from_secs(1));
    if !nonconf_before.is_empty() || !unwritable_before.is_empty() {
        ctx.rep.count("nonconforming-or-unwritable-before-upgrade");
    }

    // ---- a jump past the target level is refused and changes nothing
    if case.jump_first {
        ct += Duration::from_secs(5);
        let res = ctx.rt.block_on(srv.qs.initialise_helper(ct, DOMAIN_TGT_NEXT_LEVEL));
        let code = res.as_ref().err().map(err_code).unwrap_or_else(|| "ok".into());
        ctx.rep.count(&format!("jump-next:{code}"));
        if let Some(reply) = ctx.ask(&format!("upgrade {prev} {DOMAIN_TGT_NEXT_LEVEL} {taint} {}", DOMAIN_TGT_PATCH_LEVEL)) {
            let obs = if res.is_ok() { format!("ok {DOMAIN_TGT_NEXT_LEVEL}") } else { format!("err:{code}") };
            if reply != obs {
                ctx.model_fail("jump-outcome-differs", case, json!({}), reply, obs);
            }
        }
        if res.is_ok() && DOMAIN_TGT_NEXT_LEVEL > DOMAIN_TGT_LEVEL {
            ctx.oracle_fail("level-in-development-reached", case, json!({}), "a level above the target is refused".into(), "ok".into());
        }
        // the failed start leaves the server object in an undefined phase: restart on the file
        drop(srv);
        ct += Duration::from_secs(5);
        srv = start(&ctx.rt, &path, ct, prev).map_err(|e| format!("restart after refused jump: {e:?}"))?;
        let again = snapshot(&ctx.rt, &srv.qs)?;
        let d = diff_snap(&before, &again, 0);
        if !d.is_empty() {
            ctx.oracle_fail("refused-jump-changed-database", case, json!({}), "database unchanged".into(), format!("{:?}", &d[..d.len().min(5)]));
        }
    }

    // ---- the upgrade
    ct += Duration::from_secs(5);
    // a debug build turns a failed definition batch into `debug_assert!(false)` (a release build logs it and
    // goes on with the next phase): catch the panic and report it as the upgrade's outcome
    let prev_hook = std::panic::take_hook();
    std::panic::set_hook(Box::new(|_| {}));
    let caught = std::panic::catch_unwind(std::panic::AssertUnwindSafe(|| -> Result<(Option<Srv>, Result<(), OperationError>), String> {
        let mut srv = Some(srv);
        let up = upgrade_step(&ctx.rt, &mut srv, &path, ct, prev, tgt, case.path)?;
        Ok((srv, up))
    }));
    std::panic::set_hook(prev_hook);
    ctx.rep.count(&format!("path:{}", path_name(case.path)));
    let (mut srv, up) = match caught {
        Ok(r) => {
            let (s, up) = r?;
            (s.ok_or("no server after the upgrade step")?, up)
        }
        Err(p) => {
            let msg = p.downcast_ref::<&str>().map(|s| s.to_string()).or_else(|| p.downcast_ref::<String>().cloned()).unwrap_or_default();
            let clash = made.kind.contains_key(&900);
            ctx.rep.count("upgrade-panicked");
            ctx.oracle_fail(
                if clash { RECOGNISED } else { "upgrade-panicked" },
                case,
                json!({"panic": msg}),
                "the upgrade succeeds".into(),
                format!("panic (debug_assert of a failed definition batch): {msg}"),
            );
            rm_db(&path);
            return Ok("upgrade-failed".into());
        }
    };
    let _ = &mut srv;
    if let Err(e) = &up {
        ctx.oracle_fail("upgrade-failed", case, json!({}), "the upgrade succeeds".into(), format!("{e:?}"));
        return Ok("upgrade-failed".into());
    }
    if let Some(reply) = ctx.ask(&format!("upgrade {prev} {tgt} {taint} {}", DOMAIN_TGT_PATCH_LEVEL)) {
        let obs = format!("ok {tgt}");
        if reply != obs {
            ctx.model_fail("upgrade-outcome-differs", case, json!({}), reply, obs);
        }
    }
    let after = snapshot(&ctx.rt, &srv.qs)?;
    let ver = db_version(&ctx.rt, &srv.qs);
    if ver.map(|v| v.0) != Some(tgt) {
        ctx.oracle_fail("level-not-raised", case, json!({}), format!("version {tgt}"), format!("{ver:?}"));
    }
    oracle(ctx, case, &made, &before, &after, defs);
    verify_all(ctx, case, &srv, "after");
    // ---- every stored entry conforms to the schema in force after the upgrade; every user entry is writable
    {
        let sd = dump_schema(&ctx.rt, &srv.qs)?;
        let bad: Vec<(Uuid, String)> = conformance(&sd, &after).into_iter().filter(|x| !nonconf_before.contains(x)).collect();
        ctx.rep.count("conformance-after-upgrade-checked");
        for (uuid, rule) in bad.iter().take(4) {
            let e = after.get(uuid);
            ctx.oracle_fail(
                "c48-entry-violates-schema-after-upgrade",
                case,
                json!({"uuid": uuid.to_string(), "rule": rule, "name": e.and_then(|e| e.vals.get("name")), "class": e.and_then(|e| e.vals.get("class")), "user_entry": made.kind.keys().any(|i| u(*i) == *uuid)}),
                "every stored live / recycled entry conforms to the schema in force after the upgrade".into(),
                format!("entry {uuid} (valid before the upgrade) breaks the post-upgrade schema: {rule}"),
            );
        }
        let unw = probe_writable(&ctx.rt, &srv.qs, &made, &after, ct + Duration::from_secs(1));
        ctx.rep.count("writability-after-upgrade-checked");
        for (uuid, err) in unw.iter().filter(|(x, _)| !unwritable_before.contains_key(*x)).take(4) {
            let e = after.get(uuid);
            ctx.oracle_fail(
                "c48-entry-unwritable-after-upgrade",
                case,
                json!({"uuid": uuid.to_string(), "name": e.and_then(|e| e.vals.get("name")), "class": e.and_then(|e| e.vals.get("class")), "attrs": e.map(|e| e.vals.keys().cloned().collect::<Vec<_>>())}),
                "a harmless modify (display name / description) of a pre-existing user entry succeeds after the upgrade as it did before".into(),
                err.clone(),
            );
        }
    }
    correspond(ctx, case, &srv, &before, &after, defs);
    correspond_modlist(ctx, case, &srv, defs, r);
    if ctx.explore {
        for l in diff_snap(&before, &after, 2).iter().take(60) {
            println!("  diff {l}");
        }
    }

    // ---- indexes: what a forced full reindex produces
    let idx_a = index_dump(&srv.be)?;
    {
        ct += Duration::from_secs(5);
        let mut w = ctx.rt.block_on(srv.qs.write(ct)).map_err(|e| format!("{e:?}"))?;
        w.reindex(true).map_err(|e| format!("reindex: {e:?}"))?;
        w.commit().map_err(|e| format!("reindex commit: {e:?}"))?;
    }
    let idx_b = index_dump(&srv.be)?;
    if idx_a != idx_b {
        let mut what = String::new();
        for (ta, tb) in idx_a.iter().zip(idx_b.iter()) {
            if ta != tb {
                what = format!("table {} differs", ta.0);
                break;
            }
        }
        if what.is_empty() {
            what = format!("{} tables vs {}", idx_a.len(), idx_b.len());
        }
        ctx.oracle_fail("index-differs-from-reindex", case, json!({}), "index tables as a full reindex builds them".into(), what);
    }

    // ---- the same level again (restart or running), then the migration again: nothing changes
    if case.restart_between {
        drop(srv);
        ct += Duration::from_secs(5);
        srv = match start(&ctx.rt, &path, ct, tgt) {
            Ok(s) => s,
            Err(e) => {
                ctx.oracle_fail("restart-at-target-failed", case, json!({}), "start at the target level".into(), format!("{e:?}"));
                return Ok("restart-failed".into());
            }
        };
    } else {
        ct += Duration::from_secs(5);
        if let Err(e) = ctx.rt.block_on(srv.qs.initialise_helper(ct, tgt)) {
            ctx.oracle_fail("rerun-same-level-failed", case, json!({}), "ok".into(), format!("{e:?}"));
        }
    }
    let again = snapshot(&ctx.rt, &srv.qs)?;
    let d = diff_snap(&after, &again, 1);
    if !d.is_empty() {
        ctx.oracle_fail("same-level-rerun-changed-database", case, json!({}), "database unchanged".into(), format!("{:?}", &d[..d.len().min(5)]));
    }
    if let Some(reply) = ctx.ask(&format!("upgrade {tgt} {tgt} {taint} {}", DOMAIN_TGT_PATCH_LEVEL)) {
        if reply != format!("ok {tgt}") {
            ctx.model_fail("rerun-outcome-differs", case, json!({}), reply, format!("ok {tgt}"));
        }
    }
    {
        ct += Duration::from_secs(5);
        let res: Result<(), OperationError> = (|| {
            let mut w = ctx.rt.block_on(srv.qs.write(ct))?;
            w.domain_remigrate(prev)?;
            w.commit()
        })();
        match res {
            Ok(()) => {
                let re = snapshot(&ctx.rt, &srv.qs)?;
                let d = diff_snap(&again, &re, 1);
                if !d.is_empty() {
                    ctx.oracle_fail("remigration-not-idempotent", case, json!({}), "running the migration twice equals once".into(), format!("{:?}", &d[..d.len().min(5)]));
                }
                let pre: BTreeSet<(String, String)> = relatives(&before, "example.com").into_iter().map(|(c, k, _)| (c, k)).collect();
                for (class, key, what) in relatives(&re, "example.com").into_iter().filter(|(c, k, _)| !pre.contains(&(c.clone(), k.clone()))).take(3) {
                    ctx.oracle_fail(&format!("inconsistent:{class}"), case, json!({"what": what, "subject": key, "at": "remigrate"}), "invariant holds".into(), what.clone());
                }
            }
            Err(e) => ctx.oracle_fail("remigration-failed", case, json!({}), "ok".into(), format!("{e:?}")),
        }
    }

    // ---- downgrade refused, database untouched
    ct += Duration::from_secs(5);
    let base = snapshot(&ctx.rt, &srv.qs)?;
    let res = ctx.rt.block_on(srv.qs.initialise_helper(ct, prev));
    let code = res.as_ref().err().map(err_code).unwrap_or_else(|| "ok".into());
    ctx.rep.count(&format!("downgrade:{code}"));
    if res.is_ok() {
        ctx.oracle_fail("downgrade-accepted", case, json!({}), "refused".into(), "ok".into());
    }
    if let Some(reply) = ctx.ask(&format!("upgrade {tgt} {prev} {taint} {}", DOMAIN_TGT_PATCH_LEVEL)) {
        let obs = if res.is_ok() { format!("ok {prev}") } else { format!("err:{code}") };
        if reply != obs {
            ctx.model_fail("downgrade-outcome-differs", case, json!({}), reply, obs);
        }
    }
    drop(srv);
    ct += Duration::from_secs(5);
    let srv = start(&ctx.rt, &path, ct, tgt).map_err(|e| format!("restart after refused downgrade: {e:?}"))?;
    let fin = snapshot(&ctx.rt, &srv.qs)?;
    let d = diff_snap(&base, &fin, 1);
    if !d.is_empty() {
        ctx.oracle_fail("refused-downgrade-changed-database", case, json!({}), "database unchanged".into(), format!("{:?}", &d[..d.len().min(5)]));
    }
    verify_all(ctx, case, &srv, "final");
    drop(srv);
    rm_db(&path);

    let kinds: BTreeSet<char> = made.kind.values().cloned().collect();
    let key = format!(
        "{}|k={}|n={}|b={}|del={}|{}{}",
        path_name(case.path),
        kinds.iter().collect::<String>(),
        made.kind.len(),
        made.builtin_added.len(),
        made.deleted.len(),
        if case.jump_first { "J" } else { "" },
        if case.restart_between { "R" } else { "" }
    );
    let _ = applied;
    Ok(key)
}

// ------------------------------------------------------------------------------------------------
// stream `levels`: the migration driver's decisions against the model
// ------------------------------------------------------------------------------------------------

fn levels(ctx: &mut Ctx, args: &Args) {
    let case = Case { ops: vec![], path: PathKind::Running, jump_first: false, restart_between: false };
    let mut combos: Vec<(u32, u32)> = vec![];
    // below DOMAIN_MIN_REMIGRATION_LEVEL a non-test build refuses the patch-level reload of a bootstrap with
    // MG0001 (a debug build panics on the debug_assert! before it): the model says so, the harness cannot ask
    let creatable: Vec<u32> = (DOMAIN_MIN_REMIGRATION_LEVEL..=DOMAIN_TGT_LEVEL).collect();
    for c in &creatable {
        for t in DOMAIN_MIN_CREATION_LEVEL.saturating_sub(1)..=DOMAIN_MAX_LEVEL + 1 {
            combos.push((*c, t));
        }
    }
    let mut r = Rng::for_case(args.seed, 0xC48);
    if !args.thorough() && args.budget == 1 {
        // quick: the boundary pairs around the previous / target level plus a random sample
        let p = DOMAIN_PREVIOUS_TGT_LEVEL;
        let t = DOMAIN_TGT_LEVEL;
        let mut pick: Vec<(u32, u32)> = vec![(p, t), (p - 1, t), (p, t + 1), (t, p), (t, t), (t, t + 1), (p - 1, p), (p, p)];
        r.shuffle(&mut combos);
        pick.extend(combos.iter().take(6).cloned());
        pick.sort();
        pick.dedup();
        combos = pick;
    }
    for (c, t) in combos {
        let ct = Duration::from_secs(1_700_000_000);
        let schema = Schema::new().expect("schema");
        let idxmeta = {
            let s = schema.write();
            s.reload_idxmeta()
        };
        let be = Backend::new(BackendConfig::new(None, 1, FsType::Generic, Some(2048)), idxmeta, false).expect("backend");
        let qs = QueryServer::new(be, schema, "example.com".to_string(), Duration::ZERO).expect("qs");
        // bootstrap at c
        let boot = ctx.rt.block_on(qs.initialise_helper(ct, c));
        let boot_s = match &boot {
            Ok(()) => format!("ok {c}"),
            Err(e) => format!("err:{}", err_code(e)),
        };
        if let Some(reply) = ctx.ask(&format!("upgrade 0 {c} 0 0")) {
            if reply != boot_s {
                ctx.model_fail("bootstrap-outcome-differs", &case, json!({"create": c}), reply, boot_s.clone());
            }
        }
        if boot.is_err() {
            ctx.rep.case(None);
            continue;
        }
        let res = ctx.rt.block_on(qs.initialise_helper(ct + Duration::from_secs(10), t));
        let obs = match &res {
            Ok(()) => format!("ok {}", db_version(&ctx.rt, &qs).map(|v| v.0).unwrap_or(0)),
            Err(e) => format!("err:{}", err_code(e)),
        };
        ctx.rep.count(&format!("levels:{}", obs.split(' ').next().unwrap_or("")));
        if let Some(reply) = ctx.ask(&format!("upgrade {c} {t} 0 {}", DOMAIN_TGT_PATCH_LEVEL)) {
            if reply != obs {
                ctx.model_fail("level-outcome-differs", &case, json!({"create": c, "target": t}), reply, obs.clone());
            }
        }
        // the property's own demands on the driver: never lowers, never skips, never passes the target
        let verdict: Option<(&str, String)> = match &res {
            Ok(()) if t < c => Some(("downgrade-accepted", format!("{c} -> {t}"))),
            Ok(()) if t > DOMAIN_TGT_LEVEL => Some(("level-in-development-reached", format!("{c} -> {t}"))),
            Ok(()) if t > c && c < DOMAIN_PREVIOUS_TGT_LEVEL => Some(("skip-upgrade-accepted", format!("{c} -> {t}"))),
            Err(e) if c == DOMAIN_PREVIOUS_TGT_LEVEL && t == DOMAIN_TGT_LEVEL => Some(("upgrade-failed", format!("{e:?}"))),
            Err(e) if c == t => Some(("rerun-same-level-failed", format!("{e:?}"))),
            _ => None,
        };
        if let Some((class, what)) = verdict {
            ctx.oracle_fail(class, &case, json!({"create": c, "target": t}), "see class".into(), what);
        }
        ctx.rep.case(Some(format!("levels|{c}|{t}|{obs}")));
    }
}

fn main() {
    let args = Args::parse();
    let dir = scratch();
    let rt = tokio::runtime::Builder::new_current_thread().enable_all().build().expect("runtime");
    let drv = if args.driver.is_empty() { None } else { Some(Driver::spawn(&args.driver)) };
    let mut ctx = Ctx {
        rt,
        drv,
        rep: Report::new(
            "upgrade",
            "a generated case counts when the upgrade ran to the end on a database holding at least 3 user-created entries of at least 2 kinds; key = path, kinds, sizes, flags; corpus replays count once per file; the `levels` pairs count by (created level, target level, outcome)",
        ),
        dir: dir.clone(),
        model_fails: 0,
        oracle_failed: false,
        counter: 0,
        attr_ids: BTreeMap::new(),
        val_ids: BTreeMap::new(),
        explore: args.extra.contains_key("explore"),
    };
    // the model's special attribute ids
    if let Some(reply) = ctx.ask("attrs") {
        for item in reply.split_whitespace() {
            if let Some((k, v)) = item.split_once('=') {
                if let Ok(n) = v.parse::<u64>() {
                    ctx.attr_ids.insert(k.to_string(), n);
                }
            }
        }
        // later ids start above the special ones
        let base = ctx.attr_ids.len() as u64;
        let _ = base;
    }
    let (defs, dels) = target_defs();
    let prev_uuids = previous_def_uuids();
    ctx.rep.note(format!(
        "target level {} defines {} entries in phases 3-7 ({} not defined by the previous level), delete list {:?}",
        DOMAIN_TGT_LEVEL,
        defs.len(),
        defs.iter().filter(|d| !prev_uuids.contains(&d.uuid)).count(),
        dels
    ));
    // definitions must be unique per uuid within the level and disjoint from the delete list (hypotheses of
    // the whole-level theorems)
    {
        let mut seen = BTreeSet::new();
        let case = Case { ops: vec![], path: PathKind::Running, jump_first: false, restart_between: false };
        for d in &defs {
            if !seen.insert(d.uuid) {
                ctx.model_fail("definition-uuid-repeated", &case, json!({"uuid": d.uuid.to_string()}), "each uuid defined once".into(), "repeated".into());
            }
            if dels.contains(&d.uuid) {
                ctx.model_fail("definition-uuid-deleted", &case, json!({"uuid": d.uuid.to_string()}), "definitions disjoint from the delete list".into(), "deleted".into());
            }
        }
    }

    if let Some(p) = &args.replay {
        let j: J = serde_json::from_str(&std::fs::read_to_string(p).expect("replay file")).expect("replay json");
        let input = if j.get("input").is_some() { &j["input"] } else { &j };
        let case = case_from_json(input).expect("replay input");
        let mut r = Rng::for_case(args.seed, 0);
        match run_case(&mut ctx, &case, &defs, &mut r) {
            Ok(k) => ctx.rep.case(Some(k)),
            Err(e) => {
                ctx.rep.note(format!("replay: {e}"));
                ctx.rep.case(None);
            }
        }
    } else {
        // the regression corpus first: minimised past witnesses
        let corpus = std::env::var("VERIF_ROOT").unwrap_or_else(|_| "/verif".into()) + "/corpus/C48";
        let mut files: Vec<PathBuf> = std::fs::read_dir(&corpus).map(|d| d.filter_map(|e| e.ok().map(|e| e.path())).filter(|p| p.extension().map(|x| x == "json").unwrap_or(false)).collect()).unwrap_or_default();
        files.sort();
        for f in files {
            let Some(case) = std::fs::read_to_string(&f).ok().and_then(|t| serde_json::from_str::<J>(&t).ok()).and_then(|j| case_from_json(&j)) else {
                ctx.rep.note(format!("corpus file {} unreadable", f.display()));
                continue;
            };
            let mut r = Rng::for_case(args.seed, 0xC0);
            match run_case(&mut ctx, &case, &defs, &mut r) {
                Ok(k) => ctx.rep.case(Some(format!("corpus|{}|{k}", f.file_name().map(|n| n.to_string_lossy().to_string()).unwrap_or_default()))),
                Err(e) => {
                    ctx.rep.note(format!("corpus {}: {e}", f.display()));
                    ctx.rep.case(None);
                }
            }
            ctx.rep.count("corpus-case");
            if ctx.rep.failures.iter().filter(|f| f.kind == "impl-vs-oracle").all(|f| f.class == RECOGNISED) {
                ctx.oracle_failed = false;
            }
        }
        let n = args.cases(10, 100);
        for i in 0..n {
            let mut r = Rng::for_case(args.seed, i);
            let case = gen_case(&mut r, i, args.budget);
            let before_fail = ctx.oracle_failed;
            match run_case(&mut ctx, &case, &defs, &mut r) {
                Ok(key) => {
                    let kinds = key.split("|k=").nth(1).and_then(|s| s.split('|').next()).map(|s| s.len()).unwrap_or(0);
                    let nn: usize = key.split("|n=").nth(1).and_then(|s| s.split('|').next()).and_then(|s| s.parse().ok()).unwrap_or(0);
                    if kinds >= 2 && nn >= 3 && !key.contains("failed") {
                        ctx.rep.case(Some(key.clone()));
                    } else {
                        ctx.rep.case(None);
                    }
                    if i < 4 {
                        ctx.rep.sample(json!({"case": i, "ops": case.ops.iter().map(|o| o.show()).collect::<Vec<_>>(), "path": path_name(case.path), "key": key}));
                    }
                }
                Err(e) => {
                    ctx.rep.count("case-error");
                    ctx.rep.note(format!("case {i}: {e}"));
                    ctx.model_fail("case-error", &case, json!({"case": i}), "the case runs".into(), e);
                    ctx.rep.case(None);
                }
            }
            // an oracle failure was found: shrink the history once, then stop generating
            // the recognised class (a user entry holds the name of an entry only the target level defines) does
            // not end the run: every other case is still executed and judged
            let only_recognised = ctx.rep.failures.iter().filter(|f| f.kind == "impl-vs-oracle").all(|f| f.class == RECOGNISED);
            if ctx.oracle_failed && only_recognised {
                ctx.oracle_failed = false;
            }
            if ctx.oracle_failed && !before_fail {
                let first_class = ctx.rep.failures.iter().find(|f| f.kind == "impl-vs-oracle" && f.class != RECOGNISED).map(|f| f.class.clone()).unwrap_or_default();
                let ops = case.ops.clone();
                let mut budget = 24;
                let small = shrink_list(ops, |cand| {
                    if budget == 0 {
                        return false;
                    }
                    budget -= 1;
                    let mut sub = Ctx {
                        rt: tokio::runtime::Builder::new_current_thread().enable_all().build().expect("runtime"),
                        drv: None,
                        rep: Report::new("shrink", ""),
                        dir: dir.clone(),
                        model_fails: 0,
                        oracle_failed: false,
                        counter: 1_000_000 + budget,
                        attr_ids: BTreeMap::new(),
                        val_ids: BTreeMap::new(),
                        explore: false,
                    };
                    let c = Case { ops: cand.to_vec(), ..case.clone() };
                    let mut r = Rng::for_case(args.seed, i);
                    let _ = run_case(&mut sub, &c, &defs, &mut r);
                    sub.rep.failures.iter().any(|f| f.kind == "impl-vs-oracle" && f.class == first_class)
                });
                if small.len() < case.ops.len() {
                    let c = Case { ops: small, ..case.clone() };
                    for f in ctx.rep.failures.iter_mut() {
                        if f.kind == "impl-vs-oracle" && f.class == first_class {
                            f.input = case_json(&c, f.input["detail"].clone());
                        }
                    }
                }
                break;
            }
        }
        levels(&mut ctx, &args);
    }
    ctx.rep.model_requests = ctx.drv.as_ref().map(|d| d.requests).unwrap_or(0);
    let _ = guard(|| ());
    ctx.rep.write(&args.out);
    let _ = std::fs::remove_dir_all(&dir);
    println!(
        "c48 upgrade: {} cases, {} distinct non-trivial, {} failures ({} model requests)",
        ctx.rep.evaluations,
        ctx.rep.nontrivial_keys.len(),
        ctx.rep.failures.len(),
        ctx.rep.model_requests
    );
}
