//! C01, query-server level — `QueryServerTransaction::search` / `exists` (`internal_search`,
//! `internal_exists`) on a migrated in-memory server: the real `validate -> resolve (with the
//! per-identity resolve cache) -> Backend::search -> access filter` path, the recycled/tombstone mask
//! the server adds (`Filter::new_ignore_hidden`), and the real way an index layout changes: the
//! `indexed` flag of schema attributes is modified, the schema reload calls `update_idxmeta` and
//! clears the resolve cache, a later transaction re-indexes.
//!
//! For every assignment of `indexed` to {class, description} (name and gidnumber are unique, hence
//! always indexed), visited so that every flag is switched in both directions, the same filters are searched in two windows: after the schema change but before
//! the reindex (index metadata and tables disagree) and after the reindex; each search runs cold,
//! warm (same transaction) and in a fresh read transaction (resolve cache warm).
//!
//! Oracle only (the model is tied at the backend level by `c01`): the answer must be
//! `ResourceLimit`/`Backend` error or exactly the non-hidden entries of the database that satisfy
//! the tree under the plain boolean evaluator, which reads the entries' values through
//! `to_proto_string_clone_iter` (not through kanidm's matcher); and therefore the same in every
//! window of every layout. Known findings D1 / C01-F2 are recognised as in `c01`.
#![allow(dead_code)]
use hlib::*;
use kanidm_proto::scim_v1::{AttrPath, ScimFilter};
use kanidmd_lib::entry::{Entry, EntryInit, EntryNew, EntrySealedCommitted};
use kanidmd_lib::filter::FilterResolved;
use kanidmd_lib::prelude::*;
use kanidmd_lib::testkit::{setup_test, TestConfiguration};
use serde_json::{json, Value as Json};
use std::collections::{BTreeMap, BTreeSet};

include!("../bin_c01/common.rs");

struct Ent {
    uuid: Uuid,
    hidden: bool,
    plain: PlainEntry,
}


struct Ctx {
    rep: Report,
    universe: Vec<Ent>,
    known_recorded: BTreeMap<String, u32>,
    /// tree -> answer seen in an earlier window
    seen: BTreeMap<String, (String, String)>,
    window: String,
}

fn plain_of(e: &EntrySealedCommitted) -> PlainEntry {
    let mut p: PlainEntry = vec![vec![]; 4];
    for (a, attr) in attrs().iter().enumerate() {
        if let Some(vs) = e.get_ava_set(attr) {
            for s in vs.to_proto_string_clone_iter() {
                p[a].push(if KINDS[a] == AK::U32 { V::N(s.parse().expect("numeric gid")) } else { V::S(s.into_bytes()) });
            }
        }
    }
    p
}

fn uu_text(v: &[Uuid]) -> String {
    if v.is_empty() {
        "-".into()
    } else {
        v.iter().map(|u| u.as_hyphenated().to_string()[24..].to_string()).collect::<Vec<_>>().join(",")
    }
}

impl Ctx {
    /// (search answer, exists answer) of one tree in one read transaction
    fn ask(&self, rd: &mut QueryServerReadTransaction<'_>, t: &T) -> Option<(String, String)> {
        let fc = to_fc(t)?;
        let s = match rd.internal_search(Filter::new_ignore_hidden(fc.clone())) {
            Ok(es) => {
                let mut us: Vec<Uuid> = es.iter().map(|e| e.get_uuid()).collect();
                us.sort();
                format!("ok {}", uu_text(&us))
            }
            Err(OperationError::SchemaViolation(_)) => return None,
            Err(e) => format!("err {e:?}"),
        };
        let x = match rd.internal_exists(&Filter::new_ignore_hidden(fc)) {
            Ok(b) => format!("ok {}", b as u8),
            Err(e) => format!("err {e:?}"),
        };
        Some((s, x))
    }

    fn eval(&mut self, rd: &mut QueryServerReadTransaction<'_>, t: &T, stats: bool) -> Vec<Failure> {
        let mut fails = vec![];
        let input = json!({"t": show_t(t), "window": self.window});
        let Some((s, x)) = self.ask(rd, t) else {
            if stats {
                self.rep.count("rejected");
                self.rep.case(None);
            }
            return fails;
        };
        let warm = self.ask(rd, t).unwrap_or_default();
        let mut want: Vec<Uuid> = self.universe.iter().filter(|e| !e.hidden && plain(t, &e.plain)).map(|e| e.uuid).collect();
        want.sort();
        let want_s = format!("ok {}", uu_text(&want));
        let want_x = format!("ok {}", (!want.is_empty()) as u8);
        let mut fail = |expected: String, observed: String| {
            fails.push(Failure { kind: "impl-vs-oracle".into(), class: "unclassified".into(), input: input.clone(), expected, observed });
        };
        // only ResourceLimit (mapped to Backend by the query server) is an acceptable failure
        let acceptable = |r: &str| r == "err Backend" || r == "err ResourceLimit";
        if !acceptable(&s) && s != want_s {
            fail(format!("search: explicit error or exactly {want_s}"), s.clone());
        }
        if !acceptable(&x) && x != want_x {
            fail(format!("exists: explicit error or {want_x}"), x.clone());
        }
        if warm != (s.clone(), x.clone()) {
            fail(format!("warm answer equals cold answer {s} / {x}"), format!("{} / {}", warm.0, warm.1));
        }
        if !has_inc(t) && s.starts_with("ok") && x.starts_with("ok") {
            let key = show_t(t);
            match self.seen.get(&key) {
                Some((ps, px)) => {
                    if *ps != s || *px != x {
                        fail(format!("same answer as in an earlier window: {ps} / {px}"), format!("{s} / {x}"));
                    }
                }
                None => {
                    self.seen.insert(key, (s.clone(), x.clone()));
                }
            }
        }
        if stats {
            let mut kinds = BTreeSet::new();
            conn_kinds(t, &mut kinds);
            self.rep.count(&format!("search:{}", s.split(' ').next().unwrap_or("?")));
            self.rep.count(&format!("depth:{}", depth(t)));
            for k in &kinds {
                self.rep.count(&format!("has:{k}"));
            }
            self.rep.count_n("searches", 4);
            let live = self.universe.iter().filter(|e| !e.hidden).count();
            let nontrivial = kinds.len() >= 2 && !want.is_empty() && want.len() < live && s.starts_with("ok");
            self.rep.case(if nontrivial { Some(format!("{}|{}", self.window, show_t(t))) } else { None });
            if self.rep.evaluations % 997 == 1 {
                self.rep.sample(json!({"window": self.window, "t": show_t(t), "search": s, "exists": x}));
            }
        }
        fails
    }

    fn classify(&mut self, rd: &mut QueryServerReadTransaction<'_>, t: &T) -> String {
        let d1 = has_isolated_not(t, false);
        let f2 = has_empty_needle(t);
        if d1 && self.eval(rd, &guard_nots(t, false), false).is_empty() {
            "D1:isolated-not".into()
        } else if f2 && self.eval(rd, &fill_needles(t), false).is_empty() {
            "C01-F2:empty-substring-needle".into()
        } else if d1 && f2 && self.eval(rd, &guard_nots(&fill_needles(t), false), false).is_empty() {
            "C01-F2:empty-substring-needle".into()
        } else {
            "unclassified".into()
        }
    }

    fn run(&mut self, rd: &mut QueryServerReadTransaction<'_>, t: &T) {
        let fails = self.eval(rd, t, true);
        if fails.is_empty() {
            return;
        }
        // answers of shrunk / rewritten trees seen while a defect is being examined must not
        // become the reference for later windows
        let saved = self.seen.clone();
        let class0 = self.classify(rd, t);
        if class0 != "unclassified" && self.known_recorded.get(&class0).copied().unwrap_or(0) >= 2 {
            self.rep.count(&format!("known:{class0}"));
            self.seen = saved;
            return;
        }
        let mut cur = t.clone();
        let mut cur_fails = fails;
        let mut budget = 120;
        'outer: loop {
            for cand in shrinks(&cur) {
                if budget == 0 {
                    break 'outer;
                }
                budget -= 1;
                let f = self.eval(rd, &cand, false);
                if !f.is_empty() {
                    cur = cand;
                    cur_fails = f;
                    continue 'outer;
                }
            }
            break;
        }
        let class = self.classify(rd, &cur);
        self.seen = saved;
        if class != "unclassified" {
            self.rep.count(&format!("known:{class}"));
            *self.known_recorded.entry(class.clone()).or_insert(0) += 1;
        }
        for mut f in cur_fails {
            f.class = class.clone();
            f.input = json!({"t": show_t(&cur), "window": self.window});
            self.rep.fail(f);
        }
    }
}

/// Replace the backend's index metadata by `base` (the server's own keys for all other attributes)
/// plus `layout`; with `reindex` also rebuild every table. (At this domain level the schema — and
/// with it the index metadata — comes from the migration data in the code, not from the schema
/// entries, so the layout can only be varied through the backend hook.) The resolve cache is NOT
/// cleared by this: resolutions cached under an earlier layout stay in use.
async fn set_layout(qs: &QueryServer, base: &[(Attribute, IndexType)], layout: &[(usize, char)], reindex: bool) -> Result<(), String> {
    let mut w = qs.write(duration_from_epoch_now()).await.map_err(|e| format!("write txn: {e:?}"))?;
    let mut keys = base.to_vec();
    keys.extend(real_layout(layout));
    kanidmd_lib::verif_hooks::c01::set_layout(w.get_be_txn(), &keys, reindex).map_err(|e| format!("set_layout: {e:?}"))?;
    w.commit().map_err(|e| format!("commit layout: {e:?}"))
}

fn main() {
    let args = Args::parse();
    let rt = tokio::runtime::Builder::new_current_thread().enable_all().build().unwrap();
    rt.block_on(async {
        let qs = setup_test(TestConfiguration::default()).await;
        let mut ctx = Ctx {
            rep: Report::new(
                "qs-search",
                "internal_search / internal_exists (ignore-hidden wrapper, resolve cache, Backend::search) on a migrated in-memory server holding \
                 the builtin entries plus 11 extensibleobject entries (one of them recycled), under the server's own index layout, none, all and random subsets of 12 \
                 (attribute, index type) tables on class / name / description / gidnumber, in three windows each (metadata changed but not yet \
                 re-indexed; re-indexed; fresh read transaction) with the resolve cache kept across layouts, cold and warm; filters: corpus, small scope and random trees over class/name/description/gidnumber. non-trivial = >= 2 \
                 connective kinds AND the answer is a non-empty strict subset of the live entries AND the search succeeded; distinct = distinct \
                 (window, tree)",
            ),
            universe: vec![],
            known_recorded: BTreeMap::new(),
            seen: BTreeMap::new(),
            window: String::new(),
        };
        if let Err(e) = run_all(&args, &qs, &mut ctx).await {
            ctx.rep.fail(Failure { kind: "impl-vs-model".into(), class: "unclassified".into(), input: json!({"window": ctx.window}), expected: "the scenario runs".into(), observed: e });
        }
        ctx.rep.write(&args.out);
        println!("c01qs: {} cases, {} distinct non-trivial, {} failures", ctx.rep.evaluations, ctx.rep.nontrivial_keys.len(), ctx.rep.failures.len());
    });
}

async fn run_all(args: &Args, qs: &QueryServer, ctx: &mut Ctx) -> Result<(), String> {
    // ---- the database: the fixed entries, the last one recycled (must never be returned)
    // (the gidnumber plugin of the query server refuses system-range gids: lift them)
    let mut fixed = fixed_db();
    // and wants them unique
    let mut used = BTreeSet::new();
    for e in fixed.plain.iter_mut() {
        for v in e[GID].iter_mut() {
            if let V::N(n) = v {
                if *n < 1000 {
                    *n += 1000;
                }
                while !used.insert(*n) {
                    *n += 1;
                }
            }
        }
    }
    {
        let mut w = qs.write(duration_from_epoch_now()).await.map_err(|e| format!("write txn: {e:?}"))?;
        let ents: Vec<Entry<EntryInit, EntryNew>> = fixed.plain.iter().enumerate().map(|(n, p)| real_entry(p, n)).collect();
        w.internal_create(ents).map_err(|e| format!("create: {e:?}"))?;
        w.commit().map_err(|e| format!("commit create: {e:?}"))?;
        let mut w = qs.write(duration_from_epoch_now()).await.map_err(|e| format!("write txn: {e:?}"))?;
        w.internal_delete_uuid(nat_uuid(1000 + fixed.plain.len() as u64 - 1)).map_err(|e| format!("delete: {e:?}"))?;
        w.commit().map_err(|e| format!("commit delete: {e:?}"))?;
    }
    {
        let mut rd = qs.read().await.map_err(|e| format!("read txn: {e:?}"))?;
        let all = rd.internal_search(Filter::new(FC::Pres(Attribute::Class))).map_err(|e| format!("full scan: {e:?}"))?;
        for e in all {
            let p = plain_of(&e);
            let hidden = p[CLASS].iter().any(|c| *c == sv("recycled") || *c == sv("tombstone"));
            ctx.universe.push(Ent { uuid: e.get_uuid(), hidden, plain: p });
        }
        let mine = ctx.universe.iter().filter(|e| (0..fixed.plain.len()).any(|n| e.uuid == nat_uuid(1000 + n as u64))).count();
        if mine != fixed.plain.len() {
            return Err(format!("full scan shows {mine} of the {} created entries", fixed.plain.len()));
        }
        ctx.rep.note(format!("database: {} entries, {} hidden", ctx.universe.len(), ctx.universe.iter().filter(|e| e.hidden).count()));
    }

    // ---- the trees
    let mut trees: Vec<T> = corpus();
    let core: Vec<T> = vec![T::Eq(CLASS, sv("memberof")), T::Eq(NAME, sv("vp_ga")), T::Pres(GID), T::Cnt(DESC, sv("abc")), T::Lt(GID, V::N(2500)), T::Eq(DESC, sv("vp"))];
    let scope = small_scope(&core[..if args.thorough() { 6 } else { 5 }], 2);
    let leaves = leaf_alphabet(false);
    if let Some(path) = &args.replay {
        let v: Json = serde_json::from_str(&std::fs::read_to_string(path).unwrap()).unwrap();
        trees = vec![parse_t(v["input"]["t"].as_str().unwrap())];
    } else {
        let step = if args.thorough() { 1 } else { 3 };
        trees.extend(scope.iter().step_by(step).cloned());
        let nrand = args.cases(150, 1500);
        for i in 0..nrand {
            let mut r = Rng::for_case(args.seed, i);
            let mut lv = leaves.clone();
            r.shuffle(&mut lv);
            lv.truncate(r.range(3, 10) as usize);
            let (dmax, wmax) = (*r.pick(&[2usize, 3, 3, 4, 5]), *r.pick(&[2usize, 3, 3, 4]));
            trees.push(random_tree(&mut r, &lv, dmax, wmax, false));
        }
    }
    ctx.rep.note(format!("{} trees per window", trees.len()));

    // ---- layouts: the server's own, none, all, and random subsets of the 12 tables; three windows each
    let base: Vec<(Attribute, IndexType)> = {
        let mut rd = qs.read().await.map_err(|e| format!("read txn: {e:?}"))?;
        kanidmd_lib::verif_hooks::c01::idxmeta_dump(rd.get_be_txn()).into_iter().filter(|(a, _, _)| atom(a) == 99).map(|(a, t, _)| (a, t)).collect()
    };
    let own: Vec<(usize, char)> = {
        let mut rd = qs.read().await.map_err(|e| format!("read txn: {e:?}"))?;
        kanidmd_lib::verif_hooks::c01::idxmeta_dump(rd.get_be_txn()).into_iter().filter(|(a, _, _)| atom(a) != 99).map(|(a, t, _)| (atom(&a), it_char(&t))).collect()
    };
    let mut own = own;
    own.sort();
    ctx.rep.note(format!("server's own layout on the four attributes: {}", layout_text(&own)));
    let nlayouts = args.cases(6, 40);
    let full = (1u32 << PAIRS.len()) - 1;
    let mut first = true;
    for li in 0..nlayouts {
        let mut r = Rng::for_case(args.seed ^ 0x1a70, li);
        let layout = match li {
            0 => own.clone(),
            1 => vec![],
            2 => layout_of_mask(full),
            _ => layout_of_mask(r.next() as u32 & full),
        };
        for phase in ["metadata-changed", "reindexed", "reindexed-new-txn"] {
            if first {
                // the server's own layout is already in force and indexed
                first = false;
                continue;
            }
            match phase {
                "metadata-changed" => set_layout(qs, &base, &layout, false).await?,
                "reindexed" => set_layout(qs, &base, &layout, true).await?,
                _ => {}
            }
            ctx.window = format!("{} {phase}", layout_text(&layout));
            let mut rd = qs.read().await.map_err(|e| format!("read txn: {e:?}"))?;
            let meta = kanidmd_lib::verif_hooks::c01::idxmeta_dump(rd.get_be_txn());
            let mut got: Vec<(usize, char)> = meta.iter().filter(|(a, _, _)| atom(a) != 99).map(|(a, t, _)| (atom(a), it_char(t))).collect();
            got.sort();
            let mut want = layout.clone();
            want.sort();
            if got != want {
                return Err(format!("window {}: index metadata is {}", ctx.window, layout_text(&got)));
            }
            for t in &trees {
                ctx.rep.count(&format!("window:{phase}"));
                ctx.run(&mut rd, t);
            }
        }
    }
    ctx.rep.exhaustive = true;
    Ok(())
}
