//! C28, stream `idm-lock` — the server paths that consult the soft lock.
//!
//! Real `IdmServer` (in-memory), one fresh password-only account per schedule:
//!  * `web`  : `IdmServer::auth` Init → Begin(Password) → Cred(Password) at one instant per attempt
//!  * `unix` : `IdmServer::auth_unix` (→ `auth_with_unix_pass`) with the account's UNIX password
//! Every attempt is classified `refused` (Denied "Account is temporarily locked": no credential
//! check was attempted), `failed` (credential checked and denied) or `success`; the same
//! `att <t> - <ok>` lines go to the Lean model's `attempt` (`km_c28`, policy Password) and the
//! outcomes are compared (`unix` cannot tell refused from failed: compared as success / no success).
//!
//! Oracle (implementation only, from the property text):
//!  I1 audit    a refused attempt queues no `AuthenticationDenied` audit event (no credential check
//!              while locked); a failed one queues exactly one (web path)
//!  I2 no-early the right password supplied at the very instant of a failed attempt is not accepted
//!  I3 budget   a greedy attacker gets at most 100 failed (= checked) attempts per UTC day
//!  I4 success  inserting a successful login into a schedule changes none of the later outcomes
//!              (a success never resets the count)
//! `reauth_init` (needs an issued privileged session) is not driven here; see notes/C28.md.
use hlib::*;
use kanidmd_lib::entry::{Entry, EntryInit, EntryNew};
use kanidmd_lib::idm::authentication::{AuthCredential, AuthState, ClientAuthInfo};
use kanidmd_lib::idm::event::{
    AuthEvent, AuthEventStep, AuthEventStepCred, AuthEventStepInit, AuthEventStepMech, UnixUserAuthEvent,
};
use kanidmd_lib::idm::server::{IdmServer, IdmServerAudit, IdmServerDelayed};
use kanidmd_lib::prelude::*;
use kanidmd_lib::testkit::{setup_idm_test, TestConfiguration};
use kanidmd_lib::verif_hooks::c27::cred_password;
use kanidmd_lib::verif_hooks::c28::audit_drain_denied;
use kanidm_proto::v1::{AuthIssueSession, AuthMech};
use serde_json::json;
use std::time::Duration;

const NS: u128 = 1_000_000_000;
const DAY: u128 = 86_400 * NS;
const PW_OK: &str = "eicieY7ahchaoCh0eeTa-c28";
const PW_BAD: &str = "this-is-not-the-password";
/// a UTC midnight (21 990 days after the epoch)
const T0: u128 = 21_990 * DAY;

fn dur(ns: u128) -> Duration {
    Duration::new((ns / NS) as u64, (ns % NS) as u32)
}

struct World {
    idms: IdmServer,
    delayed: IdmServerDelayed,
    audit: IdmServerAudit,
    next: u64,
}

impl World {
    async fn account(&mut self, unix: bool) -> (String, Uuid) {
        self.next += 1;
        let name = format!("c28acct{}", self.next);
        let uuid = nat_uuid(0xC28_0000 + self.next);
        let mut e: Entry<EntryInit, EntryNew> = Entry::new();
        e.add_ava(Attribute::Class, EntryClass::Object.to_value());
        e.add_ava(Attribute::Class, EntryClass::Account.to_value());
        e.add_ava(Attribute::Class, EntryClass::Person.to_value());
        e.add_ava(Attribute::Name, Value::new_iname(&name));
        e.add_ava(Attribute::Uuid, Value::Uuid(uuid));
        e.add_ava(Attribute::Description, Value::new_utf8s(&name));
        e.add_ava(Attribute::DisplayName, Value::new_utf8s(&name));
        e.add_ava(Attribute::PrimaryCredential, Value::new_credential("primary", cred_password(PW_OK, false).unwrap()));
        if unix {
            e.add_ava(Attribute::Class, EntryClass::PosixAccount.to_value());
            e.add_ava(Attribute::UnixPassword, Value::new_credential("unix", cred_password(PW_OK, false).unwrap()));
        }
        let mut w = self.idms.proxy_write(dur(T0 - DAY)).await.unwrap();
        w.qs_write.internal_create(vec![e]).expect("create account");
        w.commit().expect("commit account");
        (name, uuid)
    }

    async fn drain_delayed(&mut self) {
        loop {
            let mut buf: Vec<kanidmd_lib::idm::delayed::DelayedAction> = Vec::with_capacity(8);
            let n = tokio::select! {
                biased;
                n = self.delayed.recv_many(&mut buf) => n,
                _ = std::future::ready(()) => 0,
            };
            if n == 0 {
                break;
            }
        }
    }

    /// One attempt through `auth`: returns (outcome, audit events queued).
    async fn web(&mut self, name: &str, t: u128, ok: bool) -> (String, usize) {
        let ct = dur(t);
        let cai = || ClientAuthInfo::new(Source::Internal, None, None, None);
        let mut a = self.idms.auth().await.unwrap();
        a.expire_auth_sessions(ct).await;
        let init = AuthEvent {
            ident: None,
            step: AuthEventStep::Init(AuthEventStepInit {
                username: name.to_string(),
                issue: AuthIssueSession::Token,
                privileged: false,
            }),
        };
        let r = a.auth(&init, ct, cai()).await.expect("init");
        let sid = r.sessionid;
        let begin = AuthEvent { ident: None, step: AuthEventStep::Begin(AuthEventStepMech { sessionid: sid, mech: AuthMech::Password }) };
        let r = a.auth(&begin, ct, cai()).await.expect("begin");
        let out = match r.state {
            AuthState::Denied(m) if m == "Account is temporarily locked" => "refused".to_string(),
            AuthState::Denied(m) => format!("begin-denied:{m}"),
            AuthState::Continue(_) => {
                let cred = AuthEvent {
                    ident: None,
                    step: AuthEventStep::Cred(AuthEventStepCred {
                        sessionid: sid,
                        cred: AuthCredential::Password((if ok { PW_OK } else { PW_BAD }).into()),
                    }),
                };
                match a.auth(&cred, ct, cai()).await.expect("cred").state {
                    AuthState::Success(_, _) => "success".to_string(),
                    AuthState::Denied(m) if m == "Account is temporarily locked" => "refused".to_string(),
                    AuthState::Denied(m) if m == "incorrect password" => "failed".to_string(),
                    AuthState::Denied(m) => format!("cred-denied:{m}"),
                    o => format!("cred-unexpected:{o:?}"),
                }
            }
            o => format!("begin-unexpected:{o:?}"),
        };
        let _ = a.commit();
        self.drain_delayed().await;
        let n = audit_drain_denied(&mut self.audit);
        (out, n)
    }

    /// One attempt through `auth_unix`: "success" or "none".
    async fn unix(&mut self, uuid: Uuid, t: u128, ok: bool) -> String {
        let mut a = self.idms.auth().await.unwrap();
        let ev = UnixUserAuthEvent::from_parts(kanidmd_lib::verif_hooks::c23::ident_internal(0).unwrap(), uuid, (if ok { PW_OK } else { PW_BAD }).to_string()).unwrap();
        let r = a.auth_unix(&ev, dur(t)).await;
        let _ = a.commit();
        self.drain_delayed().await;
        match r {
            Ok(Some(_)) => "success".into(),
            Ok(None) => "none".into(),
            Err(e) => format!("err:{e:?}"),
        }
    }
}

/// A schedule: attempts (time, right password?).
type Sched = Vec<(u128, bool)>;

fn lines(s: &Sched) -> Vec<String> {
    let mut v = vec!["new pw".to_string()];
    v.extend(s.iter().map(|(t, ok)| format!("att {t} - {}", *ok as u8)));
    v
}

async fn run_sched(w: &mut World, drv: &mut Driver, rep: &mut Report, path: &str, kind: &str, s: &Sched) -> Vec<String> {
    let unix = path == "unix";
    let (name, uuid) = w.account(unix).await;
    let model: Vec<String> = drv.ask_batch(&lines(s))[1..].iter().map(|r| r.split(' ').next().unwrap().to_string()).collect();
    let mut outs = vec![];
    let input = |i: usize| json!({"path": path, "kind": kind, "attempts": s.iter().map(|(t, ok)| format!("{t} {}", *ok as u8)).collect::<Vec<_>>(), "at": i});
    let mut per_day: std::collections::BTreeMap<u128, u64> = Default::default();
    let mut reported = false;
    for (i, (t, ok)) in s.iter().enumerate() {
        let out = if unix {
            w.unix(uuid, *t, *ok).await
        } else {
            let (o, audit) = w.web(&name, *t, *ok).await;
            // I1
            let want = if o == "failed" { 1 } else { 0 };
            if audit != want && !reported {
                reported = true;
                rep.fail(Failure {
                    kind: "impl-vs-oracle".into(),
                    class: "unclassified".into(),
                    input: input(i),
                    expected: format!("I1 {want} AuthenticationDenied audit event(s) for a `{o}` attempt"),
                    observed: format!("{audit}"),
                });
            }
            if o == "failed" {
                *per_day.entry(*t / DAY).or_insert(0) += 1;
                // I2: the right password at the instant of the failure is not accepted
                let (o2, _) = w.web(&name, *t, true).await;
                if o2 == "success" && !reported {
                    reported = true;
                    rep.fail(Failure {
                        kind: "impl-vs-oracle".into(),
                        class: "unclassified".into(),
                        input: input(i),
                        expected: "I2 refused at the instant of a failed attempt".into(),
                        observed: "right password accepted".into(),
                    });
                }
            }
            o
        };
        rep.count(&format!("{path}:{out}"));
        // correspondence with the model's `attempt`
        let m = &model[i];
        let agree = if unix { (m == "success") == (out == "success") && (out == "success" || out == "none") } else { *m == out };
        if !agree && !reported {
            reported = true;
            rep.fail(Failure {
                kind: "impl-vs-model".into(),
                class: "unclassified".into(),
                input: input(i),
                expected: m.clone(),
                observed: out.clone(),
            });
        }
        outs.push(out);
    }
    // I3
    for (d, n) in per_day {
        if n > 100 {
            rep.fail(Failure {
                kind: "impl-vs-oracle".into(),
                class: "unclassified".into(),
                input: input(s.len()),
                expected: format!("I3 at most 100 checked-and-denied attempts in UTC day {d}"),
                observed: format!("{n}"),
            });
        }
    }
    let locked_seen = outs.iter().any(|o| o == "refused" || o == "none");
    let open_seen = outs.iter().any(|o| o == "failed" || o == "success");
    rep.case(if locked_seen && open_seen { Some(format!("{path}|{}", lines(s).join(";"))) } else { None });
    if rep.samples.len() < 4 {
        rep.sample(json!({"path": path, "kind": kind, "attempts": s.len(), "first": s.iter().take(6).map(|(t, ok)| format!("{t} {}", *ok as u8)).collect::<Vec<_>>(), "outcomes": outs.iter().take(6).collect::<Vec<_>>()}));
    }
    outs
}

fn random_sched(r: &mut Rng, n: usize) -> Sched {
    let mut t = T0 + r.range(1, 300) as u128 * DAY - r.range(0, 30) as u128 * NS - r.below(NS as u64) as u128;
    let mut s = vec![];
    for _ in 0..n {
        t += match r.below(9) {
            0 => 0,
            1 => NS / 2,
            2 => NS,
            3 => NS + 1,
            4 => 3 * NS + 1,
            5 => 5 * NS + 1,
            6 => 10 * NS + 1,
            7 => r.below(40) as u128 * NS,
            _ => {
                let next = (t / DAY + 1) * DAY;
                (next + r.below(3) as u128 - 1).saturating_sub(t).min(3600 * NS)
            }
        };
        s.push((t, r.chance(1, 4)));
    }
    s
}

fn main() {
    if std::env::var_os("RUST_LOG").is_none() {
        std::env::set_var("RUST_LOG", "off");
    }
    let args = Args::parse();
    let rt = tokio::runtime::Builder::new_current_thread().enable_all().build().unwrap();
    let mut rep = Report::new(
        "idm-lock",
        "scripted and random attempt schedules against fresh password accounts on a real IdmServer, through auth (Init/Begin/Cred) and auth_unix; \
         non-trivial = the schedule saw the credential both refused and checked; distinct = distinct (path, schedule)",
    );
    let mut drv = Driver::spawn(&args.driver);
    rt.block_on(async {
        let (idms, delayed, audit) = setup_idm_test(TestConfiguration::default()).await;
        let mut w = World { idms, delayed, audit, next: 0 };
        if let Some(path) = &args.replay {
            let v: serde_json::Value = serde_json::from_str(&std::fs::read_to_string(path).unwrap()).unwrap();
            if !v["input"]["attempts"].is_array() {
                // a replay of the other C28 stream (softlock): nothing to do here
                return;
            }
            let s: Sched = v["input"]["attempts"].as_array().unwrap().iter().map(|x| {
                let (t, ok) = x.as_str().unwrap().split_once(' ').unwrap();
                (t.parse().unwrap(), ok == "1")
            }).collect();
            run_sched(&mut w, &mut drv, &mut rep, v["input"]["path"].as_str().unwrap(), "replay", &s).await;
            return;
        }
        for path in ["web", "unix"] {
            // greedy attacker across a UTC midnight: every 11 s, always wrong
            let n = if path == "web" { 170 } else { 140 };
            let s: Sched = (0..n).map(|i| (T0 + 3 * DAY - 700 * NS + i as u128 * 11 * NS + 7, false)).collect();
            run_sched(&mut w, &mut drv, &mut rep, path, "greedy", &s).await;
            // D18 regressions at server level: failure just before midnight, right password just after
            let s: Sched = vec![(T0 + 5 * DAY - 1, false), (T0 + 5 * DAY + 1, true), (T0 + 5 * DAY + NS - 1, true), (T0 + 5 * DAY + NS, true)];
            run_sched(&mut w, &mut drv, &mut rep, path, "d18", &s).await;
            // I4: a success in between changes nothing later
            for k in [2usize, 3, 8] {
                let mut base: Sched = (0..k).map(|i| (T0 + 7 * DAY + i as u128 * 12 * NS, false)).collect();
                let tk = T0 + 7 * DAY + k as u128 * 12 * NS;
                let tail: Sched = vec![(tk + 20 * NS, false), (tk + 21 * NS + 1, true), (tk + 23 * NS + 1, true), (tk + 25 * NS + 1, true), (tk + 30 * NS + 2, false), (tk + 31 * NS + 3, true), (tk + 41 * NS, true)];
                let mut with = base.clone();
                with.push((tk, true));
                with.extend(tail.iter().cloned());
                base.extend(tail.iter().cloned());
                let a = run_sched(&mut w, &mut drv, &mut rep, path, "no-success", &base).await;
                let b = run_sched(&mut w, &mut drv, &mut rep, path, "with-success", &with).await;
                if b[k] != "success" || a[k..] != b[k + 1..] {
                    rep.fail(Failure {
                        kind: "impl-vs-oracle".into(),
                        class: "unclassified".into(),
                        input: json!({"path": path, "kind": "I4", "attempts": with.iter().map(|(t, ok)| format!("{t} {}", *ok as u8)).collect::<Vec<_>>()}),
                        expected: format!("I4 success at attempt {k}, then the same outcomes as without it: {:?}", &a[k..]),
                        observed: format!("{:?}", &b[k..]),
                    });
                }
            }
            let nr = args.cases(12, 120);
            for i in 0..nr {
                let mut r = Rng::for_case(args.seed, i + if path == "web" { 0 } else { 1_000_000 });
                let len = r.range(10, 60) as usize;
                let s = random_sched(&mut r, len);
                run_sched(&mut w, &mut drv, &mut rep, path, "random", &s).await;
            }
        }
    });
    rep.model_requests = drv.requests;
    rep.write(&args.out);
    println!("c28idm: {} schedules, {} failures", rep.evaluations, rep.failures.len());
}
