//! C08 — replicas converge; stream `repl-merge`: the entry-level merge on the real code.
//!
//! Entry states (live: creation cid, per-attribute change cid + value or purged; tombstone) are built as
//! committed database entries (`verif_hooks::c08::db_entry` = `Entry::from_dbentry`), put on the wire
//! with the real `ReplIncrementalEntryV1::new` (full or restricted ranges) → serde → `rehydrate`, and
//! applied the way `consumer_incremental_apply_entries` does: `is_add_conflict`, then
//! `resolve_add_conflict` or `merge_state`, then `validate_repl(schema).seal(schema)`; the schema is
//! the one of a booted test server.
//!
//! * correspondence (`impl-vs-model`): conflict flag, written entry (kind, `at`, change cid and value of
//!   every attribute, value-only attributes), last-modified cid, whether a conflict copy is made and
//!   the copy itself, and the wire delta, against `km_c08` (`conflict`, `apply`, `merge`, `resolve`,
//!   `copy`, `delta`);
//! * oracle (`impl-vs-oracle`, implementation outputs only, from the property text): the later change
//!   of an attribute wins with its value, an attribute known to one side is kept, a tombstone wins
//!   (earliest `at` of two), the earlier creation of a uuid created twice survives on both sides and
//!   the copy is made exactly on the loser's origin; applying in either direction gives the same
//!   replicated state; re-applying changes nothing; three states applied in all 12 orders and groupings
//!   give one result; a range-restricted delta gives the same result as the whole entry whenever the
//!   consumer already dominates what is not sent.
use hlib::*;
use kanidmd_lib::entry::EntrySealedCommitted;
use kanidmd_lib::prelude::*;
use kanidmd_lib::schema::SchemaReadTransaction;
use kanidmd_lib::testkit::{setup_test, TestConfiguration};
use kanidmd_lib::valueset::{self, ValueSet};
use kanidmd_lib::verif_hooks::c08 as hk;
use serde_json::{json, Value as J};
use std::collections::BTreeMap;

// ---------------------------------------------------------------------------------------------
// abstract states (shared with the model's line protocol)
// ---------------------------------------------------------------------------------------------

type MCid = (u64, u64); // (ts seconds, server)

const A_CLASS: u8 = 0;
const A_NAME: u8 = 1;
const A_DESC: u8 = 2;
const A_MEMBER: u8 = 3;
const A_SPN: u8 = 4; // class group requires it: written by the creation, never changed
const A_MEMBEROF: u8 = 5; // not replicated
const A_UUID: u8 = 8;
const A_SOURCE: u8 = 9;
const ATTRS: [u8; 8] = [A_CLASS, A_NAME, A_DESC, A_MEMBER, A_SPN, A_MEMBEROF, A_UUID, A_SOURCE];

#[derive(Clone, Debug, PartialEq, Eq)]
enum MSt {
    Live { at: MCid, changes: BTreeMap<u8, MCid>, attrs: BTreeMap<u8, u8> },
    Tomb { at: MCid },
}

fn cid_tok(c: &MCid) -> String {
    format!("{}:{}", c.0, c.1)
}

impl MSt {
    fn token(&self) -> String {
        match self {
            MSt::Tomb { at } => format!("T/{}", cid_tok(at)),
            MSt::Live { at, changes, attrs } => {
                let j = |v: Vec<String>| if v.is_empty() { "-".to_string() } else { v.join(";") };
                format!(
                    "L/{}/{}/{}",
                    cid_tok(at),
                    j(changes.iter().map(|(a, c)| format!("{a}={}", cid_tok(c))).collect()),
                    j(attrs.iter().map(|(a, v)| format!("{a}={v}")).collect())
                )
            }
        }
    }
    fn parse(s: &str) -> MSt {
        let p: Vec<&str> = s.split('/').collect();
        let cid = |t: &str| -> MCid {
            let q: Vec<&str> = t.split(':').collect();
            (q[0].parse().unwrap(), q[1].parse().unwrap())
        };
        match p[0] {
            "T" => MSt::Tomb { at: cid(p[1]) },
            "L" => {
                let mut changes = BTreeMap::new();
                let mut attrs = BTreeMap::new();
                if p[2] != "-" {
                    for it in p[2].split(';') {
                        let (a, c) = it.split_once('=').unwrap();
                        changes.insert(a.parse().unwrap(), cid(c));
                    }
                }
                if p[3] != "-" {
                    for it in p[3].split(';') {
                        let (a, v) = it.split_once('=').unwrap();
                        attrs.insert(a.parse().unwrap(), v.parse().unwrap());
                    }
                }
                MSt::Live { at: cid(p[1]), changes, attrs }
            }
            x => panic!("bad state {x}"),
        }
    }
    fn is_tomb(&self) -> bool {
        matches!(self, MSt::Tomb { .. })
    }
    fn at(&self) -> MCid {
        match self {
            MSt::Tomb { at } | MSt::Live { at, .. } => *at,
        }
    }
    /// replicated cells: attribute ↦ (cid, value or purged)
    fn cells(&self) -> BTreeMap<u8, (MCid, Option<u8>)> {
        match self {
            MSt::Tomb { .. } => BTreeMap::new(),
            MSt::Live { changes, attrs, .. } => changes.iter().filter(|(a, _)| **a != A_MEMBEROF).map(|(a, c)| (*a, (*c, attrs.get(a).copied()))).collect(),
        }
    }
    /// the replicated stratum: kind, at, cells
    fn view(&self) -> (bool, MCid, BTreeMap<u8, (MCid, Option<u8>)>) {
        (self.is_tomb(), self.at(), self.cells())
    }
}

// ---------------------------------------------------------------------------------------------
// abstract ↔ real
// ---------------------------------------------------------------------------------------------

fn entry_uuid() -> Uuid {
    nat_uuid(0x0800_0000_0001)
}

fn real_attr(a: u8) -> Attribute {
    match a {
        A_CLASS => Attribute::Class,
        A_NAME => Attribute::Name,
        A_DESC => Attribute::Description,
        A_MEMBER => Attribute::Member,
        A_MEMBEROF => Attribute::MemberOf,
        A_SPN => Attribute::Spn,
        A_UUID => Attribute::Uuid,
        A_SOURCE => Attribute::SourceUuid,
        x => panic!("attr {x}"),
    }
}

fn real_cid(c: &MCid) -> Cid {
    Cid { ts: Duration::from_secs(c.0), s_uuid: nat_uuid(c.1) }
}

fn abs_cid(c: &Cid) -> MCid {
    let sid = (1..=9u64).find(|s| nat_uuid(*s) == c.s_uuid).unwrap_or(99);
    if c.ts.subsec_nanos() != 0 {
        return (9_000_000 + c.ts.as_secs(), sid);
    }
    (c.ts.as_secs(), sid)
}

fn vs_of(vals: Vec<Value>) -> ValueSet {
    valueset::from_value_iter(vals.into_iter()).expect("from_value_iter")
}

/// the pool of values per attribute; the atom is the index
fn pool(a: u8) -> Vec<ValueSet> {
    let m = |i: u64| Value::Refer(nat_uuid(0x0800_0000_0100 + i));
    match a {
        A_CLASS => vec![
            vs_of(vec![EntryClass::Object.to_value(), EntryClass::Group.to_value()]),
            vs_of(vec![EntryClass::Object.to_value(), EntryClass::Group.to_value(), EntryClass::Recycled.to_value()]),
            vs_of(vec![EntryClass::Object.to_value(), EntryClass::Group.to_value(), EntryClass::Recycled.to_value(), EntryClass::Conflict.to_value()]),
        ],
        A_NAME => (0..3).map(|i| vs_of(vec![Value::new_iname(&format!("c08n{i}"))])).collect(),
        A_DESC => (0..3).map(|i| vs_of(vec![Value::new_utf8s(&format!("d{i}"))])).collect(),
        A_MEMBER | A_MEMBEROF => vec![vs_of(vec![m(0)]), vs_of(vec![m(1)]), vs_of(vec![m(0), m(1)])],
        A_SPN => vec![vs_of(vec![Value::new_spn_str("c08", "example.com")])],
        A_UUID => vec![vs_of(vec![Value::Uuid(entry_uuid())])],
        A_SOURCE => vec![vs_of(vec![Value::Uuid(entry_uuid())])],
        x => panic!("attr {x}"),
    }
}

fn vs_key(vs: &ValueSet) -> Vec<String> {
    let mut v: Vec<String> = vs.to_proto_string_clone_iter().collect();
    v.sort();
    v
}

struct World {
    pools: BTreeMap<u8, Vec<(ValueSet, Vec<String>)>>,
}

impl World {
    fn new() -> World {
        World { pools: ATTRS.iter().map(|a| (*a, pool(*a).into_iter().map(|v| { let k = vs_key(&v); (v, k) }).collect())).collect() }
    }
    fn value(&self, a: u8, v: u8) -> ValueSet {
        self.pools[&a][v as usize].0.clone()
    }
    /// atom of a real value; a uuid other than the entry's is atom 1 ("fresh"), anything unknown 99
    fn atom(&self, a: u8, vs: &ValueSet) -> u8 {
        let k = vs_key(vs);
        if let Some(i) = self.pools[&a].iter().position(|(_, pk)| *pk == k) {
            return i as u8;
        }
        if a == A_UUID && vs.len() == 1 { 1 } else { 99 }
    }
    fn spec(&self, m: &MSt) -> hk::Spec {
        match m {
            MSt::Tomb { at } => {
                let mut extra = BTreeMap::new();
                extra.insert(Attribute::Uuid, vs_of(vec![Value::Uuid(entry_uuid())]));
                extra.insert(Attribute::Class, vs_of(vec![EntryClass::Object.to_value(), EntryClass::Tombstone.to_value()]));
                extra.insert(Attribute::LastModifiedCid, vs_of(vec![Value::Cid(real_cid(at))]));
                extra.insert(Attribute::CreatedAtCid, vs_of(vec![Value::Cid(real_cid(at))]));
                hk::Spec { uuid: entry_uuid(), live: false, at: real_cid(at), cells: BTreeMap::new(), extra }
            }
            MSt::Live { at, changes, attrs } => {
                let mut cells = BTreeMap::new();
                let mut extra = BTreeMap::new();
                for (a, c) in changes {
                    cells.insert(real_attr(*a), (real_cid(c), attrs.get(a).map(|v| self.value(*a, *v))));
                }
                for (a, v) in attrs {
                    if !changes.contains_key(a) {
                        extra.insert(real_attr(*a), self.value(*a, *v));
                    }
                }
                // what `seal` writes on every committed entry
                let lm = changes.values().max().copied().unwrap_or(*at);
                extra.insert(Attribute::LastModifiedCid, vs_of(vec![Value::Cid(real_cid(&lm))]));
                extra.insert(Attribute::CreatedAtCid, vs_of(vec![Value::Cid(real_cid(at))]));
                hk::Spec { uuid: entry_uuid(), live: true, at: real_cid(at), cells, extra }
            }
        }
    }
    fn abs(&self, s: &hk::Spec) -> MSt {
        if !s.live {
            return MSt::Tomb { at: abs_cid(&s.at) };
        }
        let mut changes = BTreeMap::new();
        let mut attrs = BTreeMap::new();
        let abs_attr = |a: &Attribute| ATTRS.iter().copied().find(|x| real_attr(*x) == *a);
        for (a, (c, v)) in &s.cells {
            let k = abs_attr(a).unwrap_or(77);
            changes.insert(k, abs_cid(c));
            if let Some(v) = v {
                attrs.insert(k, if k == 77 { 99 } else { self.atom(k, v) });
            }
        }
        for (a, v) in &s.extra {
            if *a == Attribute::LastModifiedCid || *a == Attribute::CreatedAtCid {
                continue;
            }
            let k = abs_attr(a).unwrap_or(77);
            attrs.insert(k, if k == 77 { 99 } else { self.atom(k, v) });
        }
        MSt::Live { at: abs_cid(&s.at), changes, attrs }
    }
}

fn last_mod(e: &EntrySealedCommitted) -> Option<MCid> {
    e.get_ava_set(Attribute::LastModifiedCid).and_then(|vs| vs.to_cid_single()).map(|c| abs_cid(&c))
}

// ---------------------------------------------------------------------------------------------
// the implementation side
// ---------------------------------------------------------------------------------------------

struct Impl<'a> {
    w: &'a World,
    schema: &'a SchemaReadTransaction,
    trim: Cid,
}

type Ranges = BTreeMap<u64, (u64, u64)>;

fn full_ranges() -> Ranges {
    (1..=9u64).map(|s| (s, (0, 1_000_000))).collect()
}

fn real_ranges(r: &Ranges) -> BTreeMap<Uuid, (Duration, Duration)> {
    r.iter().map(|(s, (lo, hi))| (nat_uuid(*s), (Duration::from_secs(*lo), Duration::from_secs(*hi)))).collect()
}

fn ranges_tok(r: &Ranges) -> String {
    if r.is_empty() { "-".into() } else { r.iter().map(|(s, (lo, hi))| format!("{s}:{lo}:{hi}")).collect::<Vec<_>>().join(",") }
}

struct Applied {
    conflict: bool,
    copy: Option<MSt>,
    ent: EntrySealedCommitted,
    st: MSt,
    last_mod: Option<MCid>,
}

impl<'a> Impl<'a> {
    fn db(&self, m: &MSt) -> EntrySealedCommitted {
        hk::db_entry(&self.w.spec(m), 7).expect("from_dbentry")
    }
    /// the wire form of `e` restricted to `rg`, as the consumer sees it
    fn delta_state(&self, e: &EntrySealedCommitted, rg: &Ranges) -> MSt {
        // rehydrated incoming entries cannot be dumped (crate-private change state); rebuild the view
        // from the wire JSON: {"uuid":..,"st":{"Live":{"at":{..},"attrs":{name:{"cid":{..},"attr":..}}}}}
        let (_, wire) = hk::incoming(e, self.schema, &real_ranges(rg)).expect("incoming");
        let v: J = serde_json::from_str(&wire).expect("wire json");
        let st = &v["st"];
        let cid = |c: &J| -> MCid {
            let d = &c["t"];
            let secs = d["secs"].as_u64().unwrap();
            let nanos = d["nanos"].as_u64().unwrap();
            let su: Uuid = c["s"].as_str().unwrap().parse().unwrap();
            let sid = (1..=9u64).find(|s| nat_uuid(*s) == su).unwrap_or(99);
            (if nanos != 0 { 9_000_000 + secs } else { secs }, sid)
        };
        if let Some(t) = st.get("Tombstone") {
            return MSt::Tomb { at: cid(&t["at"]) };
        }
        let l = &st["Live"];
        let full = self.w.abs(&hk::dump(e));
        let MSt::Live { attrs: full_attrs, .. } = &full else { panic!("live wire for a tombstone") };
        let mut changes = BTreeMap::new();
        let mut attrs = BTreeMap::new();
        for (name, stv) in l["attrs"].as_object().unwrap() {
            let a = ATTRS.iter().copied().find(|x| real_attr(*x).as_str() == name).unwrap_or(77);
            changes.insert(a, cid(&stv["cid"]));
            if !stv["attr"].is_null() {
                // the value travels unchanged (C12's subject); take its atom from the entry
                attrs.insert(a, full_attrs.get(&a).copied().unwrap_or(99));
            }
        }
        MSt::Live { at: cid(&l["at"]), changes, attrs }
    }
    /// `incoming` applied on `db` under transaction cid `txn`, as the consumer does
    fn apply_ent(&self, inc_src: &EntrySealedCommitted, rg: &Ranges, db: &EntrySealedCommitted, txn: &MCid) -> Applied {
        let (inc, _) = hk::incoming(inc_src, self.schema, &real_ranges(rg)).expect("incoming");
        let conflict = hk::is_add_conflict(&inc, db);
        if conflict {
            let (copy, ent) = hk::resolve_add_conflict(&inc, &real_cid(txn), db, self.schema);
            let st = self.w.abs(&hk::dump(&ent));
            Applied { conflict, copy: copy.map(|c| self.w.abs(&c)), last_mod: last_mod(&ent), ent, st }
        } else {
            let ent = hk::merge_state(&inc, db, self.schema, &self.trim);
            let st = self.w.abs(&hk::dump(&ent));
            Applied { conflict, copy: None, last_mod: last_mod(&ent), ent, st }
        }
    }
    fn apply(&self, inc: &MSt, db: &MSt, txn: &MCid) -> Applied {
        self.apply_ent(&self.db(inc), &full_ranges(), &self.db(db), txn)
    }
}

// ---------------------------------------------------------------------------------------------
// generators
// ---------------------------------------------------------------------------------------------

/// A family of coherent states of one entry: one write log `(attr, cid) ↦ value` from which every
/// member draws its cells (H_cid_unique holds by construction), common creation cid.
struct Family {
    at: MCid,
    log: BTreeMap<(u8, MCid), Option<u8>>,
}

fn gen_cid(r: &mut Rng, lo: u64) -> MCid {
    (r.range(lo, lo + 4), r.range(1, 3))
}

impl Family {
    fn new(r: &mut Rng) -> Family {
        Family { at: (r.range(1, 2), r.range(1, 3)), log: BTreeMap::new() }
    }
    fn cell(&mut self, r: &mut Rng, a: u8) -> (MCid, Option<u8>) {
        // the creation writes every attribute it sets; later writes are at or after `at`
        let c = if r.chance(1, 3) { self.at } else { gen_cid(r, self.at.0) };
        let c = if c < self.at { self.at } else { c };
        let npool = pool_len(a);
        let v = *self.log.entry((a, c)).or_insert_with(|| if a != A_CLASS && a != A_UUID && r.chance(1, 4) { None } else { Some(r.below(npool) as u8) });
        (c, v)
    }
    fn member(&mut self, r: &mut Rng) -> MSt {
        if r.chance(1, 8) {
            return MSt::Tomb { at: gen_cid(r, self.at.0 + 1) };
        }
        let mut changes = BTreeMap::new();
        let mut attrs = BTreeMap::new();
        // uuid and class are written by the creation; class may be rewritten later (recycle)
        changes.insert(A_UUID, self.at);
        attrs.insert(A_UUID, 0);
        changes.insert(A_SPN, self.at);
        attrs.insert(A_SPN, 0);
        for a in [A_CLASS, A_NAME, A_DESC, A_MEMBER] {
            if a == A_CLASS || r.chance(3, 4) {
                let (c, v) = self.cell(r, a);
                changes.insert(a, c);
                if let Some(v) = v {
                    attrs.insert(a, v);
                }
            }
        }
        // derived membership: a value without a change cid (what a sealed entry holds) …
        if r.chance(1, 3) {
            attrs.insert(A_MEMBEROF, r.below(3) as u8);
            // … or, rarely, with one (an unsealed change state; `retain` must drop it)
            if r.chance(1, 4) {
                changes.insert(A_MEMBEROF, gen_cid(r, self.at.0));
            }
        }
        MSt::Live { at: self.at, changes, attrs }
    }
}

fn pool_len(a: u8) -> u64 {
    match a {
        A_CLASS => 2, // the generator keeps `conflict` for copies
        A_UUID | A_SOURCE | A_SPN => 1,
        _ => 3,
    }
}

// ---------------------------------------------------------------------------------------------
// checks
// ---------------------------------------------------------------------------------------------

struct Ctx<'a> {
    im: Impl<'a>,
    drv: Driver,
    rep: Report,
    model_fails: u64,
}

const NR: &str = "5";

impl<'a> Ctx<'a> {
    fn fail(&mut self, kind: &str, class: &str, input: J, expected: String, observed: String) {
        if kind == "impl-vs-model" {
            self.model_fails += 1;
            if self.model_fails > 5 {
                self.rep.count("model-disagreements-not-recorded");
                return;
            }
        }
        self.rep.fail(Failure { kind: kind.into(), class: class.into(), input, expected, observed });
    }

    /// oracle for one application, from the property text
    fn oracle_pair(&mut self, inc: &MSt, db: &MSt, txn: &MCid, ap: &Applied, input: &J) {
        let exp: Option<(String, String)> = (|| {
            match (inc, db) {
                (MSt::Tomb { at: a }, MSt::Tomb { at: b }) => {
                    let want = *a.min(b);
                    if ap.st != (MSt::Tomb { at: want }) {
                        return Some(("tombstone-at".to_string(), format!("tombstone at {}", cid_tok(&want))));
                    }
                }
                (MSt::Tomb { at }, _) | (_, MSt::Tomb { at }) => {
                    if ap.st != (MSt::Tomb { at: *at }) {
                        return Some(("tombstone-not-dominant".to_string(), format!("tombstone at {}", cid_tok(at))));
                    }
                }
                (MSt::Live { at: al, .. }, MSt::Live { at: ar, .. }) if al != ar => {
                    // the same uuid created twice: the earlier creation survives as it is
                    let (winner, copy_here) = if al < ar { (inc, ar.1 == txn.1) } else { (db, false) };
                    if !ap.conflict {
                        return Some(("uuid-clash-not-detected".to_string(), "conflict".to_string()));
                    }
                    if ap.st.view() != winner.view() {
                        return Some(("uuid-clash-wrong-survivor".to_string(), format!("survivor {}", winner.token())));
                    }
                    if ap.copy.is_some() != copy_here {
                        return Some(("uuid-clash-copy-placement".to_string(), format!("conflict copy written here: {copy_here}")));
                    }
                }
                (MSt::Live { at, .. }, MSt::Live { .. }) => {
                    if ap.conflict {
                        return Some(("spurious-conflict".to_string(), "no conflict for one creation".to_string()));
                    }
                    if ap.st.is_tomb() || ap.st.at() != *at {
                        return Some(("live-merge-kind".to_string(), format!("live entry created at {}", cid_tok(at))));
                    }
                    let (cl, cr, got) = (inc.cells(), db.cells(), ap.st.cells());
                    for a in ATTRS {
                        if a == A_MEMBEROF {
                            continue;
                        }
                        let want = match (cl.get(&a), cr.get(&a)) {
                            (Some(x), Some(y)) => Some(if x.0 > y.0 { *x } else { *y }),
                            (Some(x), None) => Some(*x),
                            (None, Some(y)) => Some(*y),
                            (None, None) => None,
                        };
                        // equal cids with different values are outside the property's premise
                        if let (Some(x), Some(y)) = (cl.get(&a), cr.get(&a)) {
                            if x.0 == y.0 && x.1 != y.1 {
                                continue;
                            }
                        }
                        if got.get(&a).copied() != want {
                            return Some(("lww-attribute".to_string(), format!("attribute {a}: {want:?}")));
                        }
                    }
                }
            }
            None
        })();
        if let Some((class, expected)) = exp {
            self.fail("impl-vs-oracle", &class, input.clone(), expected, format!("written {} (conflict {}, copy {:?})", ap.st.token(), ap.conflict, ap.copy.as_ref().map(|c| c.token())));
        }
    }

    /// correspondence for one application
    fn model_pair(&mut self, inc: &MSt, db: &MSt, txn: &MCid, ap: &Applied, input: &J) {
        // what travels: the replicated attribute states (full ranges)
        let ti = self.drv.ask(&format!("delta {NR} {} {}", ranges_tok(&full_ranges()), inc.token()));
        let td = db.token();
        let reqs = vec![format!("conflict {ti} {td}"), format!("apply {NR} {} {ti} {td}", cid_tok(txn)), format!("merge {NR} {ti} {td}")];
        let rs = self.drv.ask_batch(&reqs);
        let m_conf = rs[0] == "1";
        if m_conf != ap.conflict {
            self.fail("impl-vs-model", "conflict-flag", input.clone(), format!("model: {}", rs[0]), format!("implementation: {}", ap.conflict));
            return;
        }
        if rs[1] != ap.st.token() {
            self.fail("impl-vs-model", "applied-state", input.clone(), format!("model: {}", rs[1]), format!("implementation: {}", ap.st.token()));
            return;
        }
        if !ap.conflict {
            let lm = rs[2].rsplit("lastmod=").next().unwrap_or("").to_string();
            let got = ap.last_mod.map(|c| cid_tok(&c)).unwrap_or("none".into());
            if lm != got {
                self.fail("impl-vs-model", "last-modified", input.clone(), format!("model: {lm}"), format!("implementation: {got}"));
                return;
            }
        } else if let (MSt::Live { .. }, MSt::Live { .. }) = (inc, db) {
            let r = self.drv.ask(&format!("resolve {} {ti} {td}", cid_tok(txn)));
            let m_copy = r.starts_with("copy=1");
            if m_copy != ap.copy.is_some() {
                self.fail("impl-vs-model", "copy-flag", input.clone(), format!("model: {r}"), format!("implementation: copy {:?}", ap.copy.as_ref().map(|c| c.token())));
                return;
            }
            if let Some(c) = &ap.copy {
                let m = self.drv.ask(&format!("copy {} {A_SOURCE} {A_UUID} {A_CLASS} 2 1 0 {td}", cid_tok(txn)));
                // the copy carries last-modified / created-at as value-only attributes too; the model lists the merged ones
                if m != c.token() {
                    self.fail("impl-vs-model", "copy-content", input.clone(), format!("model: {m}"), format!("implementation: {}", c.token()));
                }
            }
        }
    }

    fn pair_case(&mut self, inc: &MSt, db: &MSt, txn: &MCid, coherent: bool, key: Option<String>) {
        let input = json!({ "kind": "pair", "incoming": inc.token(), "db": db.token(), "txn": cid_tok(txn), "coherent": coherent });
        let ap = match std::panic::catch_unwind(std::panic::AssertUnwindSafe(|| self.im.apply(inc, db, txn))) {
            Ok(a) => a,
            Err(_) => {
                self.fail("impl-vs-oracle", "panic", input, "no panic".into(), "apply panicked".into());
                self.rep.case(None);
                return;
            }
        };
        self.model_pair(inc, db, txn, &ap, &input);
        if coherent {
            self.oracle_pair(inc, db, txn, &ap, &input);
            // either direction gives the same replicated state
            let back = self.im.apply(db, inc, txn);
            if back.st.view() != ap.st.view() {
                self.fail("impl-vs-oracle", "order-dependent", input.clone(), format!("db←incoming {}", ap.st.token()), format!("incoming←db {}", back.st.token()));
            }
            // receiving the result again changes nothing
            let again = self.im.apply_ent(&ap.ent, &full_ranges(), &ap.ent, txn);
            if again.st.view() != ap.st.view() || again.conflict {
                self.fail("impl-vs-oracle", "not-idempotent", input.clone(), ap.st.token(), again.st.token());
            }
        }
        let kind = match (inc, db) {
            (MSt::Tomb { .. }, MSt::Tomb { .. }) => "tomb-tomb",
            (MSt::Tomb { .. }, _) => "tomb-live",
            (_, MSt::Tomb { .. }) => "live-tomb",
            _ if ap.conflict => "uuid-clash",
            _ => "live-live",
        };
        self.rep.count(&format!("pair:{kind}"));
        if ap.copy.is_some() {
            self.rep.count("pair:conflict-copy-written");
        }
        self.rep.case(key);
    }

    /// three states, every order and grouping
    fn triple_case(&mut self, xs: &[MSt; 3], txn: &MCid, key: Option<String>) {
        let input = json!({ "kind": "triple", "states": xs.iter().map(|x| x.token()).collect::<Vec<_>>(), "txn": cid_tok(txn) });
        let ents: Vec<EntrySealedCommitted> = xs.iter().map(|x| self.im.db(x)).collect();
        let fr = full_ranges();
        let perms = [[0, 1, 2], [0, 2, 1], [1, 0, 2], [1, 2, 0], [2, 0, 1], [2, 1, 0]];
        let mut results: Vec<(String, MSt)> = vec![];
        let mut model_reqs = vec![];
        for p in perms {
            // (p0 → p1) → p2   and   p0 → (p1 → p2)      (`x → y`: x incoming, y in the database)
            let ab = self.im.apply_ent(&ents[p[0]], &fr, &ents[p[1]], txn);
            let left = self.im.apply_ent(&ab.ent, &fr, &ents[p[2]], txn);
            results.push((format!("({}→{})→{}", p[0], p[1], p[2]), left.st.clone()));
            let bc = self.im.apply_ent(&ents[p[1]], &fr, &ents[p[2]], txn);
            let right = self.im.apply_ent(&ents[p[0]], &fr, &bc.ent, txn);
            results.push((format!("{}→({}→{})", p[0], p[1], p[2]), right.st.clone()));
            model_reqs.push((format!("apply {NR} {} {} {}", cid_tok(txn), xs[p[0]].token(), xs[p[1]].token()), ab.st.token()));
            model_reqs.push((format!("apply {NR} {} {} {}", cid_tok(txn), ab.st.token(), xs[p[2]].token()), left.st.token()));
            model_reqs.push((format!("apply {NR} {} {} {}", cid_tok(txn), xs[p[0]].token(), bc.st.token()), right.st.token()));
        }
        let first = results[0].1.view();
        if let Some((lbl, st)) = results.iter().find(|(_, s)| s.view() != first) {
            self.fail("impl-vs-oracle", "order-or-grouping-dependent", input.clone(), format!("{} gives {}", results[0].0, results[0].1.token()), format!("{lbl} gives {}", st.token()));
        }
        // the model sees what travels: each incoming state goes through `delta` (full ranges) first
        let fr_tok = ranges_tok(&full_ranges());
        let wire_reqs: Vec<String> = model_reqs.iter().map(|(q, _)| {
            let p: Vec<&str> = q.split(' ').collect();
            format!("delta {NR} {fr_tok} {}", p[3])
        }).collect();
        let wires = self.drv.ask_batch(&wire_reqs);
        let final_reqs: Vec<String> = model_reqs.iter().zip(wires.iter()).map(|((q, _), w)| {
            let p: Vec<&str> = q.split(' ').collect();
            format!("apply {NR} {} {w} {}", p[2], p[4])
        }).collect();
        let replies = self.drv.ask_batch(&final_reqs);
        for (((_, want), got), q) in model_reqs.iter().zip(replies.iter()).zip(final_reqs.iter()) {
            if want != got {
                self.fail("impl-vs-model", "applied-state", input.clone(), format!("model `{q}`: {got}"), format!("implementation: {want}"));
                break;
            }
        }
        let tombs = xs.iter().filter(|x| x.is_tomb()).count();
        self.rep.count(&format!("triple:{tombs}-tombstones"));
        self.rep.case(key);
    }

    /// the range filter
    fn delta_case(&mut self, sup: &MSt, con: &MSt, rg: &Ranges, txn: &MCid, key: Option<String>) {
        let input = json!({ "kind": "delta", "supplier": sup.token(), "consumer": con.token(), "ranges": ranges_tok(rg), "txn": cid_tok(txn) });
        let se = self.im.db(sup);
        let ce = self.im.db(con);
        let wire = self.im.delta_state(&se, rg);
        let m = self.drv.ask(&format!("delta {NR} {} {}", ranges_tok(rg), sup.token()));
        if m != wire.token() {
            self.fail("impl-vs-model", "wire-delta", input.clone(), format!("model: {m}"), format!("implementation: {}", wire.token()));
        }
        // oracle, wire: exactly the replicated attribute states whose cid lies in (lo, hi] of its origin
        if let (MSt::Live { changes, .. }, MSt::Live { changes: wc, .. }) = (sup, &wire) {
            for (a, c) in changes {
                let want = *a != A_MEMBEROF && rg.get(&c.1).map(|(lo, hi)| c.0 > *lo && c.0 <= *hi).unwrap_or(false);
                if wc.contains_key(a) != want {
                    self.fail("impl-vs-oracle", "range-filter", input.clone(), format!("attribute {a} (cid {}) sent: {want}", cid_tok(c)), format!("wire {}", wire.token()));
                    break;
                }
            }
        }
        let part = self.im.apply_ent(&se, rg, &ce, txn);
        let whole = self.im.apply_ent(&se, &full_ranges(), &ce, txn);
        let m2 = self.drv.ask(&format!("apply {NR} {} {} {}", cid_tok(txn), wire.token(), con.token()));
        if m2 != part.st.token() {
            self.fail("impl-vs-model", "applied-state", input.clone(), format!("model: {m2}"), format!("implementation: {}", part.st.token()));
        }
        // dominated: every unsent cell of the supplier is matched by a consumer cell that is not older
        let dominated = match (sup, con) {
            (MSt::Live { .. }, MSt::Live { .. }) => {
                let (sc, cc) = (sup.cells(), con.cells());
                let sent: BTreeMap<u8, MCid> = match &wire { MSt::Live { changes, .. } => changes.clone(), _ => BTreeMap::new() };
                sc.iter().all(|(a, (c, v))| sent.contains_key(a) || cc.get(a).map(|(c2, v2)| c2 > c || (c2 == c && v2 == v)).unwrap_or(false))
            }
            _ => true,
        };
        if dominated && !part.conflict {
            self.rep.count("delta:consumer-dominates-unsent");
            if part.st.view() != whole.st.view() {
                self.fail("impl-vs-oracle", "delta-insufficient", input.clone(), format!("whole entry gives {}", whole.st.token()), format!("delta gives {}", part.st.token()));
            }
        } else {
            self.rep.count("delta:not-dominated");
        }
        self.rep.case(key);
    }
}

// ---------------------------------------------------------------------------------------------
// main
// ---------------------------------------------------------------------------------------------

fn gen_ranges(r: &mut Rng) -> Ranges {
    let mut rg = Ranges::new();
    for s in 1..=3u64 {
        if r.chance(4, 5) {
            let lo = r.below(5);
            rg.insert(s, (lo, lo + r.below(5)));
        }
    }
    rg
}

fn exhaustive_cells() -> Vec<Option<(MCid, Option<u8>)>> {
    let mut v = vec![None];
    for c in [(2, 1), (2, 2), (3, 1)] {
        v.push(Some((c, None)));
        v.push(Some((c, Some(0))));
        v.push(Some((c, Some(1))));
    }
    v
}

fn main() {
    if std::env::var_os("RUST_LOG").is_none() {
        std::env::set_var("RUST_LOG", "off");
    }
    let args = Args::parse();
    let rt = tokio::runtime::Builder::new_current_thread().enable_all().build().unwrap();
    let qs = rt.block_on(setup_test(TestConfiguration::default()));
    let mut txn = rt.block_on(qs.read()).expect("read");
    let schema = txn.get_schema();
    let world = World::new();
    let mut ctx = Ctx {
        im: Impl { w: &world, schema, trim: Cid { ts: Duration::from_secs(0), s_uuid: nat_uuid(1) } },
        drv: Driver::spawn(&args.driver),
        rep: Report::new(
            "repl-merge",
            "entry states of one uuid (creation cid, per attribute change cid + value or purged over class/name/description/member/uuid, value-only \
             memberof, tombstones; cids from 5 timestamps x 3 servers incl. ties) applied through the real ReplIncrementalEntryV1::new / rehydrate / \
             is_add_conflict / resolve_add_conflict / merge_state / validate_repl / seal: pairs (both directions, re-application), triples (12 orders \
             and groupings), range-restricted deltas; one-attribute pairs exhaustively; non-trivial = both sides live with at least one attribute \
             carrying different cids, or a tombstone, or a uuid clash, or a delta that drops at least one attribute state; distinct = distinct tokens",
        ),
        model_fails: 0,
    };
    if let Some(path) = &args.replay {
        let v: J = serde_json::from_str(&std::fs::read_to_string(path).unwrap()).unwrap();
        let i = &v["input"];
        let cid = |t: &str| -> MCid {
            let q: Vec<&str> = t.split(':').collect();
            (q[0].parse().unwrap(), q[1].parse().unwrap())
        };
        let txn_c = cid(i["txn"].as_str().unwrap());
        match i["kind"].as_str().unwrap() {
            "pair" => ctx.pair_case(&MSt::parse(i["incoming"].as_str().unwrap()), &MSt::parse(i["db"].as_str().unwrap()), &txn_c, i["coherent"].as_bool().unwrap_or(true), None),
            "triple" => {
                let s: Vec<MSt> = i["states"].as_array().unwrap().iter().map(|x| MSt::parse(x.as_str().unwrap())).collect();
                ctx.triple_case(&[s[0].clone(), s[1].clone(), s[2].clone()], &txn_c, None)
            }
            "delta" => {
                let mut rg = Ranges::new();
                let rt = i["ranges"].as_str().unwrap();
                if rt != "-" {
                    for it in rt.split(',') {
                        let q: Vec<u64> = it.split(':').map(|x| x.parse().unwrap()).collect();
                        rg.insert(q[0], (q[1], q[2]));
                    }
                }
                ctx.delta_case(&MSt::parse(i["supplier"].as_str().unwrap()), &MSt::parse(i["consumer"].as_str().unwrap()), &rg, &txn_c, None)
            }
            k => panic!("bad kind {k}"),
        }
        ctx.rep.model_requests = ctx.drv.requests;
        ctx.rep.write(&args.out);
        println!("c08 replay: {} failures", ctx.rep.failures.len());
        return;
    }

    // ---- exhaustive: one attribute (description), every pair of cells, both creation orders
    let cells = exhaustive_cells();
    for (i, l) in cells.iter().enumerate() {
        for (j, r) in cells.iter().enumerate() {
            // one cid names one write
            if let (Some((cl, vl)), Some((cr, vr))) = (l, r) {
                if cl == cr && vl != vr {
                    continue;
                }
            }
            let mk = |c: &Option<(MCid, Option<u8>)>| {
                let mut changes = BTreeMap::new();
                let mut attrs = BTreeMap::new();
                changes.insert(A_UUID, (1, 1));
                attrs.insert(A_UUID, 0);
                changes.insert(A_CLASS, (1, 1));
                attrs.insert(A_CLASS, 0);
                changes.insert(A_SPN, (1, 1));
                attrs.insert(A_SPN, 0);
                if let Some((cid, v)) = c {
                    changes.insert(A_DESC, *cid);
                    if let Some(v) = v {
                        attrs.insert(A_DESC, *v);
                    }
                }
                MSt::Live { at: (1, 1), changes, attrs }
            };
            ctx.pair_case(&mk(l), &mk(r), &(9, 1), true, if l != r { Some(format!("x{i}/{j}")) } else { None });
            ctx.rep.count("pair:exhaustive-one-attribute");
        }
    }

    // ---- random pairs
    let n_pairs = args.cases(2500, 60_000);
    for c in 0..n_pairs {
        let mut r = Rng::for_case(args.seed, c);
        let mut fam = Family::new(&mut r);
        let a = fam.member(&mut r);
        // sometimes another creation of the same uuid
        let b = if r.chance(1, 6) {
            let mut other = Family::new(&mut r);
            if other.at == fam.at {
                other.at = (fam.at.0 + 1, fam.at.1);
            }
            other.member(&mut r)
        } else {
            fam.member(&mut r)
        };
        let txn_c: MCid = (9, r.range(1, 3));
        let nontrivial = a.is_tomb() || b.is_tomb() || a.at() != b.at() || {
            let (x, y) = (a.cells(), b.cells());
            x.iter().any(|(k, (c, _))| y.get(k).map(|(c2, _)| c2 != c).unwrap_or(true))
        };
        ctx.pair_case(&a, &b, &txn_c, true, if nontrivial { Some(format!("p{}|{}|{}", a.token(), b.token(), txn_c.1)) } else { None });
    }
    // ---- outside the premise (one cid, two values): model only
    for c in 0..args.cases(200, 3000) {
        let mut r = Rng::for_case(args.seed, 5_000_000 + c);
        let mut f1 = Family::new(&mut r);
        let a = f1.member(&mut r);
        let mut f2 = Family { at: f1.at, log: BTreeMap::new() };
        let b = f2.member(&mut r);
        ctx.pair_case(&a, &b, &(9, 1), false, None);
        ctx.rep.count("pair:premise-violated-model-only");
    }
    // ---- triples
    let n_tr = args.cases(400, 8000);
    for c in 0..n_tr {
        let mut r = Rng::for_case(args.seed, 1_000_000 + c);
        let mut fam = Family::new(&mut r);
        let xs = [fam.member(&mut r), fam.member(&mut r), fam.member(&mut r)];
        let key = format!("t{}|{}|{}", xs[0].token(), xs[1].token(), xs[2].token());
        ctx.triple_case(&xs, &(9, r.range(1, 3)), Some(key));
    }
    // ---- deltas
    let n_d = args.cases(1500, 30_000);
    for c in 0..n_d {
        let mut r = Rng::for_case(args.seed, 2_000_000 + c);
        let mut fam = Family::new(&mut r);
        let sup = fam.member(&mut r);
        // the consumer: an older or unrelated member, or the stub of an entry it has never seen
        let con = if r.chance(1, 5) {
            match &sup {
                MSt::Live { at, .. } => MSt::Live { at: *at, changes: BTreeMap::new(), attrs: BTreeMap::new() },
                MSt::Tomb { at } => MSt::Tomb { at: *at },
            }
        } else {
            fam.member(&mut r)
        };
        // stubs have no uuid attribute in the database form: give them one as a value-only attribute
        let con = match con {
            MSt::Live { at, changes, mut attrs } => {
                attrs.entry(A_UUID).or_insert(0);
                MSt::Live { at, changes, attrs }
            }
            t => t,
        };
        // a delta that lacks spn or class would be merged into a schema-invalid entry on a stub (the
        // consumer then parks it as a conflict): that path is driven by the repl-sim stream
        let stub = matches!(&con, MSt::Live { changes, .. } if changes.is_empty());
        let rg = if stub || r.chance(1, 6) { full_ranges() } else { gen_ranges(&mut r) };
        let drops = match &sup {
            MSt::Live { changes, .. } => changes.iter().any(|(a, c)| *a != A_MEMBEROF && !rg.get(&c.1).map(|(lo, hi)| c.0 > *lo && c.0 <= *hi).unwrap_or(false)),
            _ => false,
        };
        let key = format!("d{}|{}|{}", sup.token(), con.token(), ranges_tok(&rg));
        ctx.delta_case(&sup, &con, &rg, &(9, r.range(1, 3)), if drops { Some(key) } else { None });
    }
    ctx.rep.model_requests = ctx.drv.requests;
    ctx.rep.sample(json!({ "pair": { "incoming": "L/1:1/0=1:1;2=4:2;8=1:1/0=0;8=0", "db": "L/1:1/0=1:1;2=3:3;8=1:1/0=0;2=1;8=0" } }));
    ctx.rep.write(&args.out);
    println!("c08: {} cases, {} non-trivial, {} failures, {} model requests", ctx.rep.evaluations, ctx.rep.nontrivial_keys.len(), ctx.rep.failures.len(), ctx.rep.model_requests);
}
