//! C13 — backup then restore reproduces the database.
//!
//! Stream `backup-rt`. A real file-backed server A (`Backend::new` on a SQLite file, `QueryServer::new`,
//! `initialise_helper`) is driven through a random history: persons with credentials (imported hashes, TOTP),
//! ssh keys, mail, sessions; groups with members; service accounts with api tokens; later modifications and
//! purges of attributes; deletes (recycle bin), revives, ageing + `purge_recycled` (tombstones), ageing +
//! `purge_tombstones` (reap + RUV trim), renewal of the replication key handle, restarts, and entries that
//! arrive by replication from a second server (conflict entries). At every `check` op of the history
//!
//!  * `BackendTransaction::backup` writes a plain and a gzip backup FILE from a read transaction of A;
//!    the gzip file is decompressed with the system `gzip` and must hold exactly the plain file's document;
//!  * each is restored the way `restore_server_core` does it (`restore(..).and_then(commit)`, then `reindex`)
//!    into a FRESH file-backed backend B — or, sometimes, into the backend restored at the previous check;
//!  * oracle (property text only): B's `id2entry` rows are A's rows (same JSON document), in A's id order,
//!    renumbered from 1; `db_sid`, `db_did`, `db_op_ts`, `keyhandles` and the `ruv` table are equal; after
//!    reopening B the in-memory RUV has A's cids and A's ranges and each cid lists exactly the restored
//!    entries whose change state mentions it; `verify` / `verify_indexes` / `verify_ruv` report nothing;
//!    then a server is started on B (`QueryServer::new`, `initialise_helper`, `reindex`) and the server-level
//!    `verify` is empty, every entry (live, recycled, tombstone) reads back equal by uuid, every index and
//!    name table equals A's up to the id renumbering, and a battery of searches answers with the same
//!    entries in the same order;
//!  * refusals: the same document with another `version`, without `version` (V4), without `repl_meta` (V3),
//!    without `keyhandles` (V2), as a bare entry array (V1), truncated files, a flipped byte in the gzip
//!    stream, the wrong compression, an empty file — restored into the already restored B: each must fail
//!    (or, for a gzip flip that still decodes, restore the identical content) and leave the database file,
//!    the in-memory RUV and the id cache exactly as they were;
//!  * correspondence: the abstracted state of A, the parsed document, the state of B before and after are
//!    given to the Lean driver (`backup`, `server`, `reload`) and the replies compared.
use hlib::*;
use kanidm_lib_crypto::Password;
use kanidm_proto::backup::BackupCompression;
use kanidm_proto::internal::FsType;
use kanidmd_lib::be::{Backend, BackendConfig, BackendTransaction};
use kanidmd_lib::credential::totp::{Totp, TotpAlgo, TotpDigits};
use kanidmd_lib::entry::{Entry, EntryInit, EntryNew};
use kanidmd_lib::event::ReviveRecycledEvent;
use kanidmd_lib::filter::{f_eq, Filter, FC};
use kanidmd_lib::prelude::*;
use kanidmd_lib::repl::proto::ConsumerState;
use kanidmd_lib::schema::Schema;
use kanidmd_lib::value::{ApiToken, ApiTokenScope, AuthType, Session, SessionExtMetadata, SessionScope, SessionState};
use kanidmd_lib::verif_hooks::{c12 as hk12, c13 as hk};
use serde_json::{json, Value as J};
use std::collections::{BTreeMap, BTreeSet};
use std::io::Write;
use std::path::{Path, PathBuf};
use time::OffsetDateTime;

include!("../c12_data/pwvectors.rs");
include!("../c12_data/sshkeys.rs");

/// `KANIDM_PKG_SERIES` = major.minor of the workspace version, read from the tree the harness is built against
/// (the oracle's own source of the server version; the implementation compiles it in through `env!`).
fn series() -> String {
    let repo = std::env::var("VERIF_REPO").unwrap_or_else(|_| "/repo".into());
    let toml = std::fs::read_to_string(format!("{repo}/Cargo.toml")).expect("workspace Cargo.toml");
    let mut in_pkg = false;
    for line in toml.lines() {
        let l = line.trim();
        if l.starts_with('[') {
            in_pkg = l == "[workspace.package]";
        } else if in_pkg && l.starts_with("version") {
            let v = l.split('"').nth(1).expect("version string");
            let mut it = v.split('.');
            return format!("{}.{}", it.next().unwrap_or(""), it.next().unwrap_or(""));
        }
    }
    panic!("no [workspace.package] version");
}

fn u(n: u64) -> Uuid {
    nat_uuid(0xC13_0000 + n)
}

fn scratch() -> PathBuf {
    let p = PathBuf::from(format!("/tmp/C13/{}", std::process::id()));
    std::fs::create_dir_all(&p).expect("scratch dir");
    p
}

fn rm_db(p: &Path) {
    for suf in ["", "-wal", "-shm"] {
        let _ = std::fs::remove_file(format!("{}{}", p.display(), suf));
    }
}

fn mk_backend(path: &Path) -> (Backend, Schema) {
    let schema = Schema::new().expect("schema");
    let idxmeta = {
        let s = schema.write();
        s.reload_idxmeta()
    };
    let be = Backend::new(BackendConfig::new(Some(path), 4, FsType::Generic, Some(2048)), idxmeta, false).expect("backend");
    (be, schema)
}

struct Srv {
    qs: QueryServer,
    be: Backend,
    path: PathBuf,
}

/// A server slot that can be emptied (every handle on the database dropped) and refilled.
struct Slot(Option<Srv>);
impl std::ops::Deref for Slot {
    type Target = Srv;
    fn deref(&self) -> &Srv {
        self.0.as_ref().expect("server running")
    }
}

fn start(rt: &tokio::runtime::Runtime, path: &Path, ct: Duration) -> Result<Srv, String> {
    let (be, schema) = mk_backend(path);
    let qs = QueryServer::new(be.clone(), schema, "example.com".to_string(), Duration::ZERO).map_err(|e| format!("QueryServer::new {e:?}"))?;
    rt.block_on(qs.initialise_helper(ct, DOMAIN_TGT_LEVEL)).map_err(|e| format!("initialise_helper {e:?}"))?;
    Ok(Srv { qs, be, path: path.to_path_buf() })
}

// ------------------------------------------------------------------------------------------------
// history
// ------------------------------------------------------------------------------------------------

#[derive(Clone, Debug, PartialEq)]
enum Op {
    Person(u64, u64),
    Group(u64, u64),
    Svc(u64, u64),
    Oauth2(u64, u64),
    Modify(u64, u64),
    PurgeAttr(u64),
    Delete(char, u64),
    Revive(char, u64),
    Age(u64),
    PurgeRecycled,
    PurgeTombstones,
    RenewKey,
    Restart,
    Conflict(u64),
    Check(u64),
}

impl Op {
    fn show(&self) -> String {
        match self {
            Op::Person(i, s) => format!("person {i} {s}"),
            Op::Group(i, s) => format!("group {i} {s}"),
            Op::Svc(i, s) => format!("svc {i} {s}"),
            Op::Oauth2(i, s) => format!("oauth2 {i} {s}"),
            Op::Modify(i, s) => format!("modify {i} {s}"),
            Op::PurgeAttr(i) => format!("purgeattr {i}"),
            Op::Delete(k, i) => format!("delete {k} {i}"),
            Op::Revive(k, i) => format!("revive {k} {i}"),
            Op::Age(d) => format!("age {d}"),
            Op::PurgeRecycled => "purgerecycled".into(),
            Op::PurgeTombstones => "purgetombstones".into(),
            Op::RenewKey => "renewkey".into(),
            Op::Restart => "restart".into(),
            Op::Conflict(i) => format!("conflict {i}"),
            Op::Check(s) => format!("check {s}"),
        }
    }
    fn parse(s: &str) -> Option<Op> {
        let t: Vec<&str> = s.split_whitespace().collect();
        let n = |i: usize| t.get(i).and_then(|x| x.parse::<u64>().ok());
        let c = |i: usize| t.get(i).and_then(|x| x.chars().next());
        Some(match *t.first()? {
            "person" => Op::Person(n(1)?, n(2)?),
            "group" => Op::Group(n(1)?, n(2)?),
            "svc" => Op::Svc(n(1)?, n(2)?),
            "oauth2" => Op::Oauth2(n(1)?, n(2)?),
            "modify" => Op::Modify(n(1)?, n(2)?),
            "purgeattr" => Op::PurgeAttr(n(1)?),
            "delete" => Op::Delete(c(1)?, n(2)?),
            "revive" => Op::Revive(c(1)?, n(2)?),
            "age" => Op::Age(n(1)?),
            "purgerecycled" => Op::PurgeRecycled,
            "purgetombstones" => Op::PurgeTombstones,
            "renewkey" => Op::RenewKey,
            "restart" => Op::Restart,
            "conflict" => Op::Conflict(n(1)?),
            "check" => Op::Check(n(1)?),
            _ => return None,
        })
    }
}

fn target(kind: char, i: u64) -> Uuid {
    match kind {
        'p' => u(i),
        'g' => u(1000 + i),
        'o' => u(3000 + i),
        _ => u(2000 + i),
    }
}

fn gen_history(r: &mut Rng, budget: u64) -> Vec<Op> {
    let len = r.range(8, 22) as usize;
    let mut ops = vec![];
    let mut made = 0u64;
    // what the generator believes exists: (kind, index, 0 = live | 1 = recycled | 2 = gone)
    let mut ents: Vec<(char, u64, u8)> = vec![];
    let mut aged = false;
    let live = |ents: &Vec<(char, u64, u8)>, r: &mut Rng| -> Option<(char, u64)> {
        let l: Vec<&(char, u64, u8)> = ents.iter().filter(|e| e.2 == 0).collect();
        if l.is_empty() { None } else { let e = l[r.below(l.len() as u64) as usize]; Some((e.0, e.1)) }
    };
    for _ in 0..len {
        let roll = r.below(100);
        // one op in ten ignores what exists (error paths: the transaction aborts)
        let wild = r.chance(1, 10);
        let op = if made < 2 || roll < 24 {
            made += 1;
            match r.below(7) {
                0 | 1 => { ents.push(('p', made, 0)); Op::Person(made, r.next() % 100_000) }
                2 | 3 => { ents.push(('g', made, 0)); Op::Group(made, r.next() % 100_000) }
                4 | 5 => { ents.push(('s', made, 0)); Op::Svc(made, r.next() % 100_000) }
                _ => { ents.push(('o', made, 0)); Op::Oauth2(made, r.next() % 100_000) }
            }
        } else if roll < 38 {
            match live(&ents, r) {
                Some((_, i)) if !wild => Op::Modify(i, r.next() % 100_000),
                _ => Op::Modify(r.range(1, made), r.next() % 100_000),
            }
        } else if roll < 43 {
            Op::PurgeAttr(r.range(1, made))
        } else if roll < 55 {
            match live(&ents, r) {
                Some((k, i)) if !wild => {
                    if let Some(e) = ents.iter_mut().find(|e| e.0 == k && e.1 == i) { e.2 = 1; }
                    Op::Delete(k, i)
                }
                _ => Op::Delete(*r.pick(&['p', 'g', 's']), r.range(1, made)),
            }
        } else if roll < 60 {
            let rec: Vec<(char, u64)> = ents.iter().filter(|e| e.2 == 1).map(|e| (e.0, e.1)).collect();
            if !rec.is_empty() && !wild {
                let (k, i) = rec[r.below(rec.len() as u64) as usize];
                if let Some(e) = ents.iter_mut().find(|e| e.0 == k && e.1 == i) { e.2 = 0; }
                Op::Revive(k, i)
            } else {
                Op::Revive(*r.pick(&['p', 'g', 's']), r.range(1, made))
            }
        } else if roll < 66 {
            aged = true;
            Op::Age(r.range(7, 9))
        } else if roll < 73 {
            if aged || budget > 1 {
                for e in ents.iter_mut().filter(|e| e.2 == 1) { e.2 = 2; }
                aged = false;
                Op::PurgeRecycled
            } else {
                aged = true;
                Op::Age(8)
            }
        } else if roll < 78 {
            Op::PurgeTombstones
        } else if roll < 82 {
            Op::RenewKey
        } else if roll < 86 {
            Op::Restart
        } else if roll < 91 {
            made += 1;
            ents.push(('g', made, 0));
            Op::Conflict(made)
        } else {
            Op::Check(r.next() % 100_000)
        };
        let was_conflict = matches!(op, Op::Conflict(_));
        ops.push(op);
        if was_conflict && r.chance(1, 2) {
            ops.push(Op::Check(r.next() % 100_000));
        }
    }
    // a typical life cycle at least once in a while: delete, age, purge → tombstones in the backup
    if r.chance(1, 2) {
        if let Some((k, i)) = live(&ents, r) {
            ops.push(Op::Delete(k, i));
        }
        if r.chance(1, 3) {
            ops.push(Op::Check(r.next() % 100_000));
        }
        ops.push(Op::Age(8));
        ops.push(Op::PurgeRecycled);
        if r.chance(1, 2) {
            ops.push(Op::Check(r.next() % 100_000));
            ops.push(Op::Age(8));
            ops.push(Op::PurgeTombstones);
        }
    }
    ops.push(Op::Check(r.next() % 100_000));
    if budget > 1 {
        // searching: a key handle early, a check in the middle (so that the last restore goes into a used backend)
        ops.insert(ops.len().min(2), Op::RenewKey);
        let mid = ops.len() / 2;
        ops.insert(mid, Op::Check(r.next() % 100_000));
    }
    ops
}

// ------------------------------------------------------------------------------------------------
// abstraction of a backend for the model and the oracle
// ------------------------------------------------------------------------------------------------

#[derive(Default)]
struct Intern {
    map: BTreeMap<String, u64>,
}
impl Intern {
    fn id(&mut self, s: &str) -> u64 {
        let n = self.map.len() as u64 + 1;
        *self.map.entry(s.to_string()).or_insert(n)
    }
}

type CidT = (u64, u32, String); // secs, nanos, server uuid

#[derive(Clone, Debug, Default, PartialEq)]
struct State {
    rows: Vec<(u64, J)>,
    s_uuid: Option<String>,
    d_uuid: Option<String>,
    ts_max: Option<String>,
    keys: Vec<(String, String)>,
    db_ruv: BTreeSet<CidT>,
    ruv: BTreeMap<CidT, Vec<u64>>,
    ranged: BTreeMap<String, BTreeSet<(u64, u32)>>,
    maxid: u64,
    /// every other table: name -> sorted rows (index and name tables)
    other: BTreeMap<String, Vec<Vec<String>>>,
}

/// a table cell holding JSON, re-printed canonically (object keys sorted)
fn canon_cell(c: &str) -> String {
    match serde_json::from_str::<J>(c) {
        Ok(j) => j.to_string(),
        Err(_) => c.to_string(),
    }
}

fn cid_of_json(v: &J) -> Option<CidT> {
    Some((v["t"]["secs"].as_u64()?, v["t"]["nanos"].as_u64()? as u32, v["s"].as_str()?.to_string()))
}

/// `cid_iter` of the stored change state: the distinct change cids of a live entry, the tombstone cid
fn row_cids(row: &J) -> Vec<CidT> {
    let cs = &row["ent"]["V3"]["changestate"];
    let mut out: Vec<CidT> = vec![];
    if let Some(live) = cs.get("V1Live") {
        if let Some(m) = live["changes"].as_object() {
            for c in m.values() {
                if let Some(c) = cid_of_json(c) {
                    out.push(c);
                }
            }
        }
    } else if let Some(ts) = cs.get("V1Tombstone") {
        if let Some(c) = cid_of_json(&ts["at"]) {
            out.push(c);
        }
    }
    out.sort();
    out.dedup();
    out
}

fn row_uuid(row: &J) -> String {
    row["ent"]["V3"]["attrs"]["uuid"].to_string()
}

fn snapshot(be: &Backend, path: &Path) -> Result<State, String> {
    let tables = hk::raw_tables(path)?;
    let mut st = State::default();
    for (name, rows) in tables {
        match name.as_str() {
            "id2entry" => {
                let mut v: Vec<(u64, J)> = vec![];
                for r in rows {
                    let id: u64 = r[0].parse().map_err(|_| format!("id2entry id {:?}", r[0]))?;
                    let j: J = serde_json::from_str(&r[1]).map_err(|e| format!("id2entry row {id}: {e}"))?;
                    v.push((id, j));
                }
                v.sort_by_key(|x| x.0);
                st.rows = v;
            }
            "db_sid" => st.s_uuid = rows.first().map(|r| canon_cell(&r[1])),
            "db_did" => st.d_uuid = rows.first().map(|r| canon_cell(&r[1])),
            "db_op_ts" => st.ts_max = rows.first().map(|r| canon_cell(&r[1])),
            "keyhandles" => {
                st.keys = rows.iter().map(|r| (canon_cell(&r[0]), canon_cell(&r[1]))).collect();
                st.keys.sort();
            }
            "ruv" => {
                for r in rows {
                    let j: J = serde_json::from_str(&r[0]).map_err(|e| format!("ruv row: {e}"))?;
                    st.db_ruv.insert(cid_of_json(&j).ok_or("ruv row shape")?);
                }
            }
            "id2entry_quarantine" | "db_version" | "idxslope_analysis" => {}
            other => {
                let mut rs = rows;
                rs.sort();
                st.other.insert(other.to_string(), rs);
            }
        }
    }
    let (data, ranged) = hk::mem_ruv(be).map_err(|e| format!("mem_ruv {e:?}"))?;
    for ((ts, s), ids) in data {
        st.ruv.insert((ts.as_secs(), ts.subsec_nanos(), s.to_string()), ids);
    }
    for (s, tss) in ranged {
        st.ranged.insert(s.to_string(), tss.iter().map(|t| (t.as_secs(), t.subsec_nanos())).collect());
    }
    st.maxid = hk::cached_max_id(be).map_err(|e| format!("cached_max_id {e:?}"))?;
    Ok(st)
}

struct Enc {
    intern: Intern,
    times: BTreeMap<(u64, u32), u64>,
}

impl Enc {
    fn new() -> Self {
        Enc { intern: Intern::default(), times: BTreeMap::new() }
    }
    fn ts(&mut self, t: (u64, u32)) -> u64 {
        let n = self.times.len() as u64 + 1;
        *self.times.entry(t).or_insert(n)
    }
    fn cid(&mut self, c: &CidT) -> String {
        format!("{}_{}", self.ts((c.0, c.1)), self.intern.id(&format!("srv {}", c.2)))
    }
    fn cids(&mut self, cs: &[CidT]) -> String {
        cs.iter().map(|c| self.cid(c)).collect::<Vec<_>>().join(".")
    }
    fn list(items: Vec<String>) -> String {
        if items.is_empty() {
            "-".into()
        } else {
            items.join(",")
        }
    }
    fn opt(&mut self, tag: &str, v: &Option<String>) -> String {
        match v {
            Some(s) => self.intern.id(&format!("{tag} {s}")).to_string(),
            None => "-".into(),
        }
    }
    fn payload(&mut self, row: &J) -> u64 {
        self.intern.id(&format!("row {row}"))
    }
    fn state(&mut self, st: &State) -> String {
        let rows: Vec<String> = st.rows.iter().map(|(id, j)| format!("{id}:{}:{}", self.payload(j), self.cids(&row_cids(j)))).collect();
        let keys: Vec<String> = st.keys.iter().map(|(k, v)| format!("{}:{}", self.intern.id(&format!("kh {k}")), self.intern.id(&format!("khv {v}")))).collect();
        let b: Vec<String> = st.db_ruv.iter().map(|c| self.cid(c)).collect();
        let ruv: Vec<String> = st.ruv.iter().map(|(c, ids)| format!("{}:{}", self.cid(c), ids.iter().map(|i| i.to_string()).collect::<Vec<_>>().join("."))).collect();
        let g: Vec<String> = st
            .ranged
            .iter()
            .map(|(s, tss)| format!("{}:{}", self.intern.id(&format!("srv {s}")), tss.iter().map(|t| self.ts(*t).to_string()).collect::<Vec<_>>().join(".")))
            .collect();
        format!(
            "r={};s={};d={};t={};k={};b={};u={};g={};m={}",
            Self::list(rows),
            self.opt("uuid", &st.s_uuid),
            self.opt("uuid", &st.d_uuid),
            self.opt("ts", &st.ts_max),
            Self::list(keys),
            Self::list(b),
            Self::list(ruv),
            Self::list(g),
            st.maxid
        )
    }
    /// the model's view of a backup document (`None` = it does not deserialise as JSON at all)
    fn doc(&mut self, doc: &Option<J>) -> String {
        let Some(doc) = doc else { return "none".into() };
        let ents = |me: &mut Enc, v: &J| -> Option<String> {
            let a = v.as_array()?;
            let mut items = vec![];
            for e in a {
                e.get("ent")?;
                items.push(format!("{}:{}", me.payload(e), me.cids(&row_cids(e))));
            }
            Some(Self::list(items))
        };
        if doc.is_array() {
            return match ents(self, doc) {
                Some(e) => format!("1;entries={e}"),
                None => "1;entries=!".into(),
            };
        }
        let Some(o) = doc.as_object() else { return "none".into() };
        let mut parts = vec!["0".to_string()];
        for (k, v) in o {
            let item = match k.as_str() {
                "version" => v.as_str().map(|s| format!("version={}", self.intern.id(&format!("series {s}")))).unwrap_or("version=!".into()),
                "db_s_uuid" => v.as_str().map(|_| format!("sUuid={}", self.intern.id(&format!("uuid {v}")))).unwrap_or("sUuid=!".into()),
                "db_d_uuid" => v.as_str().map(|_| format!("dUuid={}", self.intern.id(&format!("uuid {v}")))).unwrap_or("dUuid=!".into()),
                "db_ts_max" => {
                    if v.get("secs").is_some() {
                        format!("tsMax={}", self.intern.id(&format!("ts {v}")))
                    } else {
                        "tsMax=!".into()
                    }
                }
                "keyhandles" => match v.as_object() {
                    Some(m) => {
                        let mut items: Vec<String> = m
                            .iter()
                            .map(|(k, v)| format!("{}:{}", self.intern.id(&format!("kh {}", J::String(k.clone()))), self.intern.id(&format!("khv {v}"))))
                            .collect();
                        items.sort();
                        format!("keys={}", Self::list(items))
                    }
                    None => "keys=!".into(),
                },
                "repl_meta" => match v["V1"]["ruv"].as_array() {
                    Some(a) => {
                        let cs: Vec<CidT> = a.iter().filter_map(cid_of_json).collect();
                        if cs.len() == a.len() {
                            format!("replMeta={}", Self::list(cs.iter().map(|c| self.cid(c)).collect()))
                        } else {
                            "replMeta=!".into()
                        }
                    }
                    None => "replMeta=!".into(),
                },
                "entries" => match ents(self, v) {
                    Some(e) => format!("entries={e}"),
                    None => "entries=!".into(),
                },
                _ => continue,
            };
            parts.push(item);
        }
        parts.join(";")
    }
}

/// Canonical form of a state / document line of the protocol: every list sorted, ids inside items sorted.
fn canon_line(s: &str) -> String {
    let mut out = vec![];
    for part in s.split(';') {
        match part.split_once('=') {
            Some((k, v)) if v != "-" => {
                let mut items: Vec<String> = v
                    .split(',')
                    .map(|it| {
                        if k == "u" || k == "g" {
                            match it.split_once(':') {
                                Some((a, b)) => {
                                    let mut xs: Vec<&str> = b.split('.').filter(|x| !x.is_empty()).collect();
                                    xs.sort_by_key(|x| x.parse::<u64>().unwrap_or(0));
                                    format!("{a}:{}", xs.join("."))
                                }
                                None => it.to_string(),
                            }
                        } else {
                            it.to_string()
                        }
                    })
                    .collect();
                if k != "r" && k != "entries" {
                    items.sort();
                }
                out.push(format!("{k}={}", items.join(",")));
            }
            _ => out.push(part.to_string()),
        }
    }
    if out.first().map(|x| !x.contains('=')).unwrap_or(false) {
        let head = out.remove(0);
        out.sort();
        out.insert(0, head);
    }
    out.join(";")
}

/// the first `;`-separated part in which two protocol lines differ
fn first_diff(a: &str, b: &str) -> String {
    let (pa, pb): (Vec<&str>, Vec<&str>) = (a.split(';').collect(), b.split(';').collect());
    for (x, y) in pa.iter().zip(pb.iter()) {
        if x != y {
            let (ix, iy): (Vec<&str>, Vec<&str>) = (x.split(',').collect(), y.split(',').collect());
            let item = ix.iter().zip(iy.iter()).find(|(p, q)| p != q).map(|(p, q)| format!("{p} | {q}")).unwrap_or_else(|| format!("{} items | {} items", ix.len(), iy.len()));
            return format!("{} … first differing item: {item}", clip(&x.chars().take(60).collect::<String>()));
        }
    }
    format!("{} parts | {} parts", pa.len(), pb.len())
}

fn err_code(e: &OperationError) -> &'static str {
    match e {
        OperationError::SerdeJsonError => "serdeJson",
        OperationError::InvalidDbState => "invalidDbState",
        OperationError::DB0001MismatchedRestoreVersion => "mismatchedVersion",
        OperationError::DB0002MismatchedRestoreVersion => "olderVersion",
        OperationError::ConsistencyError(_) => "consistency",
        _ => "other",
    }
}

// ------------------------------------------------------------------------------------------------
// the run
// ------------------------------------------------------------------------------------------------

struct Ctx {
    rt: tokio::runtime::Runtime,
    drv: Option<Driver>,
    rep: Report,
    dir: PathBuf,
    model_fails: u64,
    oracle_failed: bool,
    counter: u64,
    /// > 1 while the check script searches for a failing input: bias toward the situations the oracle needs
    budget: u64,
}

impl Ctx {
    fn room(&mut self, class: &str) -> bool {
        let k = format!("failures:{class}");
        self.rep.count(&k);
        self.rep.histogram.get(&k).cloned().unwrap_or(0) <= 2
    }
    fn oracle_fail(&mut self, class: &str, ops: &[Op], detail: J, expected: String, observed: String) {
        self.oracle_failed = true;
        if self.room(class) {
            self.rep.fail(Failure {
                kind: "impl-vs-oracle".into(),
                class: class.into(),
                input: json!({"ops": ops.iter().map(|o| o.show()).collect::<Vec<_>>(), "detail": detail}),
                expected: clip(&expected),
                observed: clip(&observed),
            });
        }
    }
    fn model_fail(&mut self, class: &str, ops: &[Op], expected: String, observed: String) {
        self.model_fails += 1;
        let (expected, observed) = if expected.contains(';') && observed.contains(';') {
            (format!("[{}] {expected}", first_diff(&expected, &observed)), observed)
        } else {
            (expected, observed)
        };
        if self.model_fails <= 4 && self.room(class) {
            self.rep.fail(Failure {
                kind: "impl-vs-model".into(),
                class: class.into(),
                input: json!({"ops": ops.iter().map(|o| o.show()).collect::<Vec<_>>()}),
                expected: clip(&expected),
                observed: clip(&observed),
            });
        }
    }
    fn ask(&mut self, line: &str) -> Option<String> {
        if self.model_fails > 4 {
            return None;
        }
        self.drv.as_mut().map(|d| d.ask(line))
    }
    fn fresh_path(&mut self, tag: &str) -> PathBuf {
        self.counter += 1;
        self.dir.join(format!("{tag}{}.db", self.counter))
    }
}

fn clip(s: &str) -> String {
    if s.len() > 700 {
        let mut e = 700;
        while !s.is_char_boundary(e) {
            e -= 1;
        }
        format!("{}…", &s[..e])
    } else {
        s.to_string()
    }
}

struct Hist {
    a: Slot,
    /// a second server whose entries reach A by replication (conflicts)
    c: Option<QueryServer>,
    ct: Duration,
    /// the backend restored at the previous check (reused as a non-fresh restore target)
    prev_b: Option<(Backend, PathBuf)>,
    created: u64,
    /// what the history created so far: (kind, index)
    kinds: Vec<(char, u64)>,
    groups: Vec<u64>,
    /// creates done after a server comparison
    post: u64,
}

fn person_entry(i: u64, salt: u64, ct: Duration) -> Entry<EntryInit, EntryNew> {
    let mut r = Rng::new(salt ^ 0x9e3779b97f4a7c15);
    let name = format!("c13p{i}");
    let mut e: Entry<EntryInit, EntryNew> = Entry::new();
    e.add_ava(Attribute::Class, EntryClass::Object.to_value());
    e.add_ava(Attribute::Class, EntryClass::Account.to_value());
    e.add_ava(Attribute::Class, EntryClass::Person.to_value());
    e.add_ava(Attribute::Name, Value::new_iname(&name));
    e.add_ava(Attribute::DisplayName, Value::new_utf8s(&format!("Person {i} délta 日本 \"q\"")));
    e.add_ava(Attribute::Uuid, Value::Uuid(u(i)));
    e.add_ava(Attribute::Mail, Value::EmailAddress(format!("{name}@example.com"), true));
    if r.chance(1, 2) {
        e.add_ava(Attribute::Mail, Value::EmailAddress(format!("{name}.alt@example.com"), false));
    }
    let (_k, s, _clear) = *r.pick(PW_VECTORS);
    if let Ok(pw) = Password::try_from(s) {
        let mut c = hk12::cred_from_password(pw, false, OffsetDateTime::UNIX_EPOCH + ct);
        if r.chance(1, 2) {
            c = hk12::cred_append_totp(&c, "totp".into(), Totp::new(r.bytes(20), 30, TotpAlgo::Sha256, TotpDigits::Six), OffsetDateTime::UNIX_EPOCH + ct);
        }
        e.add_ava(Attribute::PrimaryCredential, Value::Cred("primary".into(), c));
    }
    if r.chance(1, 2) {
        if let Some(k) = Value::new_sshkey_str("k1", r.pick(SSH_KEYS)).ok() {
            e.add_ava(Attribute::SshPublicKey, k);
        }
    }
    let sess = Session {
        label: format!("sess{i}"),
        state: match r.below(3) {
            0 => SessionState::NeverExpires,
            1 => SessionState::ExpiresAt(OffsetDateTime::UNIX_EPOCH + ct + Duration::new(3600, 5)),
            _ => SessionState::RevokedAt(Cid { ts: ct, s_uuid: u(999) }),
        },
        issued_at: OffsetDateTime::UNIX_EPOCH + ct,
        issued_by: IdentityId::User(u(i)),
        cred_id: u(5000 + i),
        scope: *r.pick(&[SessionScope::ReadOnly, SessionScope::ReadWrite, SessionScope::PrivilegeCapable]),
        type_: *r.pick(&[AuthType::Password, AuthType::PasswordTotp, AuthType::Passkey]),
        ext_metadata: SessionExtMetadata::None,
    };
    e.add_ava(Attribute::UserAuthTokenSession, Value::Session(u(7000 + i), sess));
    e
}

fn group_entry(i: u64, salt: u64, kinds: &[(char, u64)], suffix: &str) -> Entry<EntryInit, EntryNew> {
    let mut r = Rng::new(salt ^ 0x51ed270b);
    let mut g: Entry<EntryInit, EntryNew> = Entry::new();
    g.add_ava(Attribute::Class, EntryClass::Object.to_value());
    g.add_ava(Attribute::Class, EntryClass::Group.to_value());
    g.add_ava(Attribute::Name, Value::new_iname(&format!("c13g{i}{suffix}")));
    g.add_ava(Attribute::Uuid, Value::Uuid(u(1000 + i)));
    g.add_ava(Attribute::Description, Value::new_utf8s("group description ünï"));
    for _ in 0..r.below(3) {
        if !kinds.is_empty() {
            let (k, j) = *r.pick(kinds);
            g.add_ava(Attribute::Member, Value::Refer(target(k, j)));
        }
    }
    g
}

fn oauth2_entry(i: u64, salt: u64, groups: &[u64]) -> Entry<EntryInit, EntryNew> {
    let mut r = Rng::new(salt ^ 0x0a0a7);
    let name = format!("c13o{i}");
    let mut e: Entry<EntryInit, EntryNew> = Entry::new();
    e.add_ava(Attribute::Class, EntryClass::Object.to_value());
    e.add_ava(Attribute::Class, EntryClass::Account.to_value());
    e.add_ava(Attribute::Class, EntryClass::OAuth2ResourceServer.to_value());
    e.add_ava(Attribute::Class, EntryClass::OAuth2ResourceServerPublic.to_value());
    e.add_ava(Attribute::Name, Value::new_iname(&name));
    e.add_ava(Attribute::DisplayName, Value::new_utf8s(&format!("client {i}")));
    e.add_ava(Attribute::Uuid, Value::Uuid(u(3000 + i)));
    if let Some(v) = Value::new_url_s(&format!("https://{name}.example.com/landing?x={salt}")) {
        e.add_ava(Attribute::OAuth2RsOriginLanding, v);
    }
    if !groups.is_empty() {
        let g = *r.pick(groups);
        let scopes: BTreeSet<String> = ["openid", "email", "groups"].iter().take(1 + r.below(3) as usize).map(|s| s.to_string()).collect();
        if let Some(v) = Value::new_oauthscopemap(u(1000 + g), scopes) {
            e.add_ava(Attribute::OAuth2RsScopeMap, v);
        }
        if r.chance(1, 2) {
            e.add_ava(Attribute::OAuth2RsClaimMap, Value::OauthClaimValue("team".into(), u(1000 + g), ["blue".to_string(), "green".to_string()].into_iter().collect()));
        }
    }
    e
}

fn svc_entry(i: u64, salt: u64, ct: Duration) -> Entry<EntryInit, EntryNew> {
    let mut r = Rng::new(salt ^ 0x7f4a7c15);
    let mut s: Entry<EntryInit, EntryNew> = Entry::new();
    s.add_ava(Attribute::Class, EntryClass::Object.to_value());
    s.add_ava(Attribute::Class, EntryClass::Account.to_value());
    s.add_ava(Attribute::Class, EntryClass::ServiceAccount.to_value());
    s.add_ava(Attribute::Name, Value::new_iname(&format!("c13s{i}")));
    s.add_ava(Attribute::DisplayName, Value::new_utf8s("svc"));
    s.add_ava(Attribute::Uuid, Value::Uuid(u(2000 + i)));
    s.add_ava(
        Attribute::ApiTokenSession,
        Value::ApiToken(
            u(8000 + i),
            ApiToken {
                label: "tok".into(),
                expiry: if r.chance(1, 2) { Some(OffsetDateTime::UNIX_EPOCH + ct + Duration::new(86400, 123)) } else { None },
                issued_at: OffsetDateTime::UNIX_EPOCH + ct,
                issued_by: IdentityId::User(u(i)),
                scope: *r.pick(&[ApiTokenScope::ReadOnly, ApiTokenScope::ReadWrite, ApiTokenScope::Synchronise]),
            },
        ),
    );
    s
}

impl Hist {
    fn tick(&mut self, r: u64) -> Duration {
        self.ct += Duration::new(2 + r % 5, ((r >> 8) % 1_000_000_000) as u32);
        self.ct
    }

    /// One op = one write transaction on A; an `Err` aborts it (the history goes on).
    fn apply(&mut self, ctx: &mut Ctx, op: &Op, done: &[Op]) -> Result<(), String> {
        let ct = self.tick(match op {
            Op::Person(_, s) | Op::Group(_, s) | Op::Svc(_, s) | Op::Oauth2(_, s) | Op::Modify(_, s) => *s,
            _ => 3,
        });
        let e = |x: OperationError| format!("{x:?}");
        match op {
            Op::Check(salt) => return self.check(ctx, *salt, done),
            Op::Age(days) => {
                self.ct += Duration::from_secs(days * 86400);
                return Ok(());
            }
            Op::Restart => return self.restart_a(ctx, self.ct),
            Op::Conflict(i) => return self.conflict(ctx, *i),
            _ => {}
        }
        let mut w = ctx.rt.block_on(self.a.qs.write(ct)).map_err(e)?;
        match op {
            Op::Person(i, s) => w.internal_create(vec![person_entry(*i, *s, ct)]).map_err(e)?,
            Op::Group(i, s) => w.internal_create(vec![group_entry(*i, *s, &self.kinds, "")]).map_err(e)?,
            Op::Svc(i, s) => w.internal_create(vec![svc_entry(*i, *s, ct)]).map_err(e)?,
            Op::Oauth2(i, s) => w.internal_create(vec![oauth2_entry(*i, *s, &self.groups)]).map_err(e)?,
            Op::Modify(i, s) => {
                let mut r = Rng::new(*s);
                let kind = self.kinds.iter().find(|(_, j)| j == i).map(|(k, _)| *k).unwrap_or('p');
                let m = match kind {
                    'p' => Modify::Present(Attribute::LegalName, Value::new_utf8s(&format!("Legal {i} {s}"))),
                    'g' if !self.kinds.is_empty() => {
                        let (k, j) = *r.pick(&self.kinds);
                        Modify::Present(Attribute::Member, Value::Refer(target(k, j)))
                    }
                    'o' => Modify::Present(Attribute::DisplayName, Value::new_utf8s(&format!("client {i} {s}"))),
                    _ => Modify::Present(Attribute::Description, Value::new_utf8s(&format!("desc {s}"))),
                };
                w.internal_modify_uuid(target(kind, *i), &ModifyList::new_list(vec![m])).map_err(e)?
            }
            Op::PurgeAttr(i) => {
                let r = w.internal_modify_uuid(u(1000 + i), &ModifyList::new_list(vec![Modify::Purged(Attribute::Description)]));
                if r.is_err() {
                    w.internal_modify_uuid(u(*i), &ModifyList::new_list(vec![Modify::Purged(Attribute::Mail)])).map_err(e)?
                }
            }
            Op::Delete(k, i) => w.internal_delete_uuid(target(*k, *i)).map_err(e)?,
            Op::Revive(k, i) => {
                let admin = w.internal_search_uuid(UUID_ADMIN).map_err(e)?;
                let ident = Identity::from_impersonate_entry_readwrite(admin);
                let f = Filter::new(f_eq(Attribute::Uuid, PartialValue::Uuid(target(*k, *i))));
                let re = ReviveRecycledEvent::from_parts(ident, &f, &w).map_err(e)?;
                w.revive_recycled(&re).map_err(e)?
            }
            Op::PurgeRecycled => {
                w.purge_recycled().map_err(e)?;
            }
            Op::PurgeTombstones => {
                w.purge_tombstones().map_err(e)?;
            }
            Op::RenewKey => w.supplier_renew_key_cert("example.com").map_err(e)?,
            _ => {}
        }
        w.commit().map_err(e)?;
        if let Op::Person(i, _) | Op::Group(i, _) | Op::Svc(i, _) | Op::Oauth2(i, _) = op {
            self.created = self.created.max(*i);
            self.kinds.push((match op { Op::Person(..) => 'p', Op::Group(..) => 'g', Op::Svc(..) => 's', _ => 'o' }, *i));
        }
        if let Op::Group(i, _) = op {
            self.groups.push(*i);
        }
        Ok(())
    }

    /// Drop the running server A (and every handle on its backend), then start it again on its file.
    fn restart_a(&mut self, ctx: &mut Ctx, ct: Duration) -> Result<(), String> {
        let path = self.a.path.clone();
        self.a.0 = None;
        self.a.0 = Some(start(&ctx.rt, &path, ct)?);
        Ok(())
    }

    /// A second server C (refreshed from A on first use) and A both create group `i` with the same uuid;
    /// C's copy then reaches A by incremental replication: A ends with a conflict entry.
    fn conflict(&mut self, ctx: &mut Ctx, i: u64) -> Result<(), String> {
        let e = |x: OperationError| format!("{x:?}");
        if self.c.is_none() {
            let schema = Schema::new().map_err(e)?;
            let idxmeta = {
                let s = schema.write();
                s.reload_idxmeta()
            };
            let be = Backend::new(BackendConfig::new(None, 1, FsType::Generic, Some(2048)), idxmeta, false).map_err(e)?;
            let qs = QueryServer::new(be, schema, "example.com".to_string(), Duration::ZERO).map_err(e)?;
            ctx.rt.block_on(qs.initialise_helper(self.ct, DOMAIN_TGT_LEVEL)).map_err(e)?;
            let ct = self.tick(5);
            {
                let mut r = ctx.rt.block_on(self.a.qs.read()).map_err(e)?;
                let mut w = ctx.rt.block_on(qs.write(ct)).map_err(e)?;
                let refresh = r.supplier_provide_refresh().map_err(e)?;
                w.consumer_apply_refresh(refresh).map_err(e)?;
                w.commit().map_err(e)?;
            }
            self.c = Some(qs);
        }
        let ct1 = self.tick(7);
        let ct2 = self.tick(9);
        let ct3 = self.tick(11);
        let c = self.c.as_ref().ok_or("no second server")?;
        // bring C up to date first so that the only divergence is the clashing create
        for _ in 0..1 {
            let mut r = ctx.rt.block_on(self.a.qs.read()).map_err(e)?;
            let mut w = ctx.rt.block_on(c.write(ct1)).map_err(e)?;
            let st = w.consumer_get_state().map_err(e)?;
            let ch = r.supplier_provide_changes(st).map_err(e)?;
            match w.consumer_apply_changes(ch).map_err(e)? {
                ConsumerState::Ok => w.commit().map_err(e)?,
                ConsumerState::RefreshRequired => {
                    drop(w);
                    let mut w = ctx.rt.block_on(c.write(ct1)).map_err(e)?;
                    let refresh = r.supplier_provide_refresh().map_err(e)?;
                    w.consumer_apply_refresh(refresh).map_err(e)?;
                    w.commit().map_err(e)?;
                }
            }
        }
        {
            let mut w = ctx.rt.block_on(c.write(ct1 + Duration::from_nanos(1))).map_err(e)?;
            w.internal_create(vec![group_entry(i, i, &[], "c")]).map_err(e)?;
            w.commit().map_err(e)?;
        }
        {
            let mut w = ctx.rt.block_on(self.a.qs.write(ct2)).map_err(e)?;
            w.internal_create(vec![group_entry(i, i, &[], "a")]).map_err(e)?;
            w.commit().map_err(e)?;
        }
        let mut r = ctx.rt.block_on(c.read()).map_err(e)?;
        let mut w = ctx.rt.block_on(self.a.qs.write(ct3)).map_err(e)?;
        let st = w.consumer_get_state().map_err(e)?;
        let ch = r.supplier_provide_changes(st).map_err(e)?;
        match w.consumer_apply_changes(ch).map_err(e)? {
            ConsumerState::Ok => w.commit().map_err(e)?,
            ConsumerState::RefreshRequired => return Err("replication C->A demands a refresh".into()),
        }
        drop(r);
        self.created = self.created.max(i);
        self.kinds.push(('g', i));
        self.groups.push(i);
        ctx.rep.count("conflict-replicated");
        Ok(())
    }

    // --------------------------------------------------------------------------------------------
    // the check
    // --------------------------------------------------------------------------------------------

    fn backup_to(&self, path: &Path, comp: BackupCompression) -> Result<(), String> {
        let _ = std::fs::remove_file(path);
        let out = std::fs::File::create(path).map_err(|e| format!("create {e}"))?;
        let mut txn = self.a.be.read().map_err(|e| format!("be.read {e:?}"))?;
        txn.backup(out, comp).map_err(|e| format!("{e:?}"))
    }

    fn check(&mut self, ctx: &mut Ctx, salt: u64, done: &[Op]) -> Result<(), String> {
        let mut r = Rng::new(salt ^ 0xc13c13);
        let sa = snapshot(&self.a.be, &self.a.path)?;
        let mut enc = Enc::new();
        let series_s = series();
        let series = enc.intern.id(&format!("series {series_s}"));
        let line_a = enc.state(&sa);

        // ---- backup, both ways ------------------------------------------------------------------
        let plain = ctx.dir.join("bk.json");
        let gz = ctx.dir.join("bk.json.gz");
        if let Err(err) = self.backup_to(&plain, BackupCompression::NoCompression) {
            ctx.oracle_fail("backup-failed", done, json!({"compression": "none"}), "backup succeeds".into(), err);
            return Ok(());
        }
        if let Err(err) = self.backup_to(&gz, BackupCompression::Gzip) {
            ctx.oracle_fail("backup-failed", done, json!({"compression": "gzip"}), "backup succeeds".into(), err);
            return Ok(());
        }
        let plain_bytes = std::fs::read(&plain).map_err(|e| e.to_string())?;
        let gz_bytes = std::fs::read(&gz).map_err(|e| e.to_string())?;
        // the compressed file holds the very same document (independent decompressor)
        match std::process::Command::new("gzip").arg("-dc").arg(&gz).output() {
            Ok(o) if o.status.success() => {
                if o.stdout != plain_bytes {
                    ctx.oracle_fail("gzip-content-differs", done, json!({}), format!("{} bytes equal to the plain backup", plain_bytes.len()), format!("{} bytes", o.stdout.len()));
                }
            }
            other => ctx.oracle_fail("gzip-file-invalid", done, json!({}), "gzip -dc accepts the compressed backup".into(), format!("{other:?}")),
        }
        let doc: J = match serde_json::from_slice(&plain_bytes) {
            Ok(d) => d,
            Err(e) => {
                ctx.oracle_fail("backup-not-json", done, json!({}), "the plain backup is one JSON document".into(), e.to_string());
                return Ok(());
            }
        };
        // correspondence: the document
        if let Some(reply) = ctx.ask(&format!("backup {series} {line_a}")) {
            let got = format!("ok {}", canon_line(&enc.doc(&Some(doc.clone()))));
            let want = match reply.split_once(' ') {
                Some((a, b)) => format!("{a} {}", canon_line(b)),
                None => reply.clone(),
            };
            if got != want {
                ctx.model_fail("backup-doc", done, want, got);
            }
        }
        // oracle: the document names this server's version and every entry of A in id order
        if doc["version"].as_str() != Some(series_s.as_str()) {
            ctx.oracle_fail("backup-version-field", done, json!({}), series_s.clone(), doc["version"].to_string());
        }
        let n_created = sa.rows.iter().filter(|(_, j)| row_uuid(j).contains("-4000-8000-00000c13")).count();
        let nontrivial = n_created >= 1 && sa.db_ruv.len() >= 2;
        ctx.rep.count(if sa.rows.iter().any(|(_, j)| j["ent"]["V3"]["changestate"].get("V1Tombstone").is_some()) { "backup:with-tombstones" } else { "backup:no-tombstones" });
        if sa.rows.iter().any(|(_, j)| j["ent"]["V3"]["attrs"]["class"].to_string().contains("recycled")) {
            ctx.rep.count("backup:with-recycled");
        }
        if sa.rows.iter().any(|(_, j)| j["ent"]["V3"]["attrs"]["class"].to_string().contains("conflict")) {
            ctx.rep.count("backup:with-conflict-entries");
        }
        if !sa.keys.is_empty() {
            ctx.rep.count("backup:with-keyhandle");
        }
        if sa.rows.windows(2).any(|w| w[1].0 != w[0].0 + 1) || sa.rows.first().map(|x| x.0 != 1).unwrap_or(false) {
            ctx.rep.count("backup:id-gaps");
        }
        if sa.db_ruv.iter().any(|c| !sa.rows.iter().any(|(_, j)| row_cids(j).contains(c))) {
            ctx.rep.count("backup:ruv-anchor-without-entry");
        }
        ctx.rep.count_n("entries-backed-up", sa.rows.len() as u64);

        // ---- restore each into a backend ----------------------------------------------------------
        let full_on = if r.chance(1, 2) { "plain" } else { "gzip" };
        let mut kept: Option<(Backend, PathBuf)> = None;
        for (cname, comp, file) in [("plain", BackupCompression::NoCompression, &plain), ("gzip", BackupCompression::Gzip, &gz)] {
            // fresh, or the backend restored at the previous check
            let reuse = cname == "plain" && self.prev_b.is_some() && (ctx.budget > 1 || r.chance(1, 2));
            let (be_b, path_b) = if reuse {
                ctx.rep.count("restore-into:previous-restore");
                self.prev_b.take().ok_or("no previous")?
            } else {
                ctx.rep.count("restore-into:fresh");
                let p = ctx.fresh_path("b");
                rm_db(&p);
                let (be, _schema) = mk_backend(&p);
                (be, p)
            };
            let pre_b = snapshot(&be_b, &path_b)?;
            let line_pre = enc.state(&pre_b);
            let res = {
                let input = std::fs::File::open(file).map_err(|e| e.to_string())?;
                let mut w = be_b.write().map_err(|e| format!("{e:?}"))?;
                w.restore(input, comp).and_then(|_| w.commit())
            };
            if let Err(err) = &res {
                ctx.oracle_fail("restore-of-own-backup-failed", done, json!({"compression": cname, "reuse": reuse}), "Ok".into(), format!("{err:?}"));
                continue;
            }
            let post_b = snapshot(&be_b, &path_b)?;
            if let Some(reply) = ctx.ask(&format!("server {series} 1 {} {line_pre}", enc.doc(&Some(doc.clone())))) {
                let got = format!("ok {}", canon_line(&enc.state(&post_b)));
                let want = match reply.split_once(' ') {
                    Some((a, b)) => format!("{a} {}", canon_line(b)),
                    None => reply.clone(),
                };
                if got != want {
                    ctx.model_fail("restore-state", done, want, got);
                }
            }
            let det = json!({"compression": cname, "reuse": reuse});
            self.judge_restored(ctx, &sa, &post_b, &pre_b, done, &det, "restored");
            // reindex (second half of restore_server_core), then reopen the file
            let ri = {
                let mut w = be_b.write().map_err(|e| format!("{e:?}"))?;
                w.reindex(false).and_then(|_| w.commit())
            };
            if let Err(err) = ri {
                ctx.oracle_fail("reindex-after-restore-failed", done, det.clone(), "Ok".into(), format!("{err:?}"));
            }
            let before_reopen = snapshot(&be_b, &path_b)?;
            drop(be_b);
            let (be_b, schema_b) = mk_backend(&path_b);
            let reopened = snapshot(&be_b, &path_b)?;
            if let Some(reply) = ctx.ask(&format!("reload {}", enc.state(&before_reopen))) {
                let got = canon_line(&enc.state(&reopened));
                let want = canon_line(&reply);
                if got != want {
                    ctx.model_fail("reload-state", done, want, got);
                }
            }
            self.judge_restored(ctx, &sa, &reopened, &pre_b, done, &det, "reopened");
            match hk::be_verify(&be_b) {
                Ok(v) if v.is_empty() => {}
                other => ctx.oracle_fail("verify-after-restore", done, det.clone(), "no consistency error".into(), format!("{other:?}")),
            }
            ctx.rep.case(if nontrivial { Some(format!("{}|{cname}|{reuse}|{}", sa.rows.len(), enc.intern.id(&format!("{:?}", sa.db_ruv)))) } else { None });

            // ---- refusals, into the restored backend ------------------------------------------------
            if cname != full_on {
                self.refusals(ctx, &mut r, &mut enc, series, &series_s, &be_b, &path_b, &doc, &plain_bytes, &gz_bytes, done);
            }

            // ---- a server on the restored database ---------------------------------------------------
            if cname == full_on {
                self.full_server(ctx, be_b.clone(), schema_b, &path_b, done, &det)?;
                ctx.rep.count("full-server-compare");
            }
            if cname == "plain" {
                kept = Some((be_b, path_b));
            } else {
                drop(be_b);
                rm_db(&path_b);
            }
        }
        if let Some((_, p)) = self.prev_b.take() {
            rm_db(&p);
        }
        self.prev_b = kept;
        Ok(())
    }

    /// The statement on the restored backend `b` against the original `a` (`reopened`: the in-memory
    /// RUV has been rebuilt from the entries, the id cache re-read).
    #[allow(clippy::too_many_arguments)]
    fn judge_restored(&self, ctx: &mut Ctx, a: &State, b: &State, pre: &State, done: &[Op], det: &J, mode: &str) {
        let when = mode;
        let reopened = mode == "reopened";
        let d = |x: J| json!({"at": when, "case": det, "what": x});
        if a.rows.len() != b.rows.len() {
            ctx.oracle_fail("entry-count-differs", done, d(json!({})), a.rows.len().to_string(), b.rows.len().to_string());
        }
        for (k, ((ida, ja), (idb, jb))) in a.rows.iter().zip(b.rows.iter()).enumerate() {
            if *idb != k as u64 + 1 {
                ctx.oracle_fail("restored-ids-not-renumbered", done, d(json!({"pos": k})), (k + 1).to_string(), idb.to_string());
                break;
            }
            if ja != jb {
                let class = if ja["ent"]["V3"]["changestate"] != jb["ent"]["V3"]["changestate"] { "entry-changestate-differs" } else { "entry-differs" };
                ctx.oracle_fail(class, done, d(json!({"id_a": ida, "id_b": idb, "uuid": row_uuid(ja)})), ja.to_string(), jb.to_string());
                break;
            }
        }
        // every uuid keeps exactly its entry
        fn by_uuid(s: &State) -> BTreeMap<String, &J> {
            s.rows.iter().map(|(_, j)| (row_uuid(j), j)).collect()
        }
        if by_uuid(a) != by_uuid(b) {
            ctx.oracle_fail("uuid-view-differs", done, d(json!({})), format!("{} uuids", by_uuid(a).len()), format!("{} uuids", by_uuid(b).len()));
        }
        if a.s_uuid != b.s_uuid {
            ctx.oracle_fail("server-uuid-differs", done, d(json!({})), format!("{:?}", a.s_uuid), format!("{:?}", b.s_uuid));
        }
        if a.d_uuid != b.d_uuid {
            ctx.oracle_fail("domain-uuid-differs", done, d(json!({})), format!("{:?}", a.d_uuid), format!("{:?}", b.d_uuid));
        }
        if a.ts_max != b.ts_max {
            ctx.oracle_fail("ts-max-differs", done, d(json!({})), format!("{:?}", a.ts_max), format!("{:?}", b.ts_max));
        }
        if a.keys != b.keys {
            ctx.oracle_fail("keyhandles-differ", done, d(json!({})), format!("{} handles", a.keys.len()), format!("{} handles", b.keys.len()));
        }
        if mode == "started" {
            // both servers have run their start-up writes: the RUV id lists are supersets by design and the
            // original may have lost in-memory-only cids by its own restart — judged before the start only
            return;
        }
        // replication metadata: the cids A's RUV holds
        let a_cids: BTreeSet<CidT> = a.ruv.keys().cloned().collect();
        if a.db_ruv != a_cids {
            ctx.rep.count("note:original-ruv-table-differs-from-memory");
            if ctx.rep.notes.len() < 3 {
                let only_db: Vec<&CidT> = a.db_ruv.difference(&a_cids).collect();
                let only_mem: Vec<&CidT> = a_cids.difference(&a.db_ruv).collect();
                ctx.rep.note(format!("original: ruv table only {only_db:?}; memory only {only_mem:?}"));
            }
        }
        if b.db_ruv != a_cids {
            ctx.oracle_fail("ruv-table-differs", done, d(json!({})), format!("{a_cids:?}"), format!("{:?}", b.db_ruv));
        }
        let b_cids: BTreeSet<CidT> = b.ruv.keys().cloned().collect();
        if b_cids != a_cids {
            ctx.oracle_fail("ruv-cids-differ", done, d(json!({})), format!("{a_cids:?}"), format!("{b_cids:?}"));
        }
        if b.ranged != a.ranged {
            ctx.oracle_fail("ruv-ranges-differ", done, d(json!({})), format!("{:?}", a.ranged), format!("{:?}", b.ranged));
        }
        if reopened {
            // each cid lists exactly the restored entries whose change state mentions it …
            for (c, ids) in &b.ruv {
                let want: Vec<u64> = b.rows.iter().filter(|(_, j)| row_cids(j).contains(c)).map(|(i, _)| *i).collect();
                let mut got = ids.clone();
                got.sort();
                if got != want {
                    ctx.oracle_fail("ruv-idl-differs", done, d(json!({"cid": format!("{c:?}")})), format!("{want:?}"), format!("{got:?}"));
                    break;
                }
                // … which the original listed too (under its own ids)
                let map: BTreeMap<u64, u64> = a.rows.iter().zip(b.rows.iter()).map(|((ia, _), (ib, _))| (*ib, *ia)).collect();
                if let Some(a_ids) = a.ruv.get(c) {
                    if let Some(miss) = want.iter().find(|ib| !map.get(ib).map(|ia| a_ids.contains(ia)).unwrap_or(false)) {
                        ctx.oracle_fail("original-ruv-idl-lacks-entry", done, d(json!({"cid": format!("{c:?}")})), format!("id {miss} listed"), format!("{a_ids:?}"));
                        break;
                    }
                }
            }
            if b.maxid != b.rows.last().map(|x| x.0).unwrap_or(0) {
                ctx.oracle_fail("id-cache-after-reopen", done, d(json!({})), b.rows.len().to_string(), b.maxid.to_string());
            }
        } else if mode == "started" {
        } else if b.maxid != pre.maxid.max(0) {
            // observed, not required by the statement: the id cache is what it was before the restore
            ctx.rep.count("note:id-cache-refreshed-by-restore");
        } else if b.maxid < b.rows.len() as u64 {
            ctx.rep.count("note:id-cache-stale-after-restore");
        }
    }

    #[allow(clippy::too_many_arguments)]
    fn refusals(&self, ctx: &mut Ctx, r: &mut Rng, enc: &mut Enc, series: u64, series_s: &str, be_b: &Backend, path_b: &Path, doc: &J, plain: &[u8], gz: &[u8], done: &[Op]) {
        let mut variants: Vec<(&'static str, Vec<u8>, BackupCompression, Option<J>, &'static str)> = vec![];
        let obj = doc.as_object().cloned().unwrap_or_default();
        let without = |keys: &[&str]| -> J {
            let mut o = obj.clone();
            for k in keys {
                o.remove(*k);
            }
            J::Object(o)
        };
        let ser = |j: &J| serde_json::to_vec(j).unwrap_or_default();
        let pick = r.below(5);
        // (name, bytes, compression used to read, what the document deserialises to for the model, expected error)
        let mut other = obj.clone();
        other.insert("version".into(), J::String(if r.chance(1, 2) { "0.0".into() } else { format!("{series_s}x") }));
        let other = J::Object(other);
        variants.push(("other-version", ser(&other), BackupCompression::NoCompression, Some(other.clone()), "mismatchedVersion"));
        match pick {
            0 => {
                let d = without(&["version"]);
                variants.push(("v4-no-version", ser(&d), BackupCompression::NoCompression, Some(d), "olderVersion"));
            }
            1 => {
                let d = without(&["version", "repl_meta"]);
                variants.push(("v3-no-repl-meta", ser(&d), BackupCompression::NoCompression, Some(d), "olderVersion"));
            }
            2 => {
                let d = without(&["version", "repl_meta", "keyhandles"]);
                variants.push(("v2-no-keyhandles", ser(&d), BackupCompression::NoCompression, Some(d), "olderVersion"));
            }
            3 => {
                let d = doc["entries"].clone();
                variants.push(("v1-entry-array", ser(&d), BackupCompression::NoCompression, Some(d), "olderVersion"));
            }
            _ => {
                // a current document that lost a field in the middle: fits an older variant
                let d = without(&["repl_meta"]);
                variants.push(("v5-without-repl-meta", ser(&d), BackupCompression::NoCompression, Some(d), "olderVersion"));
            }
        }
        let cut = 1 + r.below(plain.len().max(2) as u64 - 1) as usize;
        variants.push(("plain-truncated", plain[..cut].to_vec(), BackupCompression::NoCompression, None, "serdeJson"));
        if r.chance(1, 3) {
            variants.push(("plain-last-byte-missing", plain[..plain.len() - 1].to_vec(), BackupCompression::NoCompression, None, "serdeJson"));
        }
        let cutz = 1 + r.below(gz.len().max(2) as u64 - 1) as usize;
        variants.push(("gzip-truncated", gz[..cutz].to_vec(), BackupCompression::Gzip, None, "serdeJson"));
        match r.below(4) {
            0 => variants.push(("gzip-read-as-plain", gz.to_vec(), BackupCompression::NoCompression, None, "serdeJson")),
            1 => variants.push(("plain-read-as-gzip", plain.to_vec(), BackupCompression::Gzip, None, "serdeJson")),
            2 => variants.push(("empty-file", vec![], if r.chance(1, 2) { BackupCompression::Gzip } else { BackupCompression::NoCompression }, None, "serdeJson")),
            _ => {
                let mut g = gz.to_vec();
                let at = 10 + r.below(g.len() as u64 - 18) as usize;
                g[at] ^= 1 << r.below(8);
                variants.push(("gzip-bit-flip", g, BackupCompression::Gzip, None, "serdeJson"));
            }
        }
        let before = match snapshot(be_b, path_b) {
            Ok(s) => s,
            Err(e) => {
                ctx.model_fail("snapshot", done, "snapshot".into(), e);
                return;
            }
        };
        let line_before = enc.state(&before);
        for (name, bytes, comp, model_doc, expect) in variants {
            ctx.rep.count(&format!("refusal:{name}"));
            let res = {
                let mut w = match be_b.write() {
                    Ok(w) => w,
                    Err(_) => return,
                };
                w.restore(bytes.as_slice(), comp).and_then(|_| w.commit())
            };
            let after = match snapshot(be_b, path_b) {
                Ok(s) => s,
                Err(e) => {
                    ctx.model_fail("snapshot", done, "snapshot".into(), e);
                    return;
                }
            };
            let det = json!({"refusal": name});
            match &res {
                Ok(()) => {
                    if name == "gzip-bit-flip" {
                        // a flip the format does not protect (header fields): then the content must be the backup's
                        ctx.rep.count("refusal:gzip-bit-flip-still-decodes");
                        if after.rows != before.rows || after.db_ruv != before.db_ruv || after.s_uuid != before.s_uuid {
                            ctx.oracle_fail("damaged-gzip-restored-other-content", done, det, "refused, or the same content".into(), "restored with different content".into());
                        }
                    } else {
                        ctx.oracle_fail(&format!("not-refused:{name}"), done, det, format!("Err({expect})"), "Ok".into());
                    }
                    continue;
                }
                Err(e) => {
                    let code = err_code(e);
                    ctx.rep.count(&format!("refused-with:{code}"));
                    if (name == "other-version" && code != "mismatchedVersion") || (expect == "olderVersion" && code != "olderVersion") {
                        ctx.oracle_fail(&format!("wrong-refusal:{name}"), done, det.clone(), expect.into(), format!("{e:?}"));
                    }
                    if name != "gzip-bit-flip" {
                        if let Some(reply) = ctx.ask(&format!("server {series} 1 {} {line_before}", enc.doc(&model_doc))) {
                            let want = match reply.split_once(' ') {
                                Some((a, b)) => format!("{a} {}", canon_line(b)),
                                None => reply.clone(),
                            };
                            let got = format!("{code} {}", canon_line(&enc.state(&after)));
                            if got != want {
                                ctx.model_fail(&format!("refusal:{name}"), done, want, got);
                            }
                        }
                    }
                }
            }
            if after != before {
                let what = if after.rows != before.rows {
                    "entries"
                } else if after.db_ruv != before.db_ruv || after.ruv != before.ruv || after.ranged != before.ranged {
                    "ruv"
                } else if after.other != before.other {
                    "indexes"
                } else {
                    "identifiers"
                };
                ctx.oracle_fail(&format!("refused-restore-changed-database:{what}"), done, det, "database unchanged".into(), format!("{} rows, {} cids (before {} rows, {} cids)", after.rows.len(), after.db_ruv.len(), before.rows.len(), before.db_ruv.len()));
            }
        }
    }

    /// Start a server on the restored database, as the process after `restore_server_core` does, restart the
    /// original the same way at the same clock, and compare the two servers.
    #[allow(clippy::too_many_arguments)]
    fn full_server(&mut self, ctx: &mut Ctx, be_b: Backend, schema_b: Schema, path_b: &Path, done: &[Op], det: &J) -> Result<(), String> {
        let e = |x: OperationError| format!("{x:?}");
        let t1 = self.ct + Duration::from_secs(1);
        let t2 = self.ct + Duration::from_secs(2);
        self.ct += Duration::from_secs(3);
        let qs_b = QueryServer::new(be_b.clone(), schema_b, "example.com".to_string(), Duration::ZERO).map_err(e)?;
        if let Err(err) = ctx.rt.block_on(qs_b.initialise_helper(t1, DOMAIN_TGT_LEVEL)) {
            ctx.oracle_fail("server-start-on-restored-db-failed", done, det.clone(), "Ok".into(), format!("{err:?}"));
            return Ok(());
        }
        {
            let mut w = ctx.rt.block_on(qs_b.write(t2)).map_err(e)?;
            if let Err(err) = w.reindex(false).and_then(|_| w.commit()) {
                ctx.oracle_fail("server-reindex-on-restored-db-failed", done, det.clone(), "Ok".into(), format!("{err:?}"));
                return Ok(());
            }
        }
        // the original goes through the very same start-up
        self.restart_a(ctx, t1)?;
        {
            let mut w = ctx.rt.block_on(self.a.qs.write(t2)).map_err(e)?;
            w.reindex(false).and_then(|_| w.commit()).map_err(e)?;
        }
        let sa = snapshot(&self.a.be, &self.a.path)?;
        let sb = snapshot(&be_b, path_b)?;
        let det2 = json!({"after": "server start on both", "case": det});
        self.judge_restored(ctx, &sa, &sb, &sb, done, &det2, "started");
        let mut ra = ctx.rt.block_on(self.a.qs.read()).map_err(e)?;
        let mut rb = ctx.rt.block_on(qs_b.read()).map_err(e)?;
        // the consistency check: the restored server reports nothing the original (same start-up) does not report
        // itself — entry ids in the reports are translated through the renumbering
        let b2a: BTreeMap<String, String> = sa.rows.iter().zip(sb.rows.iter()).map(|((a, _), (b, _))| (b.to_string(), a.to_string())).collect();
        let renum = |v: &str| -> String {
            let mut out = String::new();
            let mut num = String::new();
            for ch in v.chars().chain(std::iter::once(' ')) {
                if ch.is_ascii_digit() {
                    num.push(ch);
                } else {
                    if !num.is_empty() {
                        out.push_str(b2a.get(&num).unwrap_or(&num));
                        num.clear();
                    }
                    out.push(ch);
                }
            }
            out.trim_end().to_string()
        };
        let va = hk::qs_verify(&mut ra);
        let vb: Vec<String> = hk::qs_verify(&mut rb).iter().map(|x| renum(x)).collect();
        if !va.is_empty() {
            ctx.rep.count("note:original-fails-its-own-verify");
        }
        let extra: Vec<&String> = vb.iter().filter(|x| !va.contains(x)).collect();
        if !extra.is_empty() {
            ctx.oracle_fail("server-verify-after-restore", done, det.clone(), format!("{va:?}"), format!("{vb:?}"));
        }
        // every entry, hidden ones included, by uuid
        let dump = |txn: &mut QueryServerReadTransaction| -> Result<Vec<(Uuid, J)>, String> {
            let all = txn.internal_search(Filter::new(FC::Pres(Attribute::Class))).map_err(e)?;
            let mut out = vec![];
            for en in all.iter() {
                let s = hk12::entry_to_db_json(en)?;
                out.push((en.get_uuid(), serde_json::from_str::<J>(&s).map_err(|x| x.to_string())?));
            }
            Ok(out)
        };
        let ea = dump(&mut ra)?;
        let eb = dump(&mut rb)?;
        let ma: BTreeMap<Uuid, &J> = ea.iter().map(|(u, j)| (*u, j)).collect();
        let mb: BTreeMap<Uuid, &J> = eb.iter().map(|(u, j)| (*u, j)).collect();
        let mut touched = 0;
        for (uu, ja) in &ma {
            match mb.get(uu) {
                None => {
                    ctx.oracle_fail("server-entry-missing", done, json!({"case": det, "uuid": uu.to_string()}), "present".into(), "absent".into());
                    break;
                }
                Some(jb) if jb != ja => {
                    touched += 1;
                    ctx.oracle_fail("server-entry-differs", done, json!({"case": det, "uuid": uu.to_string()}), ja.to_string(), jb.to_string());
                    break;
                }
                _ => {}
            }
        }
        let _ = touched;
        if let Some(extra) = mb.keys().find(|k| !ma.contains_key(k)) {
            ctx.oracle_fail("server-entry-appeared", done, json!({"case": det, "uuid": extra.to_string()}), "absent".into(), "present".into());
        }
        // searches
        let battery = search_battery(self.created);
        for (name, f) in battery {
            let qa = ra.internal_search(f.clone());
            let qb = rb.internal_search(f);
            let show = |q: &Result<Vec<std::sync::Arc<kanidmd_lib::entry::EntrySealedCommitted>>, OperationError>| match q {
                Ok(v) => v.iter().map(|x| x.get_uuid().to_string()).collect::<Vec<_>>().join(","),
                Err(x) => format!("Err({x:?})"),
            };
            let (sa_, sb_) = (show(&qa), show(&qb));
            ctx.rep.count("search-compared");
            if qa.as_ref().map(|v| !v.is_empty()).unwrap_or(false) {
                ctx.rep.count("search-compared:non-empty");
            }
            if sa_ != sb_ {
                ctx.oracle_fail("search-answer-differs", done, json!({"case": det, "filter": name}), clip(&sa_), clip(&sb_));
                break;
            }
        }
        drop(ra);
        drop(rb);
        // index and name tables, up to the renumbering of entry ids
        let idmap: BTreeMap<String, String> = sa.rows.iter().zip(sb.rows.iter()).map(|((a, _), (b, _))| (a.to_string(), b.to_string())).collect();
        for (t, rows_a) in &sa.other {
            let Some(rows_b) = sb.other.get(t) else {
                ctx.oracle_fail("index-table-missing", done, json!({"case": det, "table": t}), "present".into(), "absent".into());
                break;
            };
            let mapped: Vec<Vec<String>> = if t.starts_with("idx_eq_") || t.starts_with("idx_sub_") || t.starts_with("idx_pres_") || t.starts_with("idx_ord_") {
                let mut m: Vec<Vec<String>> = rows_a
                    .iter()
                    .map(|r| {
                        let mut r2 = r.clone();
                        if let Some(idl) = r2.get_mut(1) {
                            *idl = remap_idl(idl, &idmap);
                        }
                        r2
                    })
                    .collect();
                m.sort();
                m
            } else {
                rows_a.clone()
            };
            let norm_b: Vec<Vec<String>> = if t.starts_with("idx_eq_") || t.starts_with("idx_sub_") || t.starts_with("idx_pres_") || t.starts_with("idx_ord_") {
                let ident: BTreeMap<String, String> = BTreeMap::new();
                let mut m: Vec<Vec<String>> = rows_b
                    .iter()
                    .map(|r| {
                        let mut r2 = r.clone();
                        if let Some(idl) = r2.get_mut(1) {
                            *idl = remap_idl(idl, &ident);
                        }
                        r2
                    })
                    .collect();
                m.sort();
                m
            } else {
                rows_b.clone()
            };
            // rows whose id set is empty say the same as an absent row
            let strip = |v: Vec<Vec<String>>| -> Vec<Vec<String>> { v.into_iter().filter(|r| r.get(1).map(|x| x != "[]").unwrap_or(true)).collect() };
            let (x, y) = (strip(mapped), strip(norm_b));
            ctx.rep.count("index-table-compared");
            if x != y {
                let diff = x.iter().find(|r| !y.contains(r)).or_else(|| y.iter().find(|r| !x.contains(r))).cloned().unwrap_or_default();
                ctx.oracle_fail("index-table-differs", done, json!({"case": det, "table": t}), format!("{} rows", x.len()), format!("{} rows; first difference {:?}", y.len(), diff));
                break;
            }
        }
        // both servers go on: the same create at the same clock must leave them equal again
        let t3 = self.ct + Duration::from_secs(1);
        self.ct += Duration::from_secs(2);
        self.post += 1;
        let k = 9000 + self.post;
        let mut outcomes = vec![];
        for qs in [&self.a.qs, &qs_b] {
            let res = ctx.rt.block_on(qs.write(t3)).and_then(|mut w| w.internal_create(vec![group_entry(k, k, &[], "post")]).and_then(|_| w.commit()));
            outcomes.push(format!("{res:?}"));
        }
        if outcomes[0] != outcomes[1] {
            ctx.oracle_fail("write-after-restore-differs", done, det.clone(), outcomes[0].clone(), outcomes[1].clone());
        }
        let mut ra = ctx.rt.block_on(self.a.qs.read()).map_err(e)?;
        let mut rb = ctx.rt.block_on(qs_b.read()).map_err(e)?;
        let (ea, eb) = (dump(&mut ra)?, dump(&mut rb)?);
        let ma: BTreeMap<Uuid, &J> = ea.iter().map(|(u, j)| (*u, j)).collect();
        let mb: BTreeMap<Uuid, &J> = eb.iter().map(|(u, j)| (*u, j)).collect();
        if ma != mb {
            let bad = ma.iter().find(|(k, v)| mb.get(*k) != Some(*v)).map(|(k, _)| k.to_string()).or_else(|| mb.keys().find(|k| !ma.contains_key(*k)).map(|k| k.to_string()));
            ctx.oracle_fail("entries-differ-after-further-write", done, json!({"case": det, "uuid": bad}), format!("{} entries", ma.len()), format!("{} entries", mb.len()));
        }
        ctx.rep.count("write-after-restore-compared");
        Ok(())
    }
}

/// The id set of an index row (any of the stored encodings) as a sorted list after renaming the ids.
fn remap_idl(idl: &str, map: &BTreeMap<String, String>) -> String {
    let mut ids: Vec<u64> = vec![];
    if let Ok(j) = serde_json::from_str::<J>(idl) {
        collect_ids(&j, &mut ids);
    }
    let mut out: Vec<u64> = ids
        .iter()
        .map(|i| map.get(&i.to_string()).and_then(|x| x.parse().ok()).unwrap_or(if map.is_empty() { *i } else { u64::MAX - *i }))
        .collect();
    out.sort();
    format!("{out:?}")
}

/// `IDLBitRange` serialises either as a sparse list of ids or as (base, 64-bit mask) ranges.
fn collect_ids(j: &J, out: &mut Vec<u64>) {
    match j {
        J::Object(o) => {
            for (k, v) in o {
                match (k.as_str(), v) {
                    // {"t":"Sparse","d":[ids]} / {"t":"Compressed","d":[{"r":base,"m":mask}]} style encodings
                    (_, J::Array(a)) => {
                        for x in a {
                            match x {
                                J::Number(n) => {
                                    if let Some(i) = n.as_u64() {
                                        out.push(i)
                                    }
                                }
                                J::Object(r) => {
                                    let base = r.get("r").or_else(|| r.get("range")).and_then(|x| x.as_u64());
                                    let mask = r.get("m").or_else(|| r.get("mask")).and_then(|x| x.as_u64());
                                    if let (Some(b), Some(m)) = (base, mask) {
                                        for bit in 0..64 {
                                            if m & (1u64 << bit) != 0 {
                                                out.push(b + bit);
                                            }
                                        }
                                    } else {
                                        collect_ids(x, out);
                                    }
                                }
                                other => collect_ids(other, out),
                            }
                        }
                    }
                    (_, other) => collect_ids(other, out),
                }
            }
        }
        J::Array(a) => {
            for x in a {
                match x {
                    J::Number(n) => {
                        if let Some(i) = n.as_u64() {
                            out.push(i)
                        }
                    }
                    other => collect_ids(other, out),
                }
            }
        }
        _ => {}
    }
}

fn search_battery(created: u64) -> Vec<(String, Filter<kanidmd_lib::filter::FilterInvalid>)> {
    let mut v: Vec<(String, FC)> = vec![];
    let pv_name = |s: &str| PartialValue::new_iname(s);
    v.push(("pres class (all, hidden too)".into(), FC::Pres(Attribute::Class)));
    v.push(("class=person".into(), FC::Eq(Attribute::Class, EntryClass::Person.into())));
    v.push(("class=group".into(), FC::Eq(Attribute::Class, EntryClass::Group.into())));
    v.push(("class=recycled".into(), FC::Eq(Attribute::Class, EntryClass::Recycled.into())));
    v.push(("class=tombstone".into(), FC::Eq(Attribute::Class, EntryClass::Tombstone.into())));
    v.push(("class=conflict".into(), FC::Eq(Attribute::Class, EntryClass::Conflict.into())));
    v.push(("class=oauth2_resource_server".into(), FC::Eq(Attribute::Class, EntryClass::OAuth2ResourceServer.into())));
    v.push(("pres oauth2_rs_scope_map".into(), FC::Pres(Attribute::OAuth2RsScopeMap)));
    v.push(("name cnt c13".into(), FC::Cnt(Attribute::Name, pv_name("c13"))));
    v.push(("name cnt 13p".into(), FC::Cnt(Attribute::Name, pv_name("13p"))));
    v.push(("pres mail".into(), FC::Pres(Attribute::Mail)));
    v.push(("pres member".into(), FC::Pres(Attribute::Member)));
    v.push(("pres primary_credential".into(), FC::Pres(Attribute::PrimaryCredential)));
    v.push(("pres memberof".into(), FC::Pres(Attribute::MemberOf)));
    v.push(("and[class=group, andnot pres member]".into(), FC::And(vec![FC::Eq(Attribute::Class, EntryClass::Group.into()), FC::AndNot(Box::new(FC::Pres(Attribute::Member)))])));
    v.push(("or[class=person, class=service_account]".into(), FC::Or(vec![FC::Eq(Attribute::Class, EntryClass::Person.into()), FC::Eq(Attribute::Class, EntryClass::ServiceAccount.into())])));
    for i in 1..=created.min(6) {
        v.push((format!("name=c13p{i}"), FC::Eq(Attribute::Name, pv_name(&format!("c13p{i}")))));
        v.push((format!("uuid=g{i}"), FC::Eq(Attribute::Uuid, PartialValue::Uuid(u(1000 + i)))));
        v.push((format!("member=p{i}"), FC::Eq(Attribute::Member, PartialValue::Refer(u(i)))));
        v.push((format!("memberof=g{i}"), FC::Eq(Attribute::MemberOf, PartialValue::Refer(u(1000 + i)))));
        v.push((format!("mail=c13p{i}@example.com"), FC::Eq(Attribute::Mail, PartialValue::EmailAddress(format!("c13p{i}@example.com")))));
    }
    let mut out = vec![];
    for (n, fc) in v {
        out.push((format!("{n} [all]"), Filter::new(fc.clone())));
        out.push((format!("{n} [live]"), Filter::new_ignore_hidden(fc.clone())));
        out.push((format!("{n} [recycled]"), Filter::new_recycled(fc)));
    }
    out
}

/// `restore_server_core` goes on in the SAME process (reindex, server start) on the backend it restored into.
/// Whatever that process creates next must not cost a restored entry (regression of the stale id cache:
/// `write_identries_raw` did not refresh the cached maximum id, the next create got id 1 and replaced entry 1).
fn probe_same_process(ctx: &mut Ctx) -> Result<(), String> {
    let e = |x: OperationError| format!("{x:?}");
    let t0 = Duration::from_secs(2_000_000_000);
    let pa = ctx.fresh_path("pa");
    rm_db(&pa);
    let a = start(&ctx.rt, &pa, t0)?;
    {
        let mut w = ctx.rt.block_on(a.qs.write(t0 + Duration::from_secs(5))).map_err(e)?;
        w.internal_create(vec![person_entry(1, 1, t0), group_entry(2, 2, &[('p', 1)], "")]).map_err(e)?;
        w.commit().map_err(e)?;
    }
    let bk = ctx.dir.join("probe.json");
    let _ = std::fs::remove_file(&bk);
    {
        let out = std::fs::File::create(&bk).map_err(|x| x.to_string())?;
        let mut txn = a.be.read().map_err(e)?;
        txn.backup(out, BackupCompression::NoCompression).map_err(e)?;
    }
    let pb = ctx.fresh_path("pb");
    rm_db(&pb);
    let (be_b, schema_b) = mk_backend(&pb);
    {
        let input = std::fs::File::open(&bk).map_err(|x| x.to_string())?;
        let mut w = be_b.write().map_err(e)?;
        w.restore(input, BackupCompression::NoCompression).and_then(|_| w.commit()).map_err(e)?;
    }
    {
        let mut w = be_b.write().map_err(e)?;
        w.reindex(false).and_then(|_| w.commit()).map_err(e)?;
    }
    let before = snapshot(&be_b, &pb)?;
    // the same Backend object, as in restore_server_core -> reindex_inner -> setup_qs_idms
    let qs_b = QueryServer::new(be_b.clone(), schema_b, "example.com".to_string(), Duration::ZERO).map_err(e)?;
    ctx.rt.block_on(qs_b.initialise_helper(t0 + Duration::from_secs(10), DOMAIN_TGT_LEVEL)).map_err(e)?;
    {
        let mut w = ctx.rt.block_on(qs_b.write(t0 + Duration::from_secs(20))).map_err(e)?;
        w.internal_create(vec![group_entry(9, 9, &[], "probe")]).map_err(e)?;
        w.commit().map_err(e)?;
    }
    let after = snapshot(&be_b, &pb)?;
    let uu = |s: &State| -> BTreeSet<String> { s.rows.iter().map(|(_, j)| row_uuid(j)).collect() };
    let lost: Vec<String> = uu(&before).difference(&uu(&after)).cloned().collect();
    let new_id = after.rows.iter().find(|(_, j)| row_uuid(j).contains("c130")).map(|x| x.0);
    let new_ids: Vec<u64> = after.rows.iter().filter(|(_, j)| !uu(&before).contains(&row_uuid(j))).map(|x| x.0).collect();
    let _ = new_id;
    ctx.rep.note(format!(
        "probe same-process create after restore: cached max id before the create {}, {} restored entries, the created entry got id {:?}, restored entries lost: {:?}",
        before.maxid,
        before.rows.len(),
        new_ids,
        lost
    ));
    ctx.rep.count(if lost.is_empty() { "probe:create-after-restore-kept-all-entries" } else { "probe:create-after-restore-overwrote-an-entry" });
    ctx.rep.case(Some("probe same-process create after restore".into()));
    let probe_ops = [Op::Person(1, 1), Op::Group(2, 2), Op::Check(0)];
    if !lost.is_empty() || new_ids.iter().any(|i| *i <= before.rows.len() as u64) || after.rows.len() != before.rows.len() + new_ids.len() {
        ctx.oracle_fail(
            "restore-stale-id-cache-overwrites-entry",
            &probe_ops,
            json!({"probe": "same-process: restore, commit, reindex, server start, create one group — all on one Backend object"}),
            format!("every one of the {} restored entries is still there and the new entry gets an id above {}", before.rows.len(), before.rows.len()),
            format!("new ids {new_ids:?}, lost {lost:?}, cached max id after the restore {}", before.maxid),
        );
    }
    drop(qs_b);
    drop(be_b);
    drop(a);
    rm_db(&pa);
    rm_db(&pb);
    Ok(())
}

fn run_history(ctx: &mut Ctx, ops: &[Op]) -> Result<(), String> {
    let t0 = Duration::from_secs(2_000_000_000);
    let pa = ctx.fresh_path("a");
    rm_db(&pa);
    let a = start(&ctx.rt, &pa, t0)?;
    let mut h = Hist { a: Slot(Some(a)), c: None, ct: t0, prev_b: None, created: 0, kinds: vec![], groups: vec![], post: 0 };
    for (k, op) in ops.iter().enumerate() {
        let done = &ops[..=k];
        match h.apply(ctx, op, done) {
            Ok(()) => ctx.rep.count(&format!("op:{}", op.show().split(' ').next().unwrap_or(""))),
            Err(err) => {
                ctx.rep.count(&format!("op-failed:{}", op.show().split(' ').next().unwrap_or("")));
                if matches!(op, Op::Check(_)) {
                    ctx.model_fail("check-aborted", done, "the check runs".into(), err);
                }
            }
        }
    }
    if let Some((be, p)) = h.prev_b.take() {
        drop(be);
        rm_db(&p);
    }
    let pa = h.a.path.clone();
    drop(h);
    rm_db(&pa);
    Ok(())
}

fn main() {
    if std::env::var_os("RUST_LOG").is_none() {
        std::env::set_var("RUST_LOG", "off");
    }
    let args = Args::parse();
    let rt = tokio::runtime::Builder::new_current_thread().enable_all().build().unwrap();
    let mut ctx = Ctx {
        rt,
        drv: if args.driver.is_empty() { None } else { Some(Driver::spawn(&args.driver)) },
        rep: Report::new(
            "backup-rt",
            "random server-level histories on a file-backed server (persons with credentials/TOTP/ssh/sessions, groups, service accounts with api \
             tokens, modifies, purges, recycle/revive, tombstones, tombstone reaping + RUV trim, key-handle renewal, restarts, conflict entries by \
             replication); at every check: plain + gzip backup files, each restored into a fresh (or previously restored) file-backed backend, \
             compared table by table, reopened, verified, a server started on it and compared entry by entry / index by index / search by \
             search, then 5-6 damaged or foreign documents refused. case = one (check, compression); non-trivial = the backup holds >= 1 \
             history-created entry and >= 2 RUV cids; distinct = (entry count, compression, fresh/reused target, RUV cid set)",
        ),
        dir: scratch(),
        model_fails: 0,
        oracle_failed: false,
        counter: 0,
        budget: args.budget,
    };
    let replay_ops: Option<Vec<Op>> = args.replay.as_ref().and_then(|p| {
        let v: J = serde_json::from_str(&std::fs::read_to_string(p).ok()?).ok()?;
        let ops = v["input"]["ops"].as_array()?;
        Some(ops.iter().filter_map(|s| s.as_str().and_then(Op::parse)).collect())
    });
    if let Some(ops) = replay_ops {
        if let Err(e) = run_history(&mut ctx, &ops) {
            ctx.model_fail("history-aborted", &ops, "the history runs".into(), e);
        }
    } else {
        // a search (budget > 1) is bounded by the check script's timeout: cap the number of histories
        let n = if args.budget > 1 { args.cases(5, 70).min(if args.thorough() { 160 } else { 60 }) } else { args.cases(5, 70) };
        for i in 0..n {
            let mut r = Rng::for_case(args.seed, i);
            let ops = gen_history(&mut r, args.budget);
            if ctx.rep.samples.len() < 3 {
                ctx.rep.sample(json!({"history": i, "ops": ops.iter().map(|o| o.show()).collect::<Vec<_>>()}));
            }
            if let Err(e) = run_history(&mut ctx, &ops) {
                ctx.model_fail("history-aborted", &ops, "the history runs".into(), e);
            }
            if ctx.oracle_failed {
                // shrink the first oracle failure: drop ops while a failure of the same class remains
                if let Some(f) = ctx.rep.failures.iter().find(|f| f.kind == "impl-vs-oracle").cloned() {
                    let class = f.class.clone();
                    let full: Vec<Op> = f.input["ops"].as_array().map(|a| a.iter().filter_map(|s| s.as_str().and_then(Op::parse)).collect()).unwrap_or_default();
                    let mut budget = 25;
                    let small = shrink_list(full, |cand| {
                        if budget == 0 || cand.is_empty() || !matches!(cand.last(), Some(Op::Check(_))) {
                            return false;
                        }
                        budget -= 1;
                        let mut sub = Ctx {
                            rt: tokio::runtime::Builder::new_current_thread().enable_all().build().unwrap(),
                            drv: None,
                            rep: Report::new("shrink", ""),
                            dir: ctx.dir.clone(),
                            model_fails: 0,
                            oracle_failed: false,
                            counter: ctx.counter + 1000 * (26 - budget),
                            budget: 1,
                        };
                        let _ = run_history(&mut sub, cand);
                        sub.rep.failures.iter().any(|x| x.kind == "impl-vs-oracle" && x.class == class)
                    });
                    if let Some(slot) = ctx.rep.failures.iter_mut().find(|x| x.kind == "impl-vs-oracle" && x.class == class) {
                        slot.input["ops"] = json!(small.iter().map(|o| o.show()).collect::<Vec<_>>());
                    }
                }
                break;
            }
        }
        if !ctx.oracle_failed {
            if let Err(e) = probe_same_process(&mut ctx) {
                ctx.rep.note(format!("probe same-process create after restore did not run: {e}"));
            }
        }
        // coverage floor
        let h = &ctx.rep.histogram;
        let mut low = vec![];
        for k in ["backup:with-tombstones", "backup:with-recycled", "restore-into:fresh", "full-server-compare", "refused-with:mismatchedVersion", "refused-with:olderVersion", "refused-with:serdeJson"] {
            if h.get(k).cloned().unwrap_or(0) == 0 {
                low.push(k);
            }
        }
        if !low.is_empty() && !ctx.oracle_failed {
            let ls = format!("{low:?}");
            ctx.model_fail("coverage-floor", &[], "tombstones, recycled entries, fresh restores, server comparisons and all three refusal kinds occur".into(), ls);
        }
    }
    ctx.rep.model_requests = ctx.drv.as_ref().map(|d| d.requests).unwrap_or(0);
    let _ = std::io::stdout().flush();
    ctx.rep.write(&args.out);
    let _ = std::fs::remove_dir_all(&ctx.dir);
    println!("c13: {} cases, {} distinct, {} failures", ctx.rep.evaluations, ctx.rep.nontrivial_keys.len(), ctx.rep.failures.len());
}
