//! C06 harness — read transactions see one consistent committed state.
//!
//! The real code: an `IdmServer` over a **file-backed** SQLite database (pool 4) booted from a copy of
//! a baseline file (same fixture as C04).  One writer transaction that changes two related entries (a
//! group created with the test person as member ⇒ the person's `memberof`), other entries and server
//! configuration (domain display name, an access-control profile, an OAuth2 client) and one reader
//! (`IdmServer::proxy_read` + a fixed list of queries, run twice inside the same read transaction).
//!
//! Schedules (hook-free):
//!  * `before`   read()+queries, then the writer commits, then the same queries again in the same txn
//!  * `after`    the writer commits, then read()+queries (twice)
//!  * `deferred` read() only, then the writer commits, then the queries (twice) — `read()` executes
//!               `BEGIN DEFERRED`, the SQLite snapshot is taken by the first statement
//!  * `pause:T`  the writer runs on a second thread and is held inside `commit()` at its first
//!               statement on table T (db_op_ts | ruv | id2entry) by a trigger that burns ~1 s in a
//!               cross join (created through a second SQLite connection); the reader starts and
//!               queries inside that window; re-queries after the commit finished
//!  * `pause-late:T` read() inside the window, first query after the commit finished
//! each with a cold cache (fresh boot) and a warm cache (a full read before).
//!
//! Writers: besides single configuration changes, one writer sets every reload-flagged thing at once
//! (system_config badlist, access control profile, OAuth2 client + key object, domain display name) and
//! six pair writers set exactly two of them — `reload()` at the start of commit dispatches per flag.
//!
//! Oracle 1 (property text only): inside one read transaction that does not overlap the commit, every
//! loaded configuration observable belongs to the same committed state as the stored entries the
//! transaction reads (`incoherent`).
//! Oracle 2 (property text only): what a read transaction observes equals, component by component, what
//! a quiescent reader observed before the writer (`V_old`) — all of it — or what a quiescent reader
//! observes after it (`V_new`) — all of it; and the second run of the queries in the same read
//! transaction returns what the first run returned.
//! Correspondence: `km_c06` (generated reader and writer orders) predicts old/new per observable for
//! the schedule (`atomicRead k sel`); stored-data observables may come from the reader's cache
//! snapshot or from its database snapshot, so they must be at one of those two predicted versions.
use hlib::*;
use kanidm_proto::internal::FsType;
use kanidmd_lib::be::{Backend, BackendConfig};
use kanidmd_lib::entry::{Entry, EntryInit, EntryNew};
use kanidmd_lib::filter::{f_eq, f_pres, Filter};
use kanidmd_lib::idm::server::{IdmServer, IdmServerAudit, IdmServerDelayed, IdmServerProxyReadTransaction, IdmServerProxyWriteTransaction};
use kanidmd_lib::prelude::*;
use kanidmd_lib::schema::{Schema, SchemaTransaction};
use kanidmd_lib::value::{PartialValue, Value};
use rusqlite::types::ValueRef;
use rusqlite::Connection;
use serde_json::{json, Value as J};
use std::collections::{BTreeMap, BTreeSet};
use std::path::{Path, PathBuf};
use std::time::{Duration, Instant};
use url::Url;

const BASE: u64 = 1_700_000_000;
const U_PERSON: Uuid = Uuid::from_u128(0xc04c04c0_0000_4000_8000_000000000001);
const U_GROUP: Uuid = Uuid::from_u128(0xc04c04c0_0000_4000_8000_000000000002);
const U_TARGET: Uuid = Uuid::from_u128(0xc04c04c0_0000_4000_8000_000000000003);
const U_VICTIM: Uuid = Uuid::from_u128(0xc04c04c0_0000_4000_8000_000000000004);
const U_BASECLIENT: Uuid = Uuid::from_u128(0xc04c04c0_0000_4000_8000_000000000005);
const U_CLIENT: Uuid = Uuid::from_u128(0xc04c04c0_0000_4000_8000_000000000006);
const U_ATTR: Uuid = Uuid::from_u128(0xc04c04c0_0000_4000_8000_000000000007);
const U_ACP: Uuid = Uuid::from_u128(0xc04c04c0_0000_4000_8000_000000000008);
fn u_new(n: u64) -> Uuid {
    Uuid::from_u128(0xc04c04c0_0000_4000_8000_000000010000 + n as u128)
}

fn ct(k: u64) -> Duration {
    Duration::from_secs(BASE + k)
}

type Obs = BTreeMap<String, String>;

/// Domain level the servers are booted at: 0 = `DOMAIN_TGT_LEVEL`; the `raise` kind uses a second
/// baseline at `DOMAIN_PREVIOUS_TGT_LEVEL` (at the target level the in-memory schema is static, so
/// the domain upgrade is the one transaction that observably changes the schema).
static CUR_LEVEL: std::sync::atomic::AtomicU32 = std::sync::atomic::AtomicU32::new(0);
fn cur_level() -> u32 {
    match CUR_LEVEL.load(std::sync::atomic::Ordering::SeqCst) {
        0 => DOMAIN_TGT_LEVEL,
        l => l,
    }
}

// ------------------------------------------------------------------------------------------------
// operations
// ------------------------------------------------------------------------------------------------

#[derive(Clone, Debug, PartialEq)]
enum Op {
    Create(u64),
    Modify(u64),
    Delete,
    Schema,
    Acp,
    OAuth2,
    OAuth2Del,
    Domain(u64),
    /// append a password to the badlist of the system_config entry (reload flag SYSTEM_CONFIG)
    Badlist(u64),
    BadCreate,
    /// raise the domain level from the previous to the target level (schema, ACPs, entries migrate)
    Raise,
}

impl Op {
    fn show(&self) -> String {
        match self {
            Op::Create(n) => format!("create:{n}"),
            Op::Modify(n) => format!("modify:{n}"),
            Op::Delete => "delete".into(),
            Op::Schema => "schema".into(),
            Op::Acp => "acp".into(),
            Op::OAuth2 => "oauth2".into(),
            Op::OAuth2Del => "oauth2del".into(),
            Op::Domain(n) => format!("domain:{n}"),
            Op::Badlist(n) => format!("badlist:{n}"),
            Op::BadCreate => "badcreate".into(),
            Op::Raise => "raise".into(),
        }
    }
    fn parse(s: &str) -> Op {
        let (h, n) = match s.split_once(':') {
            Some((h, n)) => (h, n.parse::<u64>().unwrap_or(0)),
            None => (s, 0),
        };
        match h {
            "create" => Op::Create(n),
            "modify" => Op::Modify(n),
            "delete" => Op::Delete,
            "schema" => Op::Schema,
            "acp" => Op::Acp,
            "oauth2" => Op::OAuth2,
            "oauth2del" => Op::OAuth2Del,
            "domain" => Op::Domain(n),
            "badlist" => Op::Badlist(n),
            "badcreate" => Op::BadCreate,
            "raise" => Op::Raise,
            o => panic!("unknown op {o}"),
        }
    }
}

fn group(name: &str, uuid: Uuid) -> Entry<EntryInit, EntryNew> {
    let mut e: Entry<EntryInit, EntryNew> = Entry::new();
    e.add_ava(Attribute::Class, EntryClass::Object.to_value());
    e.add_ava(Attribute::Class, EntryClass::Group.to_value());
    e.add_ava(Attribute::Name, Value::new_iname(name));
    e.add_ava(Attribute::Uuid, Value::Uuid(uuid));
    e
}

fn client(name: &str, uuid: Uuid) -> Entry<EntryInit, EntryNew> {
    let mut e: Entry<EntryInit, EntryNew> = Entry::new();
    e.add_ava(Attribute::Class, EntryClass::Object.to_value());
    e.add_ava(Attribute::Class, EntryClass::Account.to_value());
    e.add_ava(Attribute::Class, EntryClass::OAuth2ResourceServer.to_value());
    e.add_ava(Attribute::Class, EntryClass::OAuth2ResourceServerBasic.to_value());
    e.add_ava(Attribute::Uuid, Value::Uuid(uuid));
    e.add_ava(Attribute::Name, Value::new_iname(name));
    e.add_ava(Attribute::DisplayName, Value::new_utf8s(name));
    e.add_ava(Attribute::OAuth2RsOriginLanding, Value::new_url_s(&format!("https://{name}.example.com/")).expect("url"));
    let scopes: BTreeSet<String> = ["openid".to_string()].into_iter().collect();
    e.add_ava(Attribute::OAuth2RsScopeMap, Value::new_oauthscopemap(U_GROUP, scopes).expect("scope map"));
    e
}

fn apply(w: &mut IdmServerProxyWriteTransaction<'_>, op: &Op) -> Result<(), String> {
    let qs = &mut w.qs_write;
    let r = match op {
        Op::Create(n) => {
            let mut e = group(&format!("vp_new{n}"), u_new(*n));
            e.add_ava(Attribute::Description, Value::new_utf8s("created by c04"));
            e.add_ava(Attribute::Member, Value::Refer(U_PERSON));
            qs.internal_create(vec![e])
        }
        Op::Modify(n) => qs.internal_modify_uuid(U_TARGET, &ModifyList::new_purge_and_set(Attribute::Description, Value::new_utf8s(&format!("t{n}")))),
        Op::Delete => qs.internal_delete(&Filter::new(f_eq(Attribute::Uuid, PartialValue::Uuid(U_VICTIM)))),
        Op::Schema => {
            let mut e: Entry<EntryInit, EntryNew> = Entry::new();
            e.add_ava(Attribute::Class, EntryClass::Object.to_value());
            e.add_ava(Attribute::Class, EntryClass::AttributeType.to_value());
            e.add_ava(Attribute::Uuid, Value::Uuid(U_ATTR));
            e.add_ava(Attribute::AttributeName, Value::new_iutf8("vp_attr"));
            e.add_ava(Attribute::Description, Value::new_utf8s("c04 attribute"));
            e.add_ava(Attribute::MultiValue, Value::new_bool(false));
            e.add_ava(Attribute::Unique, Value::new_bool(false));
            e.add_ava(Attribute::Syntax, Value::new_syntaxs("UTF8STRING").expect("syntax"));
            qs.internal_create(vec![e])
        }
        Op::Acp => {
            let mut e: Entry<EntryInit, EntryNew> = Entry::new();
            for c in [EntryClass::Object, EntryClass::AccessControlProfile, EntryClass::AccessControlSearch, EntryClass::AccessControlReceiverGroup, EntryClass::AccessControlTargetScope] {
                e.add_ava(Attribute::Class, c.to_value());
            }
            e.add_ava(Attribute::Name, Value::new_iname("vp_acp"));
            e.add_ava(Attribute::Uuid, Value::Uuid(U_ACP));
            e.add_ava(Attribute::Description, Value::new_utf8s("c04 acp"));
            e.add_ava(Attribute::AcpReceiverGroup, Value::Refer(U_GROUP));
            e.add_ava(
                Attribute::AcpTargetScope,
                Value::JsonFilt(kanidm_proto::internal::Filter::Eq("name".into(), "vp_target".into())),
            );
            for a in ["name", "uuid", "class", "description", "member", "mail", "entry_managed_by", "grant_ui_hint", "last_modified_cid", "created_at_cid"] {
                e.add_ava(Attribute::AcpSearchAttr, Value::new_iutf8(a));
            }
            qs.internal_create(vec![e])
        }
        Op::OAuth2 => qs.internal_create(vec![client("vp_client", U_CLIENT)]),
        Op::OAuth2Del => qs.internal_delete(&Filter::new(f_eq(Attribute::Uuid, PartialValue::Uuid(U_BASECLIENT)))),
        Op::Domain(n) => qs.internal_modify_uuid(UUID_DOMAIN_INFO, &ModifyList::new_purge_and_set(Attribute::DomainDisplayName, Value::new_utf8s(&format!("VP{n}")))),
        Op::Badlist(n) => qs.internal_modify_uuid(UUID_SYSTEM_CONFIG, &ModifyList::new_append(Attribute::BadlistPassword, Value::new_iutf8(&format!("vp-bad-password-{n}")))),
        Op::Raise => qs.domain_raise(DOMAIN_TGT_LEVEL),
        Op::BadCreate => {
            // a group without a name: refused by schema validation
            let mut e: Entry<EntryInit, EntryNew> = Entry::new();
            e.add_ava(Attribute::Class, EntryClass::Object.to_value());
            e.add_ava(Attribute::Class, EntryClass::Group.to_value());
            e.add_ava(Attribute::Uuid, Value::Uuid(u_new(999_999)));
            qs.internal_create(vec![e])
        }
    };
    r.map_err(|e| format!("{e:?}"))
}

// ------------------------------------------------------------------------------------------------
// the server under test
// ------------------------------------------------------------------------------------------------

struct Srv {
    rt: tokio::runtime::Runtime,
    idms: Box<IdmServer>,
    _d: IdmServerDelayed,
    _a: IdmServerAudit,
}

/// How a transaction ended.
#[derive(Clone, Debug, PartialEq)]
enum End {
    /// dropped without commit after `j` successful operations
    Dropped(usize),
    /// operation `j` returned Err; the transaction was dropped
    OpFailed(usize, String),
    CommitOk,
    CommitErr(String),
}

impl Srv {
    fn boot(path: &Path, now: Duration) -> Result<Srv, String> {
        let rt = tokio::runtime::Builder::new_current_thread().enable_all().build().unwrap();
        let schema = Schema::new().map_err(|e| format!("schema {e:?}"))?;
        let idxmeta = {
            let s = schema.write();
            s.reload_idxmeta()
        };
        let be = Backend::new(BackendConfig::new(Some(path), 4, FsType::Generic, Some(2048)), idxmeta, false).map_err(|e| format!("backend {e:?}"))?;
        let qs = QueryServer::new(be, schema, "example.com".to_string(), now).map_err(|e| format!("qs {e:?}"))?;
        rt.block_on(qs.initialise_helper(now, cur_level())).map_err(|e| format!("init {e:?}"))?;
        let (idms, d, a) = rt
            .block_on(IdmServer::new(qs, &Url::parse("https://idm.example.com").unwrap(), true, now))
            .map_err(|e| format!("idms {e:?}"))?;
        Ok(Srv { rt, idms: Box::new(idms), _d: d, _a: a })
    }

    /// One write transaction: `ops` in order; `drop_after = Some(j)`: drop before operation `j`
    /// (j = ops.len(): drop instead of commit).
    fn txn(&self, ops: &[Op], drop_after: Option<usize>, now: Duration) -> End {
        self.rt.block_on(async {
            let mut w = self.idms.proxy_write(now).await.expect("proxy_write");
            for (j, op) in ops.iter().enumerate() {
                if drop_after == Some(j) {
                    drop(w);
                    return End::Dropped(j);
                }
                if let Err(e) = apply(&mut w, op) {
                    drop(w);
                    return End::OpFailed(j, e);
                }
            }
            if drop_after == Some(ops.len()) {
                drop(w);
                return End::Dropped(ops.len());
            }
            match w.commit() {
                Ok(()) => End::CommitOk,
                Err(e) => End::CommitErr(format!("{e:?}")),
            }
        })
    }

    /// A quiescent reader: one read transaction, all queries.
    fn observe(&self) -> Obs {
        self.rt.block_on(async {
            let mut r = self.idms.proxy_read().await.expect("proxy_read");
            queries(&mut r)
        })
    }
}

/// Everything the property names, asked inside ONE read transaction.
fn queries(r: &mut IdmServerProxyReadTransaction<'_>) -> Obs {
    let mut o = Obs::new();
    {
        // two related entries (a group created with the test person as member; the person's memberof),
        // read one by one, and through the indexes
        let p = match r.qs_read.internal_search_uuid(U_PERSON) {
            Ok(e) => {
                let mut mo: Vec<String> = e.get_ava_set(Attribute::MemberOf).map(|vs| vs.to_proto_string_clone_iter().collect()).unwrap_or_default();
                mo.sort();
                format!("memberof={}", mo.join("|"))
            }
            Err(e) => format!("{e:?}"),
        };
        o.insert("e_person".into(), p);
        let t = match r.qs_read.internal_search_uuid(U_TARGET) {
            Ok(e) => {
                let d: Vec<String> = e.get_ava_set(Attribute::Description).map(|vs| vs.to_proto_string_clone_iter().collect()).unwrap_or_default();
                format!("description={}", d.join("|"))
            }
            Err(e) => format!("{e:?}"),
        };
        o.insert("e_target".into(), t);
        let n = match r.qs_read.internal_search(Filter::new(f_eq(Attribute::Name, PartialValue::new_iname("vp_new0")))) {
            Ok(v) => {
                let mut l: Vec<String> = v
                    .iter()
                    .map(|e| {
                        let mut m: Vec<String> = e.get_ava_set(Attribute::Member).map(|vs| vs.to_proto_string_clone_iter().collect()).unwrap_or_default();
                        m.sort();
                        format!("{} member={}", e.get_uuid(), m.join("|"))
                    })
                    .collect();
                l.sort();
                l.join(" ")
            }
            Err(e) => format!("{e:?}"),
        };
        o.insert("e_new".into(), n);
        let ix = match r.qs_read.internal_search(Filter::new(f_eq(Attribute::Member, PartialValue::Refer(U_PERSON)))) {
            Ok(v) => {
                let mut l: Vec<String> = v.iter().map(|e| e.get_uuid().to_string()).collect();
                l.sort();
                l.join(",")
            }
            Err(e) => format!("{e:?}"),
        };
        o.insert("e_index".into(), ix);
        let vic = match r.qs_read.internal_search(Filter::new_ignore_hidden(f_eq(Attribute::Name, PartialValue::new_iname("vp_victim")))) {
            Ok(v) => format!("{}", v.len()),
            Err(e) => format!("{e:?}"),
        };
        o.insert("e_victim".into(), vic);

        // entries, incl. recycled and tombstones
        let all = r.qs_read.internal_search(Filter::new(f_pres(Attribute::Class))).expect("dump");
        let mut lines: Vec<String> = all
            .iter()
            .map(|e| {
                let mut avas: Vec<String> = e
                    .get_ava_iter()
                    .map(|(a, vs)| {
                        let mut vs: Vec<String> = vs.to_proto_string_clone_iter().collect();
                        vs.sort();
                        format!("{a}={}", vs.join("|"))
                    })
                    .collect();
                avas.sort();
                format!("{} {}", e.get_uuid(), avas.join("; "))
            })
            .collect();
        lines.sort();
        o.insert("entries".into(), lines.join("\n"));
        // schema
        let sch = r.qs_read.get_schema();
        let mut attrs: Vec<String> = sch.get_attributes().iter().map(|(k, v)| format!("{k}:{:?}:{}:{}", v.syntax, v.multivalue, v.unique)).collect();
        attrs.sort();
        let mut classes: Vec<String> = sch.get_classes().keys().map(|k| k.to_string()).collect();
        classes.sort();
        o.insert("schema".into(), format!("attrs {}\nclasses {}", attrs.join(","), classes.join(",")));
        // domain settings
        o.insert("domain".into(), r.qs_read.get_domain_display_name().to_string());
        // an effective access decision: what the test person may read of the target group
        let acp = match r.qs_read.internal_search_uuid(U_PERSON) {
            Err(e) => format!("no-person {e:?}"),
            Ok(pe) => {
                let ident = Identity::from_impersonate_entry_readwrite(pe);
                let f = Filter::new(f_eq(Attribute::Name, PartialValue::new_iname("vp_target")));
                match f.validate(r.qs_read.get_schema()) {
                    Err(e) => format!("validate {e:?}"),
                    Ok(fv) => {
                        let se = SearchEvent::new_impersonate(&ident, fv.clone(), fv);
                        match r.qs_read.search_ext(&se) {
                            Err(e) => format!("err {e:?}"),
                            Ok(res) => {
                                let mut rows: Vec<String> = res
                                    .iter()
                                    .map(|e| {
                                        let mut n: Vec<String> = e.get_ava_names().map(|s| s.to_string()).collect();
                                        n.sort();
                                        format!("{}:{}", e.get_uuid(), n.join(","))
                                    })
                                    .collect();
                                rows.sort();
                                rows.join(" ")
                            }
                        }
                    }
                }
            }
        };
        o.insert("acp".into(), acp);
        // OAuth2 client configuration + key material
        let mut o2 = vec![];
        for c in ["vp_base", "vp_client"] {
            o2.push(match r.oauth2_openid_publickey(c) {
                Ok(k) => format!("{c}:{}", serde_json::to_string(&k).unwrap_or_default()),
                Err(e) => format!("{c}:{e:?}"),
            });
        }
        o.insert("oauth2".into(), o2.join(" "));
        let mut keys = vec![];
        for (n, u) in [("base", U_BASECLIENT), ("client", U_CLIENT), ("domain", UUID_DOMAIN_INFO)] {
            keys.push(format!("{n}:{}", kanidmd_lib::verif_hooks::c34::handle(&r.qs_read, u).is_some()));
        }
        o.insert("key".into(), keys.join(" "));
        let (ts, su) = kanidmd_lib::verif_hooks::c04::read_trim_cid(&r.qs_read);
        o.insert("cid".into(), format!("{}.{:09}@{su}", ts.as_secs(), ts.subsec_nanos()));
        // the loaded system configuration (password badlist, denied names)
        let mut bl: Vec<String> = r.qs_read.pw_badlist().iter().cloned().collect();
        bl.sort();
        let mut dn: Vec<String> = r.qs_read.denied_names().iter().cloned().collect();
        dn.sort();
        o.insert("badlist".into(), format!("badlist={} denied={}", bl.join("|"), dn.join("|")));
        // the stored entries those loaded settings are derived from, read in the SAME transaction
        let attr_of = |e: &kanidmd_lib::entry::Entry<kanidmd_lib::entry::EntrySealed, kanidmd_lib::entry::EntryCommitted>, a: Attribute| -> String {
            let mut v: Vec<String> = e.get_ava_set(a).map(|vs| vs.to_proto_string_clone_iter().collect()).unwrap_or_default();
            v.sort();
            v.join("|")
        };
        let sd = match r.qs_read.internal_search_uuid(UUID_DOMAIN_INFO) {
            Ok(e) => format!("display={}", attr_of(&e, Attribute::DomainDisplayName)),
            Err(e) => format!("{e:?}"),
        };
        o.insert("s_domain".into(), sd);
        let ss = match r.qs_read.internal_search_uuid(UUID_SYSTEM_CONFIG) {
            Ok(e) => format!("badlist={} denied={}", attr_of(&e, Attribute::BadlistPassword), attr_of(&e, Attribute::DeniedName)),
            Err(e) => format!("{e:?}"),
        };
        o.insert("s_sysconfig".into(), ss);
        o.insert("s_acp".into(), format!("vp_acp:{}", r.qs_read.internal_search_uuid(U_ACP).is_ok()));
        // one observable per entry: under the known deferred-snapshot mix one entry may come from the cache
        // snapshot and the other from the database snapshot
        o.insert("s_client_base".into(), format!("vp_base:{}", r.qs_read.internal_search_uuid(U_BASECLIENT).is_ok()));
        o.insert("s_client_new".into(), format!("vp_client:{}", r.qs_read.internal_search_uuid(U_CLIENT).is_ok()));
    }
    o
}

/// Independent oracle, from the statement: inside ONE read transaction every loaded (in-memory)
/// configuration observable must belong to the same committed state as the stored entries the
/// transaction reads — the domain display name is the one of the stored domain entry, the loaded
/// badlist / denied names are the ones of the stored system_config entry, the access decision is the
/// one the stored profiles give, an OAuth2 client and its key object are loaded iff its entry is
/// stored, and the transaction's cid is not older than the newest stored change.
/// Returns the list of disagreements (empty = one state).
fn incoherent(o: &Obs) -> Vec<String> {
    let g = |k: &str| o.get(k).cloned().unwrap_or_default();
    let mut bad = vec![];
    // domain display name
    let want = match g("s_domain").strip_prefix("display=") {
        Some("") => "Kanidm example.com".to_string(),
        Some(d) => d.to_string(),
        None => "?".into(),
    };
    if g("domain") != want {
        bad.push(format!("loaded domain display name `{}`, stored domain entry has `{}`", g("domain"), g("s_domain")));
    }
    // system config
    if g("badlist") != g("s_sysconfig") {
        let l: BTreeSet<String> = g("badlist").split(['|', ' ', '=']).map(|x| x.to_string()).collect();
        let st: BTreeSet<String> = g("s_sysconfig").split(['|', ' ', '=']).map(|x| x.to_string()).collect();
        bad.push(format!("loaded badlist/denied names differ from the stored system_config entry: only loaded {:?}, only stored {:?}", l.difference(&st).take(4).collect::<Vec<_>>(), st.difference(&l).take(4).collect::<Vec<_>>()));
    }
    // access controls: vp_acp (and nothing else in this fixture) lets the person read the target's description
    let grants = g("acp").split(':').nth(1).map(|a| a.split(',').any(|x| x == "description")).unwrap_or(false);
    let stored_acp = g("s_acp") == "vp_acp:true";
    if grants != stored_acp {
        bad.push(format!("access decision `{}` with stored profile {}", g("acp"), g("s_acp")));
    }
    // OAuth2 clients and key objects.  The client configuration is loaded iff the client entry is live.
    // A key object belongs to an entry that is stored at all: a deleted client sits in the recycle bin of
    // the SAME committed state with its key_object class, and `reload_key_material` only ever adds or
    // replaces objects, so its object stays loaded (found by this oracle on the unchanged tree with the
    // writer `oauth2del`; not a mix of two committed states, hence not demanded): live ⇒ loaded ⇒ stored.
    for (c, u, sk) in [("vp_base", U_BASECLIENT, "s_client_base"), ("vp_client", U_CLIENT, "s_client_new")] {
        let live = g(sk) == format!("{c}:true");
        let loaded = g("oauth2").split(' ').any(|x| x.starts_with(&format!("{c}:{{")));
        let key = g("key").contains(&format!("{}:true", c.trim_start_matches("vp_")));
        let stored_any = g("entries").lines().any(|l| l.starts_with(&u.to_string()) && l.contains("key_object"));
        if live != loaded || (live && !key) || (key && !stored_any) {
            bad.push(format!("client {c}: entry live {live} / stored incl. recycle bin {stored_any}, OAuth2 configuration loaded {loaded}, key object loaded {key}"));
        }
    }
    // the transaction's cid (trim cid + changelog max age) is not older than the newest stored change
    if let (Some(cid), Some(newest)) = (g("cid").split('.').next().and_then(|x| x.parse::<u64>().ok()), newest_change(&g("entries"))) {
        if cid + CHANGELOG_AGE < newest {
            bad.push(format!("transaction cid {} older than the newest stored change {newest}", cid + CHANGELOG_AGE));
        }
    }
    bad
}

/// CHANGELOG_MAX_AGE of the non-test build (7 days): trim cid = cid − this.
const CHANGELOG_AGE: u64 = 7 * 86400;

/// Newest `last_modified_cid` (seconds) among the dumped entries.
fn newest_change(entries: &str) -> Option<u64> {
    entries
        .split("last_modified_cid=")
        .skip(1)
        .filter_map(|t| {
            let tok: String = t.chars().take_while(|c| *c != ';' && *c != '\n').collect();
            cid_secs(&tok)
        })
        .max()
}

/// Seconds of a rendered cid (`{nanoseconds since the epoch, 32 decimal digits}-{server uuid}`).
fn cid_secs(tok: &str) -> Option<u64> {
    let head: String = tok.trim().chars().take_while(|c| c.is_ascii_digit()).collect();
    head.parse::<u128>().ok().map(|n| (n / 1_000_000_000) as u64)
}

// ------------------------------------------------------------------------------------------------
// the second SQLite connection: fault-injection triggers and raw dumps
// ------------------------------------------------------------------------------------------------

struct Sab {
    conn: Connection,
}

impl Sab {
    fn open(path: &Path) -> Sab {
        let conn = Connection::open(path).expect("second connection");
        conn.busy_timeout(Duration::from_secs(5)).unwrap();
        Sab { conn }
    }
    fn tables(&self) -> Vec<String> {
        let mut st = self
            .conn
            .prepare("SELECT name FROM sqlite_master WHERE type='table' AND name NOT LIKE 'vp\\_%' ESCAPE '\\' AND name NOT LIKE 'sqlite\\_%' ESCAPE '\\' ORDER BY name")
            .unwrap();
        let v: Vec<String> = st.query_map([], |r| r.get(0)).unwrap().map(|x| x.unwrap()).collect();
        v
    }
    /// Count every row statement of the next write transaction; fail the `k`-th (k = 0: none);
    /// `commit_fault`: make `COMMIT TRANSACTION` fail.
    fn install(&self, k: u64, commit_fault: bool) {
        let mut sql = String::from("BEGIN IMMEDIATE;\nCREATE TABLE vp_cnt(n INTEGER, k INTEGER);\n");
        sql += &format!("INSERT INTO vp_cnt VALUES (0, {k});\nCREATE TABLE vp_log(seq INTEGER PRIMARY KEY AUTOINCREMENT, tbl TEXT);\n");
        for t in self.tables() {
            for ev in ["INSERT", "DELETE", "UPDATE"] {
                sql += &format!(
                    "CREATE TRIGGER \"vp_{ev}_{t}\" BEFORE {ev} ON \"{t}\" BEGIN\n  UPDATE vp_cnt SET n = n + 1;\n  INSERT INTO vp_log(tbl) VALUES ('{t}');\n  SELECT RAISE(ABORT, 'vp-fault') WHERE (SELECT n FROM vp_cnt) = (SELECT k FROM vp_cnt);\nEND;\n"
                );
            }
        }
        if commit_fault {
            sql += "CREATE TABLE vp_parent(id INTEGER PRIMARY KEY);\nCREATE TABLE vp_child(p INTEGER REFERENCES vp_parent(id) DEFERRABLE INITIALLY DEFERRED);\n";
            sql += "CREATE TRIGGER vp_fk AFTER INSERT ON db_op_ts BEGIN INSERT INTO vp_child VALUES (12345); END;\n";
        }
        sql += "COMMIT;";
        self.conn.execute_batch(&sql).expect("install triggers");
    }
    /// Statement log of a committed logging run (empty after a rolled back transaction).
    fn log(&self) -> Vec<String> {
        let mut st = self.conn.prepare("SELECT tbl FROM vp_log ORDER BY seq").unwrap();
        let v: Vec<String> = st.query_map([], |r| r.get(0)).unwrap().map(|x| x.unwrap()).collect();
        v
    }
    fn uninstall(&self) {
        let mut st = self.conn.prepare("SELECT type, name FROM sqlite_master WHERE name LIKE 'vp\\_%' ESCAPE '\\' AND type IN ('trigger','table') ORDER BY type DESC").unwrap();
        let objs: Vec<(String, String)> = st.query_map([], |r| Ok((r.get(0)?, r.get(1)?))).unwrap().map(|x| x.unwrap()).collect();
        drop(st);
        let mut sql = String::from("BEGIN IMMEDIATE;\n");
        for (ty, n) in objs {
            sql += &format!("DROP {} IF EXISTS \"{n}\";\n", ty.to_uppercase());
        }
        sql += "COMMIT;";
        self.conn.execute_batch(&sql).expect("uninstall triggers");
    }
    /// Raw content of every table: name → sorted rendered rows.
    fn dump(&self) -> BTreeMap<String, String> {
        let mut out = BTreeMap::new();
        for t in self.tables() {
            let mut st = self.conn.prepare(&format!("SELECT * FROM \"{t}\"")).unwrap();
            let n = st.column_count();
            let mut rows = st.query([]).unwrap();
            let mut rendered = vec![];
            while let Some(r) = rows.next().unwrap() {
                let mut line = String::new();
                for i in 0..n {
                    if i > 0 {
                        line.push('|');
                    }
                    match r.get_ref(i).unwrap() {
                        ValueRef::Null => line.push_str("NULL"),
                        ValueRef::Integer(v) => line.push_str(&v.to_string()),
                        ValueRef::Real(v) => line.push_str(&v.to_string()),
                        ValueRef::Text(t) => line.push_str(&String::from_utf8_lossy(t)),
                        ValueRef::Blob(b) => line.push_str(&b.iter().map(|x| format!("{x:02x}")).collect::<String>()),
                    }
                }
                rendered.push(line);
            }
            rendered.sort();
            out.insert(t, rendered.join("\n"));
        }
        out
    }
}

// ------------------------------------------------------------------------------------------------
// baseline database
// ------------------------------------------------------------------------------------------------

fn workdir() -> PathBuf {
    let d = PathBuf::from(format!("/tmp/c06/{}", std::process::id()));
    std::fs::create_dir_all(&d).unwrap();
    d
}

fn rm_db(p: &Path) {
    for suf in ["", "-wal", "-shm", "-journal"] {
        let _ = std::fs::remove_file(format!("{}{suf}", p.display()));
    }
}

/// Build the baseline file: a migrated server plus the fixture entries, fully checkpointed.
fn build_baseline(path: &Path) {
    rm_db(path);
    {
        let srv = Srv::boot(path, ct(0)).expect("boot baseline");
        let end = srv.rt.block_on(async {
            let mut w = srv.idms.proxy_write(ct(1)).await.expect("write");
            let mut p: Entry<EntryInit, EntryNew> = Entry::new();
            for c in [EntryClass::Object, EntryClass::Account, EntryClass::Person] {
                p.add_ava(Attribute::Class, c.to_value());
            }
            p.add_ava(Attribute::Name, Value::new_iname("vp_person"));
            p.add_ava(Attribute::Uuid, Value::Uuid(U_PERSON));
            p.add_ava(Attribute::DisplayName, Value::new_utf8s("VP Person"));
            let mut g = group("vp_group", U_GROUP);
            g.add_ava(Attribute::Member, Value::Refer(U_PERSON));
            let mut t = group("vp_target", U_TARGET);
            t.add_ava(Attribute::Description, Value::new_utf8s("t0"));
            t.add_ava(Attribute::Member, Value::Refer(U_PERSON));
            let mut v = group("vp_victim", U_VICTIM);
            v.add_ava(Attribute::Description, Value::new_utf8s("to be deleted"));
            w.qs_write.internal_create(vec![p, g, t, v, client("vp_base", U_BASECLIENT)]).expect("fixture");
            w.commit()
        });
        end.expect("fixture commit");
    }
    let c = Connection::open(path).unwrap();
    let _ = c.execute_batch("PRAGMA wal_checkpoint(TRUNCATE);");
    drop(c);
}

fn copy_db(base: &Path, to: &Path) {
    rm_db(to);
    std::fs::copy(base, to).expect("copy baseline");
    let wal = format!("{}-wal", base.display());
    if Path::new(&wal).exists() {
        std::fs::copy(&wal, format!("{}-wal", to.display())).expect("copy wal");
    }
}

// ------------------------------------------------------------------------------------------------
// holding the writer inside commit()
// ------------------------------------------------------------------------------------------------

impl Sab {
    /// Make the first row statement on `table` of the next write transaction burn time:
    /// a cross join over a helper table with `rows` rows (rows² steps).
    fn install_slow(&self, table: &str, rows: u64) {
        let mut sql = String::from("BEGIN IMMEDIATE;\nCREATE TABLE vp_n(x INTEGER);\nCREATE TABLE vp_once(n INTEGER);\nINSERT INTO vp_once VALUES (0);\n");
        sql += &format!("WITH RECURSIVE c(x) AS (SELECT 1 UNION ALL SELECT x + 1 FROM c WHERE x < {rows}) INSERT INTO vp_n SELECT x FROM c;\n");
        for ev in ["INSERT", "DELETE"] {
            sql += &format!(
                "CREATE TRIGGER \"vp_slow_{ev}\" BEFORE {ev} ON \"{table}\" WHEN (SELECT n FROM vp_once) = 0 BEGIN\n  UPDATE vp_once SET n = 1;\n  SELECT sum((a.x * b.x) % 7) FROM vp_n a, vp_n b;\nEND;\n"
            );
        }
        sql += "COMMIT;";
        self.conn.execute_batch(&sql).expect("install slow trigger");
    }
    /// How long the burn takes on this machine, for `rows` rows.
    fn calibrate(&self, rows: u64) -> Duration {
        self.conn
            .execute_batch(&format!(
                "CREATE TEMP TABLE IF NOT EXISTS vpc_n(x INTEGER); DELETE FROM vpc_n; WITH RECURSIVE c(x) AS (SELECT 1 UNION ALL SELECT x + 1 FROM c WHERE x < {rows}) INSERT INTO vpc_n SELECT x FROM c;"
            ))
            .unwrap();
        let t = Instant::now();
        let _: i64 = self.conn.query_row("SELECT sum((a.x * b.x) % 7) FROM vpc_n a, vpc_n b", [], |r| r.get(0)).unwrap();
        t.elapsed()
    }
}

// ------------------------------------------------------------------------------------------------
// model
// ------------------------------------------------------------------------------------------------

/// configuration observable → the model cell it reads
const OBS_CELLS: [(&str, &str); 7] =
    [("schema", "schema"), ("domain", "dInfo"), ("badlist", "systemConfig"), ("acp", "accesscontrols"), ("oauth2", "oauth2rs"), ("key", "keyProviders"), ("cid", "cid")];
/// stored-data observables (entries and index answers): served from the reader's cache snapshots or
/// from its database snapshot
const STORED: [&str; 11] = ["e_person", "e_target", "e_new", "e_index", "e_victim", "entries", "s_domain", "s_sysconfig", "s_acp", "s_client_base", "s_client_new"];
const CACHES: [&str; 3] = ["entryCache", "idlCache", "nameCache"];

struct Model {
    drv: Driver,
    steps: Vec<String>,
    disagreements: u64,
}

impl Model {
    fn new(path: &str) -> Model {
        let mut drv = Driver::spawn(path);
        let reply = drv.ask("steps");
        let steps: Vec<String> = reply.split(',').map(|s| s.splitn(2, ':').nth(1).unwrap_or("").rsplitn(3, ':').nth(2).unwrap_or("").to_string()).collect();
        Model { drv, steps, disagreements: 0 }
    }
    fn idx(&self, name: &str) -> usize {
        self.steps.iter().position(|s| s == name).unwrap_or_else(|| panic!("model has no step {name}"))
    }
    /// cell name → version (0 old / 1 new), plus "db"
    fn obs(&mut self, staged_cfg: &BTreeSet<String>, stored_changes: bool, k: usize, sel: usize) -> BTreeMap<String, u64> {
        let mut cells: Vec<&str> = OBS_CELLS.iter().filter(|(o, _)| staged_cfg.contains(*o)).map(|(_, c)| *c).collect();
        if stored_changes {
            cells.extend(CACHES);
        }
        let line = format!("obs {} {} {k} {sel}", if cells.is_empty() { "-".to_string() } else { cells.join(",") }, if stored_changes { 1 } else { 0 });
        let reply = self.drv.ask(&line);
        let t: Vec<&str> = reply.split(' ').collect();
        if t.len() != 2 {
            panic!("model reply `{reply}` to `{line}`");
        }
        let mut m = BTreeMap::new();
        if t[0] != "-" {
            for kv in t[0].split(',') {
                let (c, v) = kv.split_once('=').unwrap();
                m.insert(c.to_string(), v.parse().unwrap());
            }
        }
        m.insert("db".into(), t[1].trim_start_matches("db=").parse().unwrap());
        m
    }
}

// ------------------------------------------------------------------------------------------------
// one case
// ------------------------------------------------------------------------------------------------

#[derive(Clone, Debug, PartialEq)]
enum Shape {
    Before,
    After,
    Deferred,
    Pause(String),
    PauseLate(String),
}

impl Shape {
    fn show(&self) -> String {
        match self {
            Shape::Before => "before".into(),
            Shape::After => "after".into(),
            Shape::Deferred => "deferred".into(),
            Shape::Pause(t) => format!("pause:{t}"),
            Shape::PauseLate(t) => format!("pause-late:{t}"),
        }
    }
    fn parse(s: &str) -> Shape {
        match s.split_once(':') {
            Some(("pause", t)) => Shape::Pause(t.to_string()),
            Some(("pause-late", t)) => Shape::PauseLate(t.to_string()),
            _ => match s {
                "before" => Shape::Before,
                "after" => Shape::After,
                "deferred" => Shape::Deferred,
                o => panic!("unknown shape {o}"),
            },
        }
    }
}

fn pause_step(table: &str) -> &'static str {
    match table {
        "db_op_ts" => "qs:dbWrite:set_db_ts_max",
        "ruv" => "be:dbWrite:write_db_ruv",
        "id2entry" => "idl:dbWrite:entryCache",
        o => panic!("no pause step for {o}"),
    }
}

struct Ctx {
    base: PathBuf,
    work: PathBuf,
    model: Option<Model>,
    /// rows of the burn table for a pause of roughly 1 s
    rows: u64,
    violation: bool,
    recorded: BTreeSet<String>,
}

/// The outcome of a schedule: what the reader saw in its first and second run of the queries, and
/// whether the intended interleaving was achieved.
struct Run {
    first: Obs,
    second: Obs,
    achieved: bool,
}

impl Ctx {
    fn run_shape(&self, srv: &Srv, ops: &[Op], shape: &Shape, rows: u64, v_old: &Obs) -> Run {
        match shape {
            Shape::Before => srv.rt.block_on(async {
                let mut r = srv.idms.proxy_read().await.expect("proxy_read");
                let first = queries(&mut r);
                let end = write_txn(&srv.idms, ops).await;
                assert_eq!(end, End::CommitOk, "writer");
                let second = queries(&mut r);
                Run { first, second, achieved: true }
            }),
            Shape::After => srv.rt.block_on(async {
                let end = write_txn(&srv.idms, ops).await;
                assert_eq!(end, End::CommitOk, "writer");
                let mut r = srv.idms.proxy_read().await.expect("proxy_read");
                let first = queries(&mut r);
                let second = queries(&mut r);
                Run { first, second, achieved: true }
            }),
            Shape::Deferred => srv.rt.block_on(async {
                let mut r = srv.idms.proxy_read().await.expect("proxy_read");
                let end = write_txn(&srv.idms, ops).await;
                assert_eq!(end, End::CommitOk, "writer");
                let first = queries(&mut r);
                let second = queries(&mut r);
                Run { first, second, achieved: true }
            }),
            Shape::Pause(table) | Shape::PauseLate(table) => {
                let late = matches!(shape, Shape::PauseLate(_));
                let sab = Sab::open(&self.work);
                sab.install_slow(table, rows);
                // 0 = not yet in commit, 1 = commit() called, 2 = commit() returned
                let stage = std::sync::atomic::AtomicU8::new(0);
                let idms: &IdmServer = &srv.idms;
                let run = std::thread::scope(|sc| {
                    let st = &stage;
                    let h = sc.spawn(move || {
                        let rt = tokio::runtime::Builder::new_current_thread().enable_all().build().unwrap();
                        rt.block_on(async {
                            let mut w = idms.proxy_write(ct(2000)).await.expect("proxy_write");
                            for op in ops {
                                apply(&mut w, op).expect("writer op");
                            }
                            st.store(1, std::sync::atomic::Ordering::SeqCst);
                            let r = w.commit();
                            st.store(2, std::sync::atomic::Ordering::SeqCst);
                            r.map_err(|e| format!("{e:?}"))
                        })
                    });
                    // wait until the writer is inside commit(), then give it time to reach the trigger
                    while stage.load(std::sync::atomic::Ordering::SeqCst) == 0 {
                        std::thread::sleep(Duration::from_millis(2));
                    }
                    // … then until the last publication that precedes the pause is visible (state based,
                    // not time based): the trim cid for a pause inside be_txn.commit(), the OAuth2 set for
                    // the pause at set_db_ts_max (if the writer changes it); then a safety margin
                    let has_o2 = ops.iter().any(|o| matches!(o, Op::OAuth2 | Op::OAuth2Del));
                    let probe_key = if table == "db_op_ts" { if has_o2 { Some("oauth2") } else { None } } else { Some("cid") };
                    let t_wait = Instant::now();
                    if let Some(pk) = probe_key {
                        loop {
                            let now_v = srv.rt.block_on(async {
                                let r = srv.idms.proxy_read().await.expect("proxy_read");
                                if pk == "cid" {
                                    let (ts, su) = kanidmd_lib::verif_hooks::c04::read_trim_cid(&r.qs_read);
                                    format!("{}.{:09}@{su}", ts.as_secs(), ts.subsec_nanos())
                                } else {
                                    ["vp_base", "vp_client"].iter().map(|c| format!("{c}:{}", r.oauth2_openid_publickey(c).is_ok())).collect::<Vec<_>>().join(" ")
                                }
                            });
                            let old_v = if pk == "cid" {
                                v_old.get("cid").cloned().unwrap_or_default()
                            } else {
                                ["vp_base", "vp_client"].iter().map(|c| format!("{c}:{}", !v_old.get("oauth2").map(|v| v.contains(&format!("{c}:NoMatchingEntries"))).unwrap_or(true))).collect::<Vec<_>>().join(" ")
                            };
                            if now_v != old_v || stage.load(std::sync::atomic::Ordering::SeqCst) == 2 || t_wait.elapsed() > Duration::from_secs(5) {
                                break;
                            }
                            std::thread::sleep(Duration::from_millis(3));
                        }
                        std::thread::sleep(Duration::from_millis(60));
                    } else {
                        std::thread::sleep(Duration::from_millis(150));
                    }
                    let out = srv.rt.block_on(async {
                        let mut r = srv.idms.proxy_read().await.expect("proxy_read");
                        let first_in = if late { None } else { Some(queries(&mut r)) };
                        // the whole read() (+ first run) must have happened while commit() was still running
                        let achieved = stage.load(std::sync::atomic::Ordering::SeqCst) == 1;
                        while stage.load(std::sync::atomic::Ordering::SeqCst) != 2 {
                            tokio::time::sleep(Duration::from_millis(5)).await;
                        }
                        let (first, second) = match first_in {
                            Some(f) => {
                                let s = queries(&mut r);
                                (f, s)
                            }
                            None => {
                                let f = queries(&mut r);
                                let s = queries(&mut r);
                                (f, s)
                            }
                        };
                        Run { first, second, achieved }
                    });
                    let wr = h.join().expect("writer thread");
                    assert!(wr.is_ok(), "writer commit: {wr:?}");
                    out
                });
                sab.uninstall();
                run
            }
        }
    }

    /// Oracle 1 on a plain `after` reader (fresh server, cold cache, own database file): the writer
    /// commits, then one read transaction; the list of loaded-vs-stored disagreements.
    fn after_mismatch(&self, ops: &[Op]) -> Vec<String> {
        let path = self.work.with_extension("min.db");
        copy_db(&self.base, &path);
        let out = match Srv::boot(&path, ct(1000)) {
            Err(_) => vec![],
            Ok(srv) => {
                if srv.rt.block_on(write_txn(&srv.idms, ops)) == End::CommitOk {
                    incoherent(&srv.observe()).into_iter().map(|b| format!("`after` reader: {b}")).collect()
                } else {
                    vec![]
                }
            }
        };
        rm_db(&path);
        out
    }

    /// One case: fresh copy, boot, optional warm-up, reference before, schedule, reference after.
    fn case(&mut self, ops: &[Op], shape: &Shape, warm: bool, rep: &mut Report) {
        let input = json!({"ops": ops.iter().map(|o| o.show()).collect::<Vec<_>>(), "shape": shape.show(), "warm": warm});
        let mut rows = self.rows;
        for _attempt in 0..3 {
            copy_db(&self.base, &self.work);
            let srv = Srv::boot(&self.work, ct(1000)).expect("boot");
            // V_old: a quiescent reader before the writer.  It also warms the caches, so for a cold
            // case the reference is taken on a twin server.
            let v_old = if warm {
                srv.observe()
            } else {
                let twin = self.work.with_extension("twin.db");
                copy_db(&self.base, &twin);
                let s2 = Srv::boot(&twin, ct(1000)).expect("boot twin");
                let o = s2.observe();
                drop(s2);
                rm_db(&twin);
                o
            };
            let run = self.run_shape(&srv, ops, shape, rows, &v_old);
            if run.achieved {
                // a model disagreement on a timing dependent shape must reproduce before it is reported
                let last = _attempt == 2 || !matches!(shape, Shape::Pause(_) | Shape::PauseLate(_));
                if self.finish(&srv, &v_old, ops, shape, warm, &run, input.clone(), rep, last) {
                    return;
                }
                drop(srv);
                rep.count("pause-disagreement-retry");
                continue;
            }
            // the writer left commit() before the reader was done: start over with a longer pause
            drop(srv);
            rows *= 2;
            rep.count("window-retry");
        }
        rep.count("window-missed");
        rep.case(None);
    }

    #[allow(clippy::too_many_arguments)]
    fn finish(&mut self, srv: &Srv, v_old: &Obs, ops: &[Op], shape: &Shape, warm: bool, run: &Run, input: J, rep: &mut Report, last: bool) -> bool {
        let v_new = srv.observe();
        let changing: BTreeSet<String> = v_old.keys().filter(|k| v_old.get(*k) != v_new.get(*k)).cloned().collect();
        let cfg_changing: BTreeSet<String> = changing.iter().filter(|k| !STORED.contains(&k.as_str())).cloned().collect();
        let stored_changing: BTreeSet<String> = changing.iter().filter(|k| STORED.contains(&k.as_str())).cloned().collect();
        // side of every changing observable in the reader's first run
        let side = |o: &Obs, k: &String| -> &'static str {
            if o.get(k).map(|v| shape_of(v)) == v_old.get(k).map(|v| shape_of(v)) {
                "old"
            } else if o.get(k).map(|v| shape_of(v)) == v_new.get(k).map(|v| shape_of(v)) {
                "new"
            } else if k == "entries" {
                // the full dump is one line per entry: a tear shows as old lines next to new lines
                let lo: BTreeSet<String> = v_old.get(k).map(|v| shape_of(v)).unwrap_or_default().lines().map(|l| l.to_string()).collect();
                let ln: BTreeSet<String> = v_new.get(k).map(|v| shape_of(v)).unwrap_or_default().lines().map(|l| l.to_string()).collect();
                if o.get(k).map(|v| shape_of(v)).unwrap_or_default().lines().all(|l| lo.contains(l) || ln.contains(l)) {
                    "mixed"
                } else {
                    "neither"
                }
            } else {
                "neither"
            }
        };
        let sides: BTreeMap<String, &'static str> = changing.iter().map(|k| (k.clone(), side(&run.first, k))).collect();
        let unchanged_ok = v_old.keys().filter(|k| !changing.contains(*k)).all(|k| run.first.get(k).map(|v| shape_of(v)) == v_old.get(k).map(|v| shape_of(v)));

        // ---------------- correspondence (computed first: see `last`) ----------------
        let mut model_bad: Option<(String, Vec<String>)> = None;
        if let Some(m) = self.model.as_mut() {
            if m.disagreements < 4 {
                let len = m.steps.len();
                let (k, sel) = match shape {
                    Shape::Before => (0, 0),
                    Shape::After => (len, len),
                    Shape::Deferred => (0, len),
                    Shape::Pause(t) => (m.idx(pause_step(t)), m.idx(pause_step(t))),
                    Shape::PauseLate(t) => (m.idx(pause_step(t)), len),
                };
                let pred = m.obs(&cfg_changing, !stored_changing.is_empty(), k, sel);
                let mut bad = vec![];
                for (o, c) in OBS_CELLS {
                    if cfg_changing.contains(o) {
                        let want = if pred[c] == 1 { "new" } else { "old" };
                        if sides[o] != want {
                            bad.push(format!("{o}: model {want}, observed {}", sides[o]));
                        }
                    }
                }
                if !stored_changing.is_empty() {
                    let mut allowed: BTreeSet<&str> = BTreeSet::new();
                    allowed.insert(if pred["db"] == 1 { "new" } else { "old" });
                    for c in CACHES {
                        allowed.insert(if pred[c] == 1 { "new" } else { "old" });
                    }
                    for o in &stored_changing {
                        if !(allowed.contains(sides[o]) || (sides[o] == "mixed" && allowed.len() == 2)) {
                            bad.push(format!("{o}: model {allowed:?}, observed {}", sides[o]));
                        }
                    }
                }
                if !bad.is_empty() && !last {
                    return false;
                }
                model_bad = Some((format!("model atomicRead {k} {sel}: {pred:?}"), bad));
            }
        }
        rep.count(&format!("shape:{}", shape.show().split(':').next().unwrap_or("")));
        // non-trivial: the writer changed at least two stored observables and one configuration observable
        let nontrivial = stored_changing.len() >= 2 && !cfg_changing.iter().all(|k| k == "cid");
        rep.case(if nontrivial { Some(format!("{}|{}|{}", ops.iter().map(|o| o.show()).collect::<Vec<_>>().join("+"), shape.show(), warm)) } else { None });

        // ---------------- oracle 1: loaded configuration vs stored entries, inside one transaction ----------------
        // Demanded of every reader the statement promises one state to without any known exception: the
        // quiescent references (before the writer began / opened after commit() returned) and the `before`
        // and `after` readers.  Readers overlapping the commit (pause…, deferred) are judged by oracle 2,
        // whose two known classes describe exactly how they may mix.
        if std::env::var("C06_DEBUG").is_ok() {
            for (w, o) in [("old", v_old), ("new", &v_new), ("first", &run.first)] {
                eprintln!("--- {w}");
                for (k, v) in o {
                    if k != "entries" && k != "schema" && k != "badlist" && k != "s_sysconfig" {
                        eprintln!("{k} = {v}");
                    }
                }
                eprintln!("newest = {:?}", newest_change(o.get("entries").map(|x| x.as_str()).unwrap_or("")));
                eprintln!("lm = {:?}", o.get("entries").and_then(|e| e.split("last_modified_cid=").nth(1)).map(|t| t.chars().take(60).collect::<String>()));
            }
        }
        let mut readers: Vec<(&str, &Obs)> = vec![("reference reader before the writer began", v_old), ("reader opened after commit() returned", &v_new)];
        if matches!(shape, Shape::Before) {
            readers.push(("reader opened before the writer began, first run", &run.first));
            readers.push(("reader opened before the writer began, second run (after the commit)", &run.second));
        }
        if matches!(shape, Shape::After) {
            readers.push(("`after` reader, first run", &run.first));
            readers.push(("`after` reader, second run", &run.second));
        }
        let mixed: Vec<String> = readers.iter().flat_map(|(w, o)| incoherent(o).into_iter().map(move |b| format!("{w}: {b}"))).collect();
        if !mixed.is_empty() {
            self.violation = true;
            rep.count("loaded-config-vs-stored-mismatch");
            let sig = format!("cfg-vs-stored:{}", ops.iter().map(|o| o.show()).collect::<Vec<_>>().join("+"));
            if !self.recorded.contains(&sig) && self.recorded.len() < 24 {
                self.recorded.insert(sig);
                // minimise: the smallest writer for which a plain `after` reader (cold cache) already mixes
                let (input, mixed) = if !self.after_mismatch(ops).is_empty() {
                    let min = shrink_list(ops.to_vec(), |c| !c.is_empty() && !self.after_mismatch(c).is_empty());
                    rep.note(format!("minimised writer: {}", min.iter().map(|o| o.show()).collect::<Vec<_>>().join("+")));
                    (json!({"ops": min.iter().map(|o| o.show()).collect::<Vec<_>>(), "shape": "after", "warm": false}), self.after_mismatch(&min))
                } else {
                    (input.clone(), mixed)
                };
                rep.fail(Failure {
                    kind: "impl-vs-oracle".into(),
                    class: "loaded-config-differs-from-stored-entries".into(),
                    input,
                    expected: "inside one read transaction that does not overlap the commit, every loaded configuration observable (domain display name, badlist / denied names, access decision, OAuth2 clients, key objects, cid) belongs to the same committed state as the stored entries read by that transaction".into(),
                    observed: mixed.join("; "),
                });
            }
        } else {
            rep.count("loaded-config-matches-stored");
        }

        // ---------------- oracle 2: all old or all new ----------------
        let all_old = sides.values().all(|s| *s == "old");
        let all_new = sides.values().all(|s| *s == "new");
        let repeat_ok = run.first == run.second;
        if !(unchanged_ok && (all_old || all_new) && repeat_ok) {
            let any_neither = sides.values().any(|s| *s == "neither") || !unchanged_ok;
            let cfg_sides: BTreeSet<&str> = cfg_changing.iter().map(|k| sides[k]).collect();
            let stored_sides: BTreeSet<&str> = stored_changing.iter().flat_map(|k| if sides[k] == "mixed" { vec!["old", "new"] } else { vec![sides[k]] }).collect();
            let class = if !repeat_ok {
                "repeat-read-unstable".to_string()
            } else if any_neither {
                "observation-from-no-committed-state".to_string()
            } else {
                let cfg_all_old = cfg_sides.iter().all(|s| *s == "old");
                match shape {
                    // the reader queried while the writer's SQLite transaction was still open: nothing
                    // stored may be visible yet
                    Shape::Pause(_) if stored_sides.contains("new") => "uncommitted-data-visible".to_string(),
                    // every acquired configuration snapshot is old and the queries ran after the
                    // writer's commit returned: only the deferred SQLite snapshot is new
                    Shape::Deferred | Shape::PauseLate(_) if cfg_all_old && stored_sides.contains("new") => "reader-db-snapshot-deferred".to_string(),
                    // the reader started while commit() was running, after some publications
                    Shape::Pause(_) | Shape::PauseLate(_) if cfg_sides.contains("new") => "D5:reader-between-publications".to_string(),
                    _ => "quiescent-reader-mixed-state".to_string(),
                }
            };
            match class.as_str() {
                "D5:reader-between-publications" => rep.count("known-D5-witness"),
                "reader-db-snapshot-deferred" => rep.count("deferred-snapshot-witness"),
                _ => self.violation = true,
            }
            let sig = format!("{class}:{sides:?}");
            if !self.recorded.contains(&sig) && self.recorded.len() < 24 {
                self.recorded.insert(sig);
                rep.fail(Failure {
                    kind: "impl-vs-oracle".into(),
                    class,
                    input: input.clone(),
                    expected: "every observable of the read transaction from the state before the writer, or every one from the state after it; the second run of the queries equal to the first".into(),
                    observed: format!(
                        "per changing observable: {sides:?}; unchanged observables as before: {unchanged_ok}; second run equal: {repeat_ok}{}",
                        if repeat_ok { String::new() } else { format!(" (differs in {:?})", run.first.keys().filter(|k| run.first.get(*k) != run.second.get(*k)).collect::<Vec<_>>()) }
                    ),
                });
            }
        } else {
            rep.count(if all_old && all_new { "consistent:nothing-changed" } else if all_old { "consistent:old" } else { "consistent:new" });
        }

        if let Some((pred, bad)) = model_bad {
            if bad.is_empty() {
                rep.count("model-agree");
            } else {
                if let Some(m) = self.model.as_mut() {
                    m.disagreements += 1;
                }
                rep.fail(Failure {
                    kind: "impl-vs-model".into(),
                    class: "observed-versions-differ".into(),
                    input,
                    expected: pred,
                    observed: bad.join("; "),
                });
            }
        }
        let _ = warm;
        true
    }
}

/// An observation with the per-run random parts masked (key pairs generated for a new OAuth2 client
/// differ between servers; the twin reference server generates its own).
fn shape_of(v: &str) -> String {
    let mut out = String::new();
    let mut rest = v;
    loop {
        let next = ["\"x\":\"", "\"y\":\"", "\"kid\":\""].iter().filter_map(|p| rest.find(p).map(|i| (i, p.len()))).min();
        match next {
            None => {
                out.push_str(rest);
                return out;
            }
            Some((i, l)) => {
                out.push_str(&rest[..i + l]);
                let tail = &rest[i + l..];
                let end = tail.find('"').unwrap_or(tail.len());
                out.push('#');
                rest = &tail[end..];
            }
        }
    }
}

async fn write_txn(idms: &IdmServer, ops: &[Op]) -> End {
    let mut w = idms.proxy_write(ct(2000)).await.expect("proxy_write");
    for (j, op) in ops.iter().enumerate() {
        if let Err(e) = apply(&mut w, op) {
            drop(w);
            return End::OpFailed(j, e);
        }
    }
    match w.commit() {
        Ok(()) => End::CommitOk,
        Err(e) => End::CommitErr(format!("{e:?}")),
    }
}

fn writer_kinds() -> Vec<Vec<Op>> {
    vec![
        vec![Op::Create(0), Op::Domain(1)],
        // every reload-flagged thing in ONE transaction: system_config, domain, ACP, OAuth2 client (+ key object)
        vec![Op::Create(0), Op::Modify(1), Op::Delete, Op::Badlist(1), Op::Acp, Op::OAuth2, Op::Domain(1)],
        vec![Op::Modify(1), Op::Create(0), Op::Acp],
        vec![Op::Create(0), Op::Modify(2), Op::OAuth2Del, Op::Domain(3)],
        vec![Op::Create(0), Op::Modify(1)],
    ]
}

/// Writers that change exactly TWO reload-flagged things (all pairs of system_config badlist, domain
/// display name, access control profile, OAuth2 client + key object) next to the related-entries pair:
/// a reload dispatch that serves one flag and skips another shows only when both are set.
fn pair_kinds() -> Vec<Vec<Op>> {
    let cfg = [Op::Badlist(2), Op::Domain(2), Op::Acp, Op::OAuth2];
    let mut v = vec![];
    for i in 0..cfg.len() {
        for j in i + 1..cfg.len() {
            v.push(vec![Op::Create(0), cfg[i].clone(), cfg[j].clone()]);
            // … and in the other order of the two operations
            if (i + j) % 2 == 1 {
                let l = v.len() - 1;
                v[l].swap(1, 2);
            }
        }
    }
    v
}

fn all_shapes() -> Vec<Shape> {
    let mut v = vec![Shape::Before, Shape::After, Shape::Deferred];
    for t in ["db_op_ts", "ruv", "id2entry"] {
        v.push(Shape::Pause(t.to_string()));
        v.push(Shape::PauseLate(t.to_string()));
    }
    v
}

fn main() {
    let args = Args::parse();
    let t0 = Instant::now();
    let mut rep = Report::new(
        "interleave",
        "one reader and one committing writer whose transaction changes at least two stored observables (related entries / index answers) and one configuration observable; key = (writer operations, schedule shape, cache warm/cold)",
    );
    let dir = workdir();
    let base = dir.join("base.db");
    let work = dir.join("work.db");
    build_baseline(&base);
    let model = if args.driver.is_empty() { None } else { Some(Model::new(&args.driver)) };
    // calibrate the pause to about one second
    let rows = {
        copy_db(&base, &work);
        let sab = Sab::open(&work);
        let t = sab.calibrate(1500).as_secs_f64().max(0.001);
        let r = (1500.0 * (1.0 / t).sqrt()) as u64;
        r.clamp(800, 20000)
    };
    rep.note(format!("pause table rows: {rows}"));
    let mut cx = Ctx { base: base.clone(), work: work.clone(), model, rows, violation: false, recorded: BTreeSet::new() };

    if let Some(path) = &args.replay {
        let v: J = serde_json::from_str(&std::fs::read_to_string(path).expect("replay file")).expect("replay json");
        let input = v.get("input").cloned().unwrap_or(v);
        let ops: Vec<Op> = input["ops"].as_array().expect("ops").iter().map(|o| Op::parse(o.as_str().unwrap())).collect();
        let shape = Shape::parse(input["shape"].as_str().expect("shape"));
        cx.case(&ops, &shape, input["warm"].as_bool().unwrap_or(false), &mut rep);
        rep.write(&args.out);
        println!("c06 replay: {} failures", rep.failures.len());
        let _ = std::fs::remove_dir_all(&dir);
        return;
    }

    let thorough = args.thorough();
    let mut kinds = writer_kinds();
    if !thorough && args.budget <= 1 {
        kinds.truncate(2);
    }
    let n_full = kinds.len();
    kinds.extend(pair_kinds());
    // thorough: plus random writers (always with the related-entries pair)
    let extra = args.cases(0, 4);
    for i in 0..extra {
        let mut r = Rng::for_case(args.seed, 100 + i);
        let mut ops = vec![Op::Create(0)];
        let pool = [Op::Modify(r.range(1, 9)), Op::Delete, Op::Acp, Op::OAuth2, Op::OAuth2Del, Op::Domain(r.range(1, 9)), Op::Badlist(r.range(1, 9)), Op::Schema];
        for o in pool {
            if r.chance(1, 2) {
                ops.push(o);
            }
        }
        kinds.push(ops);
    }
    // raised budget (a fingerprinted function changed / an obligation broke): writers that set the most
    // reload flags at once first, and the single-threaded shapes before the pauses
    let raised = args.budget > 1;
    if raised {
        let n_cfg = |k: &Vec<Op>| k.iter().filter(|o| matches!(o, Op::Badlist(_) | Op::Domain(_) | Op::Acp | Op::OAuth2 | Op::OAuth2Del | Op::Schema)).count();
        kinds.sort_by_key(|k| std::cmp::Reverse(n_cfg(k)));
    }
    let mut shapes = all_shapes();
    let mut rng = Rng::for_case(args.seed, 7);
    'all: for (ki, ops) in kinds.iter().enumerate() {
        rng.shuffle(&mut shapes);
        if raised {
            shapes.sort_by_key(|s| matches!(s, Shape::Pause(_) | Shape::PauseLate(_)));
        }
        // quick: a pair writer runs `after` (cold and warm), `before`, `deferred` and one pause shape
        let pair_quick = !thorough && args.budget <= 1 && ki >= n_full && ki < n_full + 6;
        let pick_pause = shapes.iter().find(|s| matches!(s, Shape::Pause(_) | Shape::PauseLate(_))).cloned();
        for shape in &shapes {
            for warm in [false, true] {
                if pair_quick {
                    let keep = match shape {
                        Shape::After => true,
                        Shape::Before => warm,
                        Shape::Deferred => !warm,
                        p => Some(p) == pick_pause.as_ref() && warm == (ki % 2 == 0),
                    };
                    if !keep {
                        continue;
                    }
                }
                // quick: the single-threaded shapes in both cache states, the pauses alternately
                if !thorough && args.budget <= 1 && matches!(shape, Shape::Pause(_) | Shape::PauseLate(_)) && warm != rng.chance(1, 2) {
                    continue;
                }
                cx.case(ops, shape, warm, &mut rep);
                if cx.violation {
                    break 'all;
                }
            }
        }
    }
    if let Some(m) = &cx.model {
        rep.model_requests = m.drv.requests;
    }
    rep.note(format!("total {:.1}s", t0.elapsed().as_secs_f64()));
    rep.write(&args.out);
    println!(
        "c06: {} cases, {} distinct non-trivial, {} failures ({} D5 witnesses, {} deferred-snapshot witnesses), {:.1}s",
        rep.evaluations,
        rep.nontrivial_keys.len(),
        rep.failures.len(),
        rep.histogram.get("known-D5-witness").copied().unwrap_or(0),
        rep.histogram.get("deferred-snapshot-witness").copied().unwrap_or(0),
        t0.elapsed().as_secs_f64()
    );
    let _ = std::fs::remove_dir_all(&dir);
}
