//! C17 — group membership closure is always exact.
//!
//! Drives a real in-memory server (`testkit::setup_test`, `QueryServerWriteTransaction`:
//! `internal_create` / `internal_modify_uuid` / `internal_delete` / `revive_recycled`, one
//! committed write transaction per operation) and the Lean model (`km_c17`) with the same
//! history of operations over ≤ 12 groups and ≤ 4 persons (nested and cyclic graphs).
//!
//! After **every** operation:
//! * oracle (implementation only, written from the property text): for every live entry of the
//!   database (built-in entries and dynamic groups included) `memberof` must equal the set of live
//!   groups from which the entry is reached through ≥ 1 stored `member`/`dynmember` links between
//!   live groups (breadth-first search), and `directmemberof` the live groups listing it;
//! * correspondence: member / memberof / directmemberof / recycled_directmemberof and the
//!   live/recycled status of every entry of the history equal the model's prediction — the model
//!   is faithful to the code, so it predicts the stale values of the known defects too.
//!
//! Every real operation runs on a worker thread under a watchdog; an operation for which the
//! model predicts that `apply_memberof` never ends is not executed in-process: the first few
//! are confirmed in a child process that is killed after a timeout (D21).
//!
//! Failure classes (recognisers work on the observed implementation state of the minimised
//! witness, not on the model):
//! * `D6:stale-closure-in-cycle`            — a memberof value in excess that is sustained around a
//!   cycle of live groups (every holder has a parent group holding it too);
//! * `D16:group-revive-members-not-restored` — a missing value whose flow is cut at a member link
//!   of a group revived earlier in the history;
//! * `D21:memberof-worklist-livelock`        — an operation that does not finish, started from a
//!   state that already holds a D6-stale value;
//! * `D26:repl-merged-group-memberof-wiped-not-propagated` — replicated stream only: after an
//!   incremental replication an entry keeps a value that a group listing it before the step held
//!   then and has dropped (or that group is no longer live), and nobody above the entry holds it;
//! a stale value inherited from an entry whose stale value already has a class gets that class;
//! anything else is `unclassified`.
//!
//! Stream 4 drives a server pair (`setup_pair_test`, B refreshed from A, `supplier_provide_changes`
//! / `consumer_apply_changes`) with operations on either side and incremental replication in both
//! directions; oracle on the touched server after every step, no model.
use hlib::*;
use kanidmd_lib::entry::{Entry, EntryInit, EntryNew, EntrySealedCommitted};
use kanidmd_lib::event::ReviveRecycledEvent;
use kanidmd_lib::prelude::*;
use kanidmd_lib::repl::proto::ConsumerState;
use kanidmd_lib::testkit::{setup_pair_test, setup_test, TestConfiguration};
use serde_json::{json, Value as J};
use std::collections::{BTreeMap, BTreeSet};
use std::io::{BufRead, BufReader};
use std::process::{Command, Stdio};
use std::sync::mpsc::{channel, Receiver, RecvTimeoutError, Sender};
use std::time::Duration as StdDuration;

const NGROUP: u8 = 12; // ids 1..=12 are groups
const NPERSON: u8 = 4; // ids 13..=16 are persons
const SLOT: u64 = 32; // uuid stride per case on a shared server

#[derive(Clone, Debug, PartialEq, Eq, PartialOrd, Ord)]
enum Op {
    Cg(u8, Vec<u8>),
    Cp(u8),
    Set(u8, Vec<u8>),
    Add(u8, u8),
    Rem(u8, u8),
    Del(Vec<u8>),
    Rev(u8),
}

fn show_ids(v: &[u8]) -> String {
    if v.is_empty() {
        "-".into()
    } else {
        v.iter().map(|x| x.to_string()).collect::<Vec<_>>().join(",")
    }
}

fn parse_ids(s: &str) -> Vec<u8> {
    if s == "-" || s.is_empty() {
        vec![]
    } else {
        s.split(',').map(|x| x.parse().expect("id")).collect()
    }
}

impl Op {
    /// Same syntax as the Lean driver's `op` request.
    fn token(&self) -> String {
        match self {
            Op::Cg(i, m) => format!("cg {i} {}", show_ids(m)),
            Op::Cp(i) => format!("cp {i}"),
            Op::Set(g, m) => format!("set {g} {}", show_ids(m)),
            Op::Add(g, m) => format!("add {g} {m}"),
            Op::Rem(g, m) => format!("rem {g} {m}"),
            Op::Del(v) => format!("del {}", show_ids(v)),
            Op::Rev(i) => format!("rev {i}"),
        }
    }
    fn parse(s: &str) -> Op {
        let p: Vec<&str> = s.split_whitespace().collect();
        let n = |i: usize| -> u8 { p[i].parse().expect("id") };
        match p[0] {
            "cg" => Op::Cg(n(1), parse_ids(p[2])),
            "cp" => Op::Cp(n(1)),
            "set" => Op::Set(n(1), parse_ids(p[2])),
            "add" => Op::Add(n(1), n(2)),
            "rem" => Op::Rem(n(1), n(2)),
            "del" => Op::Del(parse_ids(p[1])),
            "rev" => Op::Rev(n(1)),
            x => panic!("bad op {x}"),
        }
    }
    fn is_removal(&self) -> bool {
        matches!(self, Op::Rem(..) | Op::Set(..) | Op::Del(..))
    }
}

fn is_group_id(i: u8) -> bool {
    (1..=NGROUP).contains(&i)
}

// ---------------------------------------------------------------------------------------------
// the implementation side: one server per worker thread
// ---------------------------------------------------------------------------------------------

/// One discrepancy between stored values and the property's closure.
#[derive(Clone, Debug, PartialEq, Eq, PartialOrd, Ord)]
struct Disc {
    entry: Uuid,
    attr: &'static str, // "mo" | "dmo"
    kind: &'static str, // "extra" | "missing"
    value: Uuid,
}

/// What the worker reports after an operation.
#[derive(Clone, Debug, Default)]
struct Observed {
    result: String, // "ok" | "err:<e>" | "panic:<msg>"
    /// tracked entries in the model's `showState` format
    state: String,
    /// the oracle's closure of every live tracked entry, in the model's `closure` format
    closure: String,
    discs: Vec<Disc>,
    /// for the recognisers: live groups → members (member ∪ dynmember), stored memberof per live entry
    members: BTreeMap<Uuid, BTreeSet<Uuid>>,
    stored_mo: BTreeMap<Uuid, BTreeSet<Uuid>>,
    live_entries: usize,
    live_groups: usize,
}

enum Req {
    Run { base: u64, server: usize, op: Op },
    /// incremental replication `from` → `to`, then observe `to`
    Repl { base: u64, from: usize, to: usize },
    Quit,
}

struct World {
    tx: Sender<Req>,
    rx: Receiver<Observed>,
    cases_run: u64,
}

fn uuid_of(base: u64, id: u8) -> Uuid {
    nat_uuid(0x1700_0000_0000 + base * SLOT + id as u64)
}

fn id_of(base: u64, u: &Uuid) -> Option<u8> {
    let lo = nat_uuid(0x1700_0000_0000 + base * SLOT).as_u128();
    let v = u.as_u128();
    if v >= lo && v < lo + SLOT as u128 {
        Some((v - lo) as u8)
    } else {
        None
    }
}

fn refer_set(e: &EntrySealedCommitted, a: Attribute) -> BTreeSet<Uuid> {
    e.get_ava_refer(a).cloned().unwrap_or_default()
}

fn exec_op(qs: &QueryServer, rt: &tokio::runtime::Runtime, ct: Duration, base: u64, op: &Op) -> Result<(), String> {
    let mut w = rt.block_on(qs.write(ct)).map_err(|e| format!("write:{e:?}"))?;
    let u = |i: u8| uuid_of(base, i);
    let r: Result<(), OperationError> = match op {
        Op::Cg(i, ms) => {
            let mut e: Entry<EntryInit, EntryNew> = Entry::new();
            e.add_ava(Attribute::Class, EntryClass::Object.to_value());
            e.add_ava(Attribute::Class, EntryClass::Group.to_value());
            e.add_ava(Attribute::Name, Value::new_iname(&format!("c17g{base}x{i}")));
            e.add_ava(Attribute::Uuid, Value::Uuid(u(*i)));
            for m in ms {
                e.add_ava(Attribute::Member, Value::Refer(u(*m)));
            }
            w.internal_create(vec![e])
        }
        Op::Cp(i) => {
            let mut e: Entry<EntryInit, EntryNew> = Entry::new();
            e.add_ava(Attribute::Class, EntryClass::Object.to_value());
            e.add_ava(Attribute::Class, EntryClass::Account.to_value());
            e.add_ava(Attribute::Class, EntryClass::Person.to_value());
            e.add_ava(Attribute::Name, Value::new_iname(&format!("c17p{base}x{i}")));
            e.add_ava(Attribute::DisplayName, Value::new_utf8s(&format!("c17p{base}x{i}")));
            e.add_ava(Attribute::Uuid, Value::Uuid(u(*i)));
            w.internal_create(vec![e])
        }
        Op::Set(g, ms) => {
            let mut mods = vec![Modify::Purged(Attribute::Member)];
            for m in ms {
                mods.push(Modify::Present(Attribute::Member, Value::Refer(u(*m))));
            }
            w.internal_modify_uuid(u(*g), &ModifyList::new_list(mods))
        }
        Op::Add(g, m) => w.internal_modify_uuid(
            u(*g),
            &ModifyList::new_list(vec![Modify::Present(Attribute::Member, Value::Refer(u(*m)))]),
        ),
        Op::Rem(g, m) => w.internal_modify_uuid(
            u(*g),
            &ModifyList::new_list(vec![Modify::Removed(Attribute::Member, PartialValue::Refer(u(*m)))]),
        ),
        Op::Del(ids) => {
            let f = Filter::new_ignore_hidden(f_or(
                ids.iter().map(|i| f_eq(Attribute::Uuid, PartialValue::Uuid(u(*i)))).collect(),
            ));
            w.internal_delete(&f)
        }
        Op::Rev(i) => {
            // the revive path of the recycle bin API, performed by admin (member of system_admins, hence of idm_recycle_bin_admins)
            let admin = w.internal_search_uuid(UUID_ADMIN).map_err(|e| format!("admin:{e:?}"))?;
            let ident = Identity::from_impersonate_entry_readwrite(admin);
            let f = Filter::new(f_eq(Attribute::Uuid, PartialValue::Uuid(u(*i))));
            match ReviveRecycledEvent::from_parts(ident, &f, &w) {
                Ok(re) => w.revive_recycled(&re),
                Err(e) => Err(e),
            }
        }
    };
    match r {
        Ok(()) => w.commit().map_err(|e| format!("commit:{e:?}")),
        Err(e) => Err(format!("{e:?}")),
    }
}

fn fmt_set(base: u64, s: &BTreeSet<Uuid>) -> String {
    let v: Vec<u8> = s.iter().filter_map(|u| id_of(base, u)).collect();
    show_ids(&v)
}

/// Read everything back in a read transaction: tracked state + oracle over all live entries.
fn observe(qs: &QueryServer, rt: &tokio::runtime::Runtime, base: u64, obs: &mut Observed) -> Result<(), String> {
    let mut r = rt.block_on(qs.read()).map_err(|e| format!("read:{e:?}"))?;
    // ---- tracked entries (live or recycled), model format: one search over the whole uuid slot
    let mut parts = vec![];
    let f = Filter::new(f_or((0..SLOT as u8).map(|i| f_eq(Attribute::Uuid, PartialValue::Uuid(uuid_of(base, i)))).collect()));
    let es = r.internal_search(f).map_err(|e| format!("search:{e:?}"))?;
    let mut by_id: BTreeMap<u8, &std::sync::Arc<EntrySealedCommitted>> = BTreeMap::new();
    for e in es.iter() {
        if let Some(i) = id_of(base, &e.get_uuid()) {
            by_id.insert(i, e);
        }
    }
    for (i, e) in by_id {
        let recycled = e.attribute_equality(Attribute::Class, &EntryClass::Recycled.into());
        let tomb = e.attribute_equality(Attribute::Class, &EntryClass::Tombstone.into());
        let grp = e.attribute_equality(Attribute::Class, &EntryClass::Group.into());
        parts.push(format!(
            "{i}/{}/{}/{}/{}/{}/{}",
            if grp { "g" } else { "p" },
            if tomb { "T" } else if recycled { "R" } else { "L" },
            fmt_set(base, &refer_set(e, Attribute::Member)),
            fmt_set(base, &refer_set(e, Attribute::MemberOf)),
            fmt_set(base, &refer_set(e, Attribute::DirectMemberOf)),
            fmt_set(base, &refer_set(e, Attribute::RecycledDirectMemberOf)),
        ));
    }
    obs.state = if parts.is_empty() { "-".into() } else { parts.join(" ") };
    // ---- oracle: BFS closure over the stored member/dynmember links of live groups
    let all = r
        .internal_search(Filter::new_ignore_hidden(f_pres(Attribute::Class)))
        .map_err(|e| format!("search-all:{e:?}"))?;
    let live: BTreeSet<Uuid> = all.iter().map(|e| e.get_uuid()).collect();
    let mut parents: BTreeMap<Uuid, BTreeSet<Uuid>> = BTreeMap::new();
    obs.members.clear();
    obs.stored_mo.clear();
    for e in all.iter() {
        if e.attribute_equality(Attribute::Class, &EntryClass::Group.into()) {
            let g = e.get_uuid();
            let mut ms = refer_set(e, Attribute::Member);
            ms.extend(refer_set(e, Attribute::DynMember));
            for m in &ms {
                parents.entry(*m).or_default().insert(g);
            }
            obs.members.insert(g, ms);
        }
    }
    obs.live_entries = all.len();
    obs.live_groups = obs.members.len();
    obs.discs.clear();
    let mut closure_parts: BTreeMap<u8, String> = BTreeMap::new();
    for e in all.iter() {
        let x = e.get_uuid();
        let direct: BTreeSet<Uuid> = parents.get(&x).cloned().unwrap_or_default();
        // breadth first, upwards
        let mut closure: BTreeSet<Uuid> = BTreeSet::new();
        let mut frontier: Vec<Uuid> = direct.iter().copied().collect();
        while let Some(p) = frontier.pop() {
            if closure.insert(p) {
                if let Some(pp) = parents.get(&p) {
                    frontier.extend(pp.iter().copied());
                }
            }
        }
        debug_assert!(closure.iter().all(|g| live.contains(g)));
        if let Some(i) = id_of(base, &x) {
            closure_parts.insert(i, format!("{i}/{}", fmt_set(base, &closure)));
        }
        let mo = refer_set(e, Attribute::MemberOf);
        let dmo = refer_set(e, Attribute::DirectMemberOf);
        for v in mo.difference(&closure) {
            obs.discs.push(Disc { entry: x, attr: "mo", kind: "extra", value: *v });
        }
        for v in closure.difference(&mo) {
            obs.discs.push(Disc { entry: x, attr: "mo", kind: "missing", value: *v });
        }
        for v in dmo.difference(&direct) {
            obs.discs.push(Disc { entry: x, attr: "dmo", kind: "extra", value: *v });
        }
        for v in direct.difference(&dmo) {
            obs.discs.push(Disc { entry: x, attr: "dmo", kind: "missing", value: *v });
        }
        obs.stored_mo.insert(x, mo);
    }
    obs.closure = if closure_parts.is_empty() { "-".into() } else { closure_parts.into_values().collect::<Vec<_>>().join(" ") };
    Ok(())
}

fn exec_repl(qs: &[QueryServer], rt: &tokio::runtime::Runtime, ct: Duration, from: usize, to: usize) -> Result<(), String> {
    let mut from_r = rt.block_on(qs[from].read()).map_err(|e| format!("read:{e:?}"))?;
    let mut to_w = rt.block_on(qs[to].write(ct)).map_err(|e| format!("write:{e:?}"))?;
    let state = to_w.consumer_get_state().map_err(|e| format!("consumer_get_state:{e:?}"))?;
    let changes = from_r.supplier_provide_changes(state).map_err(|e| format!("supplier_provide_changes:{e:?}"))?;
    match to_w.consumer_apply_changes(changes).map_err(|e| format!("consumer_apply_changes:{e:?}"))? {
        ConsumerState::Ok => to_w.commit().map_err(|e| format!("commit:{e:?}")),
        ConsumerState::RefreshRequired => Err("refresh-required".into()),
    }
}

fn worker(pair: bool, rx: Receiver<Req>, tx: Sender<Observed>) {
    let rt = tokio::runtime::Builder::new_current_thread().enable_all().build().unwrap();
    let mut ct = duration_from_epoch_now();
    let qs: Vec<QueryServer> = if pair {
        let (a, b) = rt.block_on(setup_pair_test(TestConfiguration::default()));
        // B becomes a replica of A (refresh), as a new node joining the topology
        {
            ct += Duration::from_secs(1);
            let mut a_r = rt.block_on(a.read()).expect("read a");
            let mut b_w = rt.block_on(b.write(ct)).expect("write b");
            let ctx = a_r.supplier_provide_refresh().expect("refresh ctx");
            b_w.consumer_apply_refresh(ctx).expect("apply refresh");
            b_w.commit().expect("commit refresh");
        }
        vec![a, b]
    } else {
        vec![rt.block_on(setup_test(TestConfiguration::default()))]
    };
    // signal readiness
    let _ = tx.send(Observed { result: "ready".into(), ..Default::default() });
    while let Ok(req) = rx.recv() {
        ct += Duration::from_secs(1);
        let (base, target, res) = match req {
            Req::Quit => break,
            Req::Run { base, server, op } => {
                let r = std::panic::catch_unwind(std::panic::AssertUnwindSafe(|| exec_op(&qs[server], &rt, ct, base, &op)));
                (base, server, r)
            }
            Req::Repl { base, from, to } => {
                let r = std::panic::catch_unwind(std::panic::AssertUnwindSafe(|| exec_repl(&qs, &rt, ct, from, to)));
                (base, to, r)
            }
        };
        let mut obs = Observed::default();
        obs.result = match res {
            Ok(Ok(())) => "ok".into(),
            Ok(Err(e)) => format!("err:{e}"),
            Err(p) => format!(
                "panic:{}",
                p.downcast_ref::<String>().cloned().or_else(|| p.downcast_ref::<&str>().map(|s| s.to_string())).unwrap_or_default()
            ),
        };
        let ob = std::panic::catch_unwind(std::panic::AssertUnwindSafe(|| observe(&qs[target], &rt, base, &mut obs)));
        match ob {
            Ok(Ok(())) => {}
            Ok(Err(e)) => obs.result = format!("observe-failed:{e} after {}", obs.result),
            Err(_) => obs.result = format!("observe-panicked after {}", obs.result),
        }
        if tx.send(obs).is_err() {
            break;
        }
    }
}

impl World {
    fn new() -> World {
        World::with(false)
    }
    fn with(pair: bool) -> World {
        let (tx, wrx) = channel::<Req>();
        let (wtx, rx) = channel::<Observed>();
        std::thread::Builder::new()
            .name("c17-world".into())
            .stack_size(64 << 20)
            .spawn(move || worker(pair, wrx, wtx))
            .expect("spawn world");
        let ready = rx.recv_timeout(StdDuration::from_secs(300)).expect("server boot");
        assert_eq!(ready.result, "ready");
        World { tx, rx, cases_run: 0 }
    }
    /// `None` = the operation did not finish within the watchdog time (the world is lost).
    fn run(&self, base: u64, op: &Op, watchdog: StdDuration) -> Option<Observed> {
        self.send(Req::Run { base, server: 0, op: op.clone() }, watchdog)
    }
    fn run_on(&self, base: u64, server: usize, op: &Op, watchdog: StdDuration) -> Option<Observed> {
        self.send(Req::Run { base, server, op: op.clone() }, watchdog)
    }
    fn repl(&self, base: u64, from: usize, to: usize, watchdog: StdDuration) -> Option<Observed> {
        self.send(Req::Repl { base, from, to }, watchdog)
    }
    fn send(&self, req: Req, watchdog: StdDuration) -> Option<Observed> {
        self.tx.send(req).expect("world alive");
        match self.rx.recv_timeout(watchdog) {
            Ok(o) => Some(o),
            Err(RecvTimeoutError::Timeout) => None,
            Err(RecvTimeoutError::Disconnected) => Some(Observed { result: "world-died".into(), ..Default::default() }),
        }
    }
}

impl Drop for World {
    fn drop(&mut self) {
        let _ = self.tx.send(Req::Quit);
    }
}

// ---------------------------------------------------------------------------------------------
// recognisers (implementation state only)
// ---------------------------------------------------------------------------------------------

const D6: &str = "D6:stale-closure-in-cycle";
const D16: &str = "D16:group-revive-members-not-restored";
const D21: &str = "D21:memberof-worklist-livelock";

fn parents_of(obs: &Observed) -> BTreeMap<Uuid, BTreeSet<Uuid>> {
    let mut p: BTreeMap<Uuid, BTreeSet<Uuid>> = BTreeMap::new();
    for (g, ms) in &obs.members {
        for m in ms {
            p.entry(*m).or_default().insert(*g);
        }
    }
    p
}

const D26: &str = "D26:repl-merged-group-memberof-wiped-not-propagated";

/// What a recogniser may look at: the observed state after the step, the one before it (same
/// server), the groups revived so far, the classes already given to standing stale values, and
/// whether the step was an incremental replication.
struct ClassCtx<'a> {
    obs: &'a Observed,
    prev: Option<&'a Observed>,
    revived: &'a BTreeSet<Uuid>,
    known: &'a BTreeMap<(Uuid, Uuid), &'static str>,
    is_repl: bool,
}

/// Classify one discrepancy of the observed state.
fn classify_disc(d: &Disc, cx: &ClassCtx) -> &'static str {
    let (obs, revived) = (cx.obs, cx.revived);
    let parents = parents_of(obs);
    let empty = BTreeSet::new();
    let holds = |x: &Uuid, v: &Uuid| obs.stored_mo.get(x).map(|s| s.contains(v)).unwrap_or(false);
    match (d.attr, d.kind) {
        ("mo", "extra") => {
            // follow parents that hold the value too; a sustained stale value must come back to a
            // node already visited (a cycle of live groups); a holder without such a parent is a root
            let mut cur = d.entry;
            let mut seen = BTreeSet::new();
            loop {
                if !seen.insert(cur) {
                    return D6;
                }
                let ps = parents.get(&cur).unwrap_or(&empty);
                if ps.contains(&d.value) {
                    return "unclassified"; // would be legitimate, cannot be in excess
                }
                match ps.iter().find(|p| holds(p, &d.value)) {
                    Some(p) => cur = *p,
                    None => {
                        // a root: nobody above `cur` holds the value
                        if let Some(c) = cx.known.get(&(cur, d.value)) {
                            return c; // inherited from a standing, already classified stale value
                        }
                        // D26: after an incremental replication, a group that listed `cur` before the
                        // step and held the value then, has dropped it (or is no longer a live group),
                        // but `cur` itself was not recomputed
                        if let (true, Some(prev)) = (cx.is_repl, cx.prev) {
                            let dropped = prev.members.iter().any(|(p, ms)| {
                                ms.contains(&cur)
                                    && (*p == d.value || prev.stored_mo.get(p).map(|s| s.contains(&d.value)).unwrap_or(false))
                                    && (!obs.members.contains_key(p) || !holds(p, &d.value))
                            });
                            if dropped {
                                return D26;
                            }
                        }
                        return "unclassified";
                    }
                }
            }
        }
        ("mo", "missing") => {
            // a true chain value -> ... -> entry (BFS downwards from the value)
            let mut pred: BTreeMap<Uuid, Uuid> = BTreeMap::new();
            let mut queue = std::collections::VecDeque::new();
            queue.push_back(d.value);
            let mut found = false;
            while let Some(g) = queue.pop_front() {
                for m in obs.members.get(&g).unwrap_or(&empty) {
                    if !pred.contains_key(m) {
                        pred.insert(*m, g);
                        if *m == d.entry {
                            found = true;
                        }
                        queue.push_back(*m);
                    }
                }
                if found {
                    break;
                }
            }
            if !found {
                return "unclassified";
            }
            let mut chain = vec![d.entry];
            let mut cur = d.entry;
            let mut guard = 0;
            while let Some(p) = pred.get(&cur) {
                chain.push(*p);
                if *p == d.value || guard > 10_000 {
                    break;
                }
                cur = *p;
                guard += 1;
            }
            chain.reverse(); // value, y1, ..., entry
            // first node lacking the value while its predecessor is the value or holds it
            for w in chain.windows(2) {
                let (q, y) = (w[0], w[1]);
                let q_has = q == d.value || holds(&q, &d.value);
                if q_has && !holds(&y, &d.value) {
                    return if revived.contains(&q) { D16 } else { "unclassified" };
                }
            }
            "unclassified"
        }
        ("dmo", "missing") => {
            if revived.contains(&d.value) {
                D16
            } else {
                "unclassified"
            }
        }
        _ => "unclassified",
    }
}

// ---------------------------------------------------------------------------------------------
// one history: implementation + model + oracle
// ---------------------------------------------------------------------------------------------

#[derive(Clone, Debug)]
struct Event {
    kind: &'static str, // "impl-vs-oracle" | "impl-vs-model"
    class: String,
    at: usize, // index of the operation
    expected: String,
    observed: String,
}

#[derive(Default)]
struct Outcome {
    events: Vec<Event>,
    executed: usize,
    ok_ops: usize,
    err_ops: usize,
    skipped_livelock: Vec<usize>,
    world_lost: bool,
    had_group_edge: bool,
    had_cycle: bool,
    removal_ok: bool,
    revive_ok: bool,
    max_live_groups: usize,
    op_kinds: BTreeMap<&'static str, u64>,
}

fn short(u: &Uuid, base: u64) -> String {
    match id_of(base, u) {
        Some(i) => i.to_string(),
        None => u.to_string(),
    }
}

fn has_cycle(members: &BTreeMap<Uuid, BTreeSet<Uuid>>) -> bool {
    // colour DFS over live groups
    let mut colour: BTreeMap<Uuid, u8> = BTreeMap::new();
    fn go(g: Uuid, members: &BTreeMap<Uuid, BTreeSet<Uuid>>, colour: &mut BTreeMap<Uuid, u8>) -> bool {
        colour.insert(g, 1);
        if let Some(ms) = members.get(&g) {
            for m in ms {
                if !members.contains_key(m) {
                    continue;
                }
                match colour.get(m).copied().unwrap_or(0) {
                    1 => return true,
                    0 => {
                        if go(*m, members, colour) {
                            return true;
                        }
                    }
                    _ => {}
                }
            }
        }
        colour.insert(g, 2);
        false
    }
    let keys: Vec<Uuid> = members.keys().copied().collect();
    for g in keys {
        if colour.get(&g).copied().unwrap_or(0) == 0 && go(g, members, &mut colour) {
            return true;
        }
    }
    false
}

/// Run `ops` on `world` (fresh uuid slot `base`) and on the model. `stop_at_first` ends the
/// history at the first event (used while minimising).
fn run_history(world: &mut Option<World>, drv: &mut Driver, base: u64, ops: &[Op], watchdog: StdDuration, stop_at_first: bool) -> Outcome {
    let mut out = Outcome::default();
    if world.is_none() {
        *world = Some(World::new());
    }
    assert_eq!(drv.ask("reset"), "ok");
    let mut prev_discs: BTreeSet<Disc> = BTreeSet::new();
    let mut revived: BTreeSet<Uuid> = BTreeSet::new();
    let mut known: BTreeMap<(Uuid, Uuid), &'static str> = BTreeMap::new();
    let mut stale_before = false;
    for (k, op) in ops.iter().enumerate() {
        let reply = drv.ask(&format!("op {}", op.token()));
        let (mres, mstate) = reply.split_once(' ').unwrap_or((reply.as_str(), ""));
        if mres.starts_with("diverge") {
            // the model (as coded) never finishes this apply_memberof: do not execute in-process
            out.skipped_livelock.push(k);
            continue;
        }
        let kind = match op {
            Op::Cg(..) => "cg",
            Op::Cp(..) => "cp",
            Op::Set(..) => "set",
            Op::Add(..) => "add",
            Op::Rem(..) => "rem",
            Op::Del(..) => "del",
            Op::Rev(..) => "rev",
        };
        *out.op_kinds.entry(kind).or_insert(0) += 1;
        let obs = match world.as_ref().unwrap().run(base, op, watchdog) {
            Some(o) => o,
            None => {
                // unpredicted hang: the world is lost (its thread keeps spinning)
                std::mem::forget(world.take());
                out.world_lost = true;
                let class = if stale_before { D21 } else { "unclassified" };
                out.events.push(Event {
                    kind: "impl-vs-oracle",
                    class: class.into(),
                    at: k,
                    expected: "the operation commits or fails".into(),
                    observed: format!("`{}` did not finish within {:?}", op.token(), watchdog),
                });
                out.events.push(Event {
                    kind: "impl-vs-model",
                    class: "unclassified".into(),
                    at: k,
                    expected: format!("model: {mres}"),
                    observed: "implementation does not finish".into(),
                });
                return out;
            }
        };
        out.executed += 1;
        if std::env::var_os("C17_TRACE").is_some() {
            eprintln!("{:>14} -> {} | {} | model {} {} | discs {}", op.token(), obs.result, obs.state, mres, mstate, obs.discs.len());
        }
        let ires = if obs.result == "ok" { "ok" } else if obs.result.starts_with("err:") { "err" } else { obs.result.as_str() };
        if ires == "ok" {
            out.ok_ops += 1;
            if op.is_removal() {
                out.removal_ok = true;
            }
            if let Op::Rev(i) = op {
                out.revive_ok = true;
                if is_group_id(*i) {
                    revived.insert(uuid_of(base, *i));
                }
            }
        } else {
            out.err_ops += 1;
        }
        // ---- correspondence
        if ires != mres || obs.state != mstate {
            out.events.push(Event {
                kind: "impl-vs-model",
                class: "unclassified".into(),
                at: k,
                expected: format!("{mres} {mstate}"),
                observed: format!("{} {}", obs.result, obs.state),
            });
            return out; // the two sides are out of step
        }
        // ---- the oracle's closure against the specification's (`Reach`, computed by the model's
        // `closureIter` on the model state): ties the Rust oracle to the Lean statement
        let mclosure = drv.ask("closure");
        if mclosure != obs.closure {
            out.events.push(Event {
                kind: "impl-vs-model",
                class: "oracle-vs-spec".into(),
                at: k,
                expected: format!("specification closure: {mclosure}"),
                observed: format!("oracle closure: {}", obs.closure),
            });
            return out;
        }
        // ---- oracle
        out.max_live_groups = out.max_live_groups.max(obs.live_groups);
        let tracked_groups: BTreeSet<Uuid> = obs.members.keys().filter(|g| id_of(base, g).is_some()).copied().collect();
        if obs.members.iter().any(|(g, ms)| tracked_groups.contains(g) && ms.iter().any(|m| tracked_groups.contains(m))) {
            out.had_group_edge = true;
        }
        if !out.had_cycle {
            let sub: BTreeMap<Uuid, BTreeSet<Uuid>> = obs.members.iter().filter(|(g, _)| tracked_groups.contains(g)).map(|(g, m)| (*g, m.clone())).collect();
            if has_cycle(&sub) {
                out.had_cycle = true;
            }
        }
        let cur: BTreeSet<Disc> = obs.discs.iter().cloned().collect();
        let fresh: Vec<&Disc> = cur.difference(&prev_discs).collect();
        if !fresh.is_empty() {
            // one event per class among the discrepancies that appeared with this operation
            let mut by_class: BTreeMap<&'static str, Vec<&Disc>> = BTreeMap::new();
            let mut newly = vec![];
            for d in fresh {
                let cx = ClassCtx { obs: &obs, prev: None, revived: &revived, known: &known, is_repl: false };
                let c = classify_disc(d, &cx);
                by_class.entry(c).or_default().push(d);
                if d.attr == "mo" && d.kind == "extra" {
                    newly.push(((d.entry, d.value), c));
                }
            }
            known.extend(newly);
            for (class, ds) in by_class {
                let d = ds[0];
                out.events.push(Event {
                    kind: "impl-vs-oracle",
                    class: class.into(),
                    at: k,
                    expected: format!(
                        "after `{}`: {} of entry {} = breadth-first closure over stored member links",
                        op.token(), d.attr, short(&d.entry, base)
                    ),
                    observed: format!(
                        "{} discrepancies, e.g. entry {} {} has {} value {}",
                        ds.len(), short(&d.entry, base), d.attr, d.kind, short(&d.value, base)
                    ),
                });
            }
        }
        stale_before = cur.iter().any(|d| d.attr == "mo" && d.kind == "extra");
        known.retain(|(e, v), _| cur.iter().any(|d| d.attr == "mo" && d.kind == "extra" && d.entry == *e && d.value == *v));
        prev_discs = cur;
        if stop_at_first && !out.events.is_empty() {
            return out;
        }
    }
    out
}

// ---------------------------------------------------------------------------------------------
// livelock confirmation in a child process
// ---------------------------------------------------------------------------------------------

/// Child mode: run all operations, announce the last one, report when it returns.
fn child_main(ops: &[Op]) {
    let rt = tokio::runtime::Builder::new_current_thread().enable_all().build().unwrap();
    let qs = rt.block_on(setup_test(TestConfiguration::default()));
    let mut ct = duration_from_epoch_now();
    let mut stale = false;
    for (k, op) in ops.iter().enumerate() {
        ct += Duration::from_secs(1);
        if k + 1 == ops.len() {
            let mut obs = Observed::default();
            observe(&qs, &rt, 0, &mut obs).expect("observe");
            stale = obs.discs.iter().any(|d| d.attr == "mo" && d.kind == "extra");
            println!("READY stale={}", stale as u8);
        }
        let r = exec_op(&qs, &rt, ct, 0, op);
        if k + 1 == ops.len() {
            println!("DONE {}", if r.is_ok() { "ok" } else { "err" });
        }
    }
    let _ = stale;
}

/// (`hung`, `stale_before`): does the last operation of `ops` hang on the real code?
fn confirm_hang(ops: &[Op], wait: StdDuration) -> Result<(bool, bool), String> {
    let exe = std::env::current_exe().map_err(|e| e.to_string())?;
    let toks: Vec<String> = ops.iter().map(|o| o.token()).collect();
    let mut child = Command::new(exe)
        .arg("--hangcheck")
        .arg(toks.join(";"))
        .env("RUST_LOG", "off")
        .stdout(Stdio::piped())
        .stderr(Stdio::null())
        .spawn()
        .map_err(|e| e.to_string())?;
    let stdout = child.stdout.take().unwrap();
    let (tx, rx) = channel::<String>();
    std::thread::spawn(move || {
        for l in BufReader::new(stdout).lines().map_while(Result::ok) {
            if tx.send(l).is_err() {
                break;
            }
        }
    });
    let mut stale = false;
    let ready = loop {
        match rx.recv_timeout(StdDuration::from_secs(120)) {
            Ok(l) if l.starts_with("READY") => {
                stale = l.contains("stale=1");
                break true;
            }
            Ok(_) => continue,
            Err(_) => break false,
        }
    };
    if !ready {
        let _ = child.kill();
        let _ = child.wait();
        return Err("child did not reach the last operation".into());
    }
    let done = loop {
        match rx.recv_timeout(wait) {
            Ok(l) if l.starts_with("DONE") => break true,
            Ok(_) => continue,
            Err(_) => break false,
        }
    };
    let _ = child.kill();
    let _ = child.wait();
    Ok((!done, stale))
}

// ---------------------------------------------------------------------------------------------
// generators
// ---------------------------------------------------------------------------------------------

#[derive(Clone, Copy, PartialEq, Eq, Debug)]
enum Mode {
    /// edges only from lower to higher group ids, no group revive: the property must hold exactly
    Acyclic,
    /// cycles allowed, no revive
    Cyclic,
    /// everything
    Full,
}

/// Generator-side view of the history (what should exist), only to make operations mostly valid.
#[derive(Default, Clone)]
struct Shadow {
    live: BTreeSet<u8>,
    recycled: BTreeSet<u8>,
    members: BTreeMap<u8, BTreeSet<u8>>,
}

impl Shadow {
    fn apply(&mut self, op: &Op) {
        match op {
            Op::Cg(i, ms) => {
                if !self.live.contains(i) && !self.recycled.contains(i) {
                    self.live.insert(*i);
                    self.members.insert(*i, ms.iter().copied().collect());
                }
            }
            Op::Cp(i) => {
                if !self.live.contains(i) && !self.recycled.contains(i) {
                    self.live.insert(*i);
                }
            }
            Op::Set(g, ms) => {
                if self.live.contains(g) && is_group_id(*g) {
                    self.members.insert(*g, ms.iter().copied().collect());
                }
            }
            Op::Add(g, m) => {
                if self.live.contains(g) && is_group_id(*g) {
                    self.members.entry(*g).or_default().insert(*m);
                }
            }
            Op::Rem(g, m) => {
                if let Some(s) = self.members.get_mut(g) {
                    s.remove(m);
                }
            }
            Op::Del(ids) => {
                for i in ids {
                    if self.live.remove(i) {
                        self.recycled.insert(*i);
                        for s in self.members.values_mut() {
                            s.remove(i);
                        }
                    }
                }
            }
            Op::Rev(i) => {
                if self.recycled.remove(i) {
                    self.live.insert(*i);
                }
            }
        }
    }
    fn live_groups(&self) -> Vec<u8> {
        self.live.iter().copied().filter(|i| is_group_id(*i)).collect()
    }
    fn reaches(&self, from: u8, to: u8) -> bool {
        let mut seen = BTreeSet::new();
        let mut st = vec![from];
        while let Some(x) = st.pop() {
            if !seen.insert(x) {
                continue;
            }
            if let Some(ms) = self.members.get(&x) {
                for m in ms {
                    if *m == to {
                        return true;
                    }
                    if self.live.contains(m) {
                        st.push(*m);
                    }
                }
            }
        }
        false
    }
}

fn gen_history(r: &mut Rng, mode: Mode) -> Vec<Op> {
    let ng = r.range(2, NGROUP as u64) as u8;
    let np = r.range(0, NPERSON as u64) as u8;
    let groups: Vec<u8> = (1..=ng).collect();
    let persons: Vec<u8> = (NGROUP + 1..=NGROUP + np).collect();
    let mut sh = Shadow::default();
    let mut ops = vec![];
    let push = |ops: &mut Vec<Op>, sh: &mut Shadow, op: Op| {
        sh.apply(&op);
        ops.push(op);
    };
    // persons first (some), then groups in a random order with members among what exists
    for p in &persons {
        if r.chance(3, 4) {
            push(&mut ops, &mut sh, Op::Cp(*p));
        }
    }
    let mut order = groups.clone();
    if mode != Mode::Acyclic {
        r.shuffle(&mut order);
    } else {
        order.reverse(); // higher ids first, so that lower ids can list them
    }
    for g in &order {
        let mut ms = vec![];
        let cands: Vec<u8> = sh.live.iter().copied().collect();
        for c in cands {
            let allowed = match mode {
                Mode::Acyclic => !is_group_id(c) || c > *g,
                _ => true,
            };
            if allowed && r.chance(1, 3) {
                ms.push(c);
            }
        }
        if mode != Mode::Acyclic && r.chance(1, 10) {
            ms.push(*g); // self member
        }
        ms.sort();
        push(&mut ops, &mut sh, Op::Cg(*g, ms));
    }
    let len = r.range(6, 28);
    for _ in 0..len {
        let lg = sh.live_groups();
        let live: Vec<u8> = sh.live.iter().copied().collect();
        let roll = r.below(100);
        let op = if roll < 34 && !lg.is_empty() && !live.is_empty() {
            // add a member; biased towards closing cycles when allowed
            let g = *r.pick(&lg);
            let mut cands: Vec<u8> = live
                .iter()
                .copied()
                .filter(|c| match mode {
                    Mode::Acyclic => !is_group_id(*c) || *c > g,
                    _ => true,
                })
                .collect();
            if mode != Mode::Acyclic && r.chance(1, 2) {
                let anc: Vec<u8> = lg.iter().copied().filter(|a| sh.reaches(*a, g)).collect();
                if !anc.is_empty() {
                    cands = anc;
                }
            }
            if cands.is_empty() {
                continue;
            }
            Op::Add(g, *r.pick(&cands))
        } else if roll < 56 && !lg.is_empty() {
            // remove a member that is present (mostly)
            let g = *r.pick(&lg);
            let ms: Vec<u8> = sh.members.get(&g).map(|s| s.iter().copied().collect()).unwrap_or_default();
            if ms.is_empty() || r.chance(1, 12) {
                Op::Rem(g, *r.pick(&groups))
            } else {
                Op::Rem(g, *r.pick(&ms))
            }
        } else if roll < 68 && !lg.is_empty() {
            // replace the whole member list (removes and adds in one modify)
            let g = *r.pick(&lg);
            let mut ms: Vec<u8> = live
                .iter()
                .copied()
                .filter(|c| match mode {
                    Mode::Acyclic => !is_group_id(*c) || *c > g,
                    _ => true,
                })
                .filter(|_| r.chance(1, 3))
                .collect();
            ms.sort();
            Op::Set(g, ms)
        } else if roll < 78 && !live.is_empty() {
            if r.chance(1, 5) && live.len() >= 2 {
                let a = *r.pick(&live);
                let b = *r.pick(&live);
                let mut v = vec![a, b];
                v.sort();
                v.dedup();
                Op::Del(v)
            } else {
                Op::Del(vec![*r.pick(&live)])
            }
        } else if roll < 88 {
            // revive (Acyclic/Cyclic modes: persons only — reviving a group is D16 territory)
            let rc: Vec<u8> = sh
                .recycled
                .iter()
                .copied()
                .filter(|i| mode == Mode::Full || !is_group_id(*i))
                .collect();
            if rc.is_empty() {
                continue;
            }
            Op::Rev(*r.pick(&rc))
        } else if roll < 95 {
            // create something that does not exist yet
            let missing: Vec<u8> = groups
                .iter()
                .chain(persons.iter())
                .copied()
                .filter(|i| !sh.live.contains(i) && !sh.recycled.contains(i))
                .collect();
            if missing.is_empty() {
                continue;
            }
            let i = *r.pick(&missing);
            if is_group_id(i) {
                let mut ms: Vec<u8> = live
                    .iter()
                    .copied()
                    .filter(|c| match mode {
                        Mode::Acyclic => !is_group_id(*c) || *c > i,
                        _ => true,
                    })
                    .filter(|_| r.chance(1, 4))
                    .collect();
                ms.sort();
                Op::Cg(i, ms)
            } else {
                Op::Cp(i)
            }
        } else {
            // mostly invalid requests: dead member, duplicate create, delete of a dead entry, revive of a live one
            match r.below(5) {
                0 if !lg.is_empty() => Op::Add(*r.pick(&lg), r.range(1, (NGROUP + NPERSON) as u64) as u8),
                1 if !live.is_empty() => Op::Cg(*r.pick(&groups), vec![]),
                2 => Op::Del(vec![r.range(1, (NGROUP + NPERSON) as u64) as u8]),
                3 if mode == Mode::Full => Op::Rev(r.range(1, (NGROUP + NPERSON) as u64) as u8),
                _ if !persons.is_empty() && !live.is_empty() => Op::Add(*r.pick(&persons), *r.pick(&live)),
                _ => continue,
            }
        };
        push(&mut ops, &mut sh, op);
    }
    ops
}

/// Small fixed histories; the recorded defect witnesses (D6, D16, D21, D26) live in `corpus/C17/*.json`.
fn corpus() -> Vec<(&'static str, Vec<Op>)> {
    let p = |s: &str| -> Vec<Op> { s.split(';').map(|t| Op::parse(t.trim())).collect() };
    vec![
        ("chain-then-cut", p("cp 13; cg 3 13; cg 2 3; cg 1 2; rem 2 3; add 2 3; del 2; rev 2")),
        ("cycle-build-and-break", p("cg 1 -; cg 2 1; cg 3 2; add 1 3; rem 1 3; del 3")),
        ("person-revive", p("cp 13; cg 2 13; cg 1 2; del 13; rev 13")),
        // reviving a leaf re-evaluates the built-in dynamic groups: every live leaf is recomputed,
        // which repairs the D16 staleness of person 13
        ("leaf-revive-refreshes-leaves", p("cp 13; cp 14; cg 1 13; del 1; del 14; rev 1; rev 14")),
        ("self-member", p("cg 1 1; cg 2 1; rem 1 1; del 2")),
        ("delete-two", p("cp 13; cg 3 13; cg 2 3; cg 1 2,3; del 2,3; rev 3; rev 2")),
    ]
}

// ---------------------------------------------------------------------------------------------
// replicated histories (two servers, oracle only)
// ---------------------------------------------------------------------------------------------

/// One step of a replicated history: an operation on server 0 (A) or 1 (B), or an incremental
/// replication from one to the other.
#[derive(Clone, Debug, PartialEq, Eq)]
enum RStep {
    On(usize, Op),
    Repl(usize, usize),
}

impl RStep {
    fn token(&self) -> String {
        let n = |i: usize| if i == 0 { "A" } else { "B" };
        match self {
            RStep::On(sv, op) => format!("{}:{}", n(*sv), op.token()),
            RStep::Repl(f, t) => format!("{}>{}", n(*f), n(*t)),
        }
    }
    fn parse(s: &str) -> RStep {
        let sv = |c: &str| if c == "A" { 0 } else { 1 };
        if let Some((a, b)) = s.split_once('>') {
            RStep::Repl(sv(a), sv(b))
        } else {
            let (a, b) = s.split_once(':').expect("server:op");
            RStep::On(sv(a), Op::parse(b))
        }
    }
}

fn gen_repl_history(r: &mut Rng) -> Vec<RStep> {
    let ng = r.range(2, 8) as u8;
    let np = r.range(1, 3) as u8;
    let groups: Vec<u8> = (1..=ng).collect();
    let persons: Vec<u8> = (NGROUP + 1..=NGROUP + np).collect();
    let mut sh = Shadow::default();
    let mut steps = vec![];
    for p in &persons {
        let op = Op::Cp(*p);
        sh.apply(&op);
        steps.push(RStep::On(0, op));
    }
    // Replicated histories keep every member link pointing from a lower to a higher group id, on
    // both servers, so that every merged graph is acyclic: `worklist_terminates_ranked` then
    // guarantees that no step can livelock (the model cannot predict livelocks of merged states).
    let ok_edge = |g: u8, m: u8| !is_group_id(m) || m > g;
    let mut order = groups.clone();
    order.reverse();
    for g in &order {
        let mut ms: Vec<u8> = sh.live.iter().copied().filter(|m| ok_edge(*g, *m)).filter(|_| r.chance(1, 3)).collect();
        ms.sort();
        let op = Op::Cg(*g, ms);
        sh.apply(&op);
        steps.push(RStep::On(0, op));
    }
    steps.push(RStep::Repl(0, 1));
    let len = r.range(5, 16);
    for _ in 0..len {
        if r.chance(1, 4) {
            let f = r.below(2) as usize;
            steps.push(RStep::Repl(f, 1 - f));
            continue;
        }
        let sv = r.below(2) as usize;
        let lg = sh.live_groups();
        let live: Vec<u8> = sh.live.iter().copied().collect();
        let roll = r.below(100);
        let op = if roll < 40 && !lg.is_empty() && !live.is_empty() {
            let g = *r.pick(&lg);
            let cands: Vec<u8> = live.iter().copied().filter(|m| ok_edge(g, *m)).collect();
            if cands.is_empty() {
                continue;
            }
            Op::Add(g, *r.pick(&cands))
        } else if roll < 65 && !lg.is_empty() {
            let g = *r.pick(&lg);
            let ms: Vec<u8> = sh.members.get(&g).map(|s| s.iter().copied().collect()).unwrap_or_default();
            if ms.is_empty() {
                continue;
            }
            Op::Rem(g, *r.pick(&ms))
        } else if roll < 75 && !lg.is_empty() {
            let g = *r.pick(&lg);
            let mut ms: Vec<u8> = live.iter().copied().filter(|m| ok_edge(g, *m)).filter(|_| r.chance(1, 3)).collect();
            ms.sort();
            Op::Set(g, ms)
        } else if roll < 87 && !live.is_empty() {
            Op::Del(vec![*r.pick(&live)])
        } else {
            let rc: Vec<u8> = sh.recycled.iter().copied().collect();
            if rc.is_empty() {
                continue;
            }
            Op::Rev(*r.pick(&rc))
        };
        sh.apply(&op);
        steps.push(RStep::On(sv, op));
    }
    // quiescence
    steps.push(RStep::Repl(0, 1));
    steps.push(RStep::Repl(1, 0));
    steps.push(RStep::Repl(0, 1));
    steps
}

/// Oracle-only run of a replicated history on a server pair.
fn run_repl_history(world: &mut Option<World>, base: u64, steps: &[RStep], watchdog: StdDuration, stop_at_first: bool) -> Outcome {
    let mut out = Outcome::default();
    if world.is_none() {
        *world = Some(World::with(true));
    }
    let mut prev: [BTreeSet<Disc>; 2] = [BTreeSet::new(), BTreeSet::new()];
    let mut prev_obs: [Option<Observed>; 2] = [None, None];
    let mut known: [BTreeMap<(Uuid, Uuid), &'static str>; 2] = [BTreeMap::new(), BTreeMap::new()];
    let mut revived: BTreeSet<Uuid> = BTreeSet::new();
    for (k, st) in steps.iter().enumerate() {
        let (target, obs) = match st {
            RStep::On(sv, op) => (*sv, world.as_ref().unwrap().run_on(base, *sv, op, watchdog)),
            RStep::Repl(f, t) => (*t, world.as_ref().unwrap().repl(base, *f, *t, watchdog)),
        };
        let stale_before = prev[target].iter().any(|d| d.attr == "mo" && d.kind == "extra");
        let obs = match obs {
            Some(o) => o,
            None => {
                std::mem::forget(world.take());
                out.world_lost = true;
                out.events.push(Event {
                    kind: "impl-vs-oracle",
                    class: if stale_before { D21.into() } else { "unclassified".into() },
                    at: k,
                    expected: "the step commits or fails".into(),
                    observed: format!("`{}` did not finish within {:?}", st.token(), watchdog),
                });
                return out;
            }
        };
        out.executed += 1;
        if std::env::var_os("C17_TRACE").is_some() {
            eprintln!("{:>14} -> {} | {} | discs {}", st.token(), obs.result, obs.state, obs.discs.len());
        }
        if obs.result == "ok" {
            out.ok_ops += 1;
            match st {
                RStep::On(_, Op::Rev(i)) => {
                    out.revive_ok = true;
                    if is_group_id(*i) {
                        revived.insert(uuid_of(base, *i));
                    }
                }
                RStep::On(_, op) if op.is_removal() => out.removal_ok = true,
                RStep::Repl(..) => *out.op_kinds.entry("repl").or_insert(0) += 1,
                _ => {}
            }
        } else {
            out.err_ops += 1;
            if let RStep::Repl(..) = st {
                // replication itself must not fail in these histories (no conflicts are generated)
                out.events.push(Event {
                    kind: "impl-vs-oracle",
                    class: "unclassified".into(),
                    at: k,
                    expected: "incremental replication applies".into(),
                    observed: obs.result.clone(),
                });
                return out;
            }
        }
        let tracked_groups: BTreeSet<Uuid> = obs.members.keys().filter(|g| id_of(base, g).is_some()).copied().collect();
        if obs.members.iter().any(|(g, ms)| tracked_groups.contains(g) && ms.iter().any(|m| tracked_groups.contains(m))) {
            out.had_group_edge = true;
        }
        let cur: BTreeSet<Disc> = obs.discs.iter().cloned().collect();
        let fresh: Vec<&Disc> = cur.difference(&prev[target]).collect();
        if !fresh.is_empty() {
            let mut by_class: BTreeMap<&'static str, Vec<&Disc>> = BTreeMap::new();
            let mut newly = vec![];
            for d in fresh {
                let cx = ClassCtx {
                    obs: &obs,
                    prev: prev_obs[target].as_ref(),
                    revived: &revived,
                    known: &known[target],
                    is_repl: matches!(st, RStep::Repl(..)),
                };
                let c = classify_disc(d, &cx);
                by_class.entry(c).or_default().push(d);
                if d.attr == "mo" && d.kind == "extra" {
                    newly.push(((d.entry, d.value), c));
                }
            }
            known[target].extend(newly);
            for (class, ds) in by_class {
                let d = ds[0];
                out.events.push(Event {
                    kind: "impl-vs-oracle",
                    class: class.into(),
                    at: k,
                    expected: format!(
                        "after `{}` on server {}: {} of entry {} = breadth-first closure over stored member links",
                        st.token(), if target == 0 { "A" } else { "B" }, d.attr, short(&d.entry, base)
                    ),
                    observed: format!(
                        "{} discrepancies, e.g. entry {} {} has {} value {}",
                        ds.len(), short(&d.entry, base), d.attr, d.kind, short(&d.value, base)
                    ),
                });
            }
        }
        known[target].retain(|(e, v), _| cur.iter().any(|d| d.attr == "mo" && d.kind == "extra" && d.entry == *e && d.value == *v));
        prev[target] = cur;
        prev_obs[target] = Some(obs);
        if stop_at_first && !out.events.is_empty() {
            return out;
        }
    }
    out
}

struct ReplCtx {
    world: Option<World>,
    next_base: u64,
    worlds_lost: u32,
    minimised: BTreeMap<String, u32>,
}

impl ReplCtx {
    fn fresh_base(&mut self) -> u64 {
        if self.world.as_ref().map(|w| w.cases_run >= 40).unwrap_or(false) {
            self.world = None;
        }
        if self.world.is_none() {
            self.world = Some(World::with(true));
            self.next_base = 0;
        }
        self.world.as_mut().unwrap().cases_run += 1;
        self.next_base += 1;
        self.next_base
    }
    /// delete everything of the slot on both sides and let both sides know
    fn cleanup(&mut self, base: u64, watchdog: StdDuration) {
        let all: Vec<u8> = (1..=NGROUP + NPERSON).collect();
        let steps = [RStep::On(0, Op::Del(all.clone())), RStep::On(1, Op::Del(all)), RStep::Repl(0, 1), RStep::Repl(1, 0)];
        for st in steps.iter() {
            let Some(w) = self.world.as_ref() else { return };
            let r = match st {
                RStep::On(sv, op) => w.run_on(base, *sv, op, watchdog),
                RStep::Repl(f, t) => w.repl(base, *f, *t, watchdog),
            };
            if r.is_none() {
                std::mem::forget(self.world.take());
                self.worlds_lost += 1;
                return;
            }
        }
    }
}

fn rsteps_json(steps: &[RStep]) -> J {
    json!(steps.iter().map(|o| o.token()).collect::<Vec<_>>())
}

fn run_repl_case(ctx: &mut ReplCtx, rep: &mut Report, steps: &[RStep], watchdog: StdDuration) {
    let base = ctx.fresh_base();
    let out = run_repl_history(&mut ctx.world, base, steps, watchdog, false);
    if out.world_lost {
        ctx.worlds_lost += 1;
    } else {
        ctx.cleanup(base, watchdog);
    }
    rep.count("replicated:cases");
    rep.count_n("repl-steps-executed", out.executed as u64);
    rep.count_n("repl-incrementals", out.op_kinds.get("repl").copied().unwrap_or(0));
    let nontrivial = out.ok_ops >= 6 && out.had_group_edge && (out.removal_ok || out.revive_ok);
    rep.case(if nontrivial { Some(format!("repl;{}", steps.iter().map(|o| o.token()).collect::<Vec<_>>().join(";"))) } else { None });
    if rep.histogram.get("replicated:cases").copied().unwrap_or(0) == 1 {
        rep.sample(json!({"stream": "replicated", "ops": rsteps_json(steps), "executed": out.executed, "events": out.events.len()}));
    }
    for ev in &out.events {
        rep.count(&format!("event:repl:{}:{}", ev.kind, ev.class));
        let seen = ctx.minimised.entry(format!("{}|{}", ev.kind, ev.class)).or_insert(0);
        *seen += 1;
        if *seen > 2 {
            continue;
        }
        let upto = &steps[..=ev.at];
        let (kind, class) = (ev.kind, ev.class.clone());
        let mut budget = 30u32;
        let mut lost = false;
        let min_steps = if ev.observed.contains("did not finish") {
            upto.to_vec() // never re-run a history that hangs
        } else {
            shrink_list(upto.to_vec(), |cand| {
                if budget == 0 || lost || cand.is_empty() {
                    return false;
                }
                budget -= 1;
                let b = ctx.fresh_base();
                let o = run_repl_history(&mut ctx.world, b, cand, watchdog, true);
                if o.world_lost {
                    lost = true;
                    ctx.worlds_lost += 1;
                    return false;
                }
                ctx.cleanup(b, watchdog);
                o.events.iter().any(|e| e.kind == kind && e.class == class)
            })
        };
        rep.fail(Failure {
            kind: ev.kind.into(),
            class: ev.class.clone(),
            input: json!({"mode": "repl", "ops": rsteps_json(&min_steps), "from": rsteps_json(upto)}),
            expected: ev.expected.clone(),
            observed: ev.observed.clone(),
        });
    }
}

// ---------------------------------------------------------------------------------------------
// main
// ---------------------------------------------------------------------------------------------

struct Ctx {
    world: Option<World>,
    next_base: u64,
    worlds_lost: u32,
    confirmed_hangs: u32,
    minimised: BTreeMap<String, u32>,
}

impl Ctx {
    fn fresh_base(&mut self) -> u64 {
        // a server is shared by at most 40 histories (disjoint uuid slots), then replaced
        if self.world.as_ref().map(|w| w.cases_run >= 60).unwrap_or(false) {
            self.world = None;
            self.next_base = 0;
        }
        if self.world.is_none() {
            self.world = Some(World::new());
            self.next_base = 0;
        }
        self.world.as_mut().unwrap().cases_run += 1;
        self.next_base += 1;
        self.next_base
    }
}

fn ops_json(ops: &[Op]) -> J {
    json!(ops.iter().map(|o| o.token()).collect::<Vec<_>>())
}

/// Clean up after a history so that the next one on the same server starts from nothing live.
fn cleanup(ctx: &mut Ctx, base: u64, watchdog: StdDuration) {
    if let Some(w) = ctx.world.as_ref() {
        // break every member link first (no closure left to maintain), then delete
        let all: Vec<u8> = (1..=NGROUP + NPERSON).collect();
        if w.run(base, &Op::Del(all), watchdog).is_none() {
            std::mem::forget(ctx.world.take());
            ctx.worlds_lost += 1;
        }
    }
}

fn run_case(ctx: &mut Ctx, drv: &mut Driver, rep: &mut Report, args: &Args, stream: &str, ops: &[Op], mode: Mode, watchdog: StdDuration) {
    let base = ctx.fresh_base();
    let out = run_history(&mut ctx.world, drv, base, ops, watchdog, false);
    if out.world_lost {
        ctx.worlds_lost += 1;
    } else {
        cleanup(ctx, base, watchdog);
    }
    rep.count(&format!("{stream}:cases"));
    rep.count_n("ops-executed", out.executed as u64);
    rep.count_n("ops-ok", out.ok_ops as u64);
    rep.count_n("ops-err", out.err_ops as u64);
    for (k, n) in &out.op_kinds {
        rep.count_n(&format!("op:{k}"), *n);
    }
    if out.had_cycle {
        rep.count("histories-with-cycle");
    }
    if out.revive_ok {
        rep.count("histories-with-revive");
    }
    rep.count(&format!("max-live-groups:{:02}", out.max_live_groups.min(99)));
    let nontrivial = out.ok_ops >= 4 && out.had_group_edge && (out.removal_ok || out.revive_ok);
    rep.case(if nontrivial { Some(ops.iter().map(|o| o.token()).collect::<Vec<_>>().join(";")) } else { None });
    if rep.evaluations % 97 == 1 {
        rep.sample(json!({"stream": stream, "ops": ops_json(ops), "executed": out.executed, "events": out.events.len()}));
    }
    // ---- predicted livelocks: confirm the first few on the real code, in a child process
    for k in &out.skipped_livelock {
        rep.count("model-predicts-livelock(skipped in-process)");
        let limit = if args.thorough() { 4 } else { 2 };
        if ctx.confirmed_hangs < limit {
            ctx.confirmed_hangs += 1;
            // the prefix without other skipped operations, then the diverging one
            let mut w: Vec<Op> = ops[..*k].iter().enumerate().filter(|(i, _)| !out.skipped_livelock.contains(i)).map(|(_, o)| o.clone()).collect();
            w.push(ops[*k].clone());
            let w = minimise_livelock(drv, w);
            match confirm_hang(&w, StdDuration::from_secs(if args.thorough() { 10 } else { 5 })) {
                Ok((true, stale)) => {
                    rep.count("livelock-confirmed-on-implementation");
                    rep.fail(Failure {
                        kind: "impl-vs-oracle".into(),
                        class: if stale { D21.into() } else { "unclassified".into() },
                        input: json!({"ops": ops_json(&w), "mode": "hangcheck"}),
                        expected: "every operation commits or fails".into(),
                        observed: format!("`{}` never returns (apply_memberof worklist livelock); stale value before the operation: {stale}", w.last().unwrap().token()),
                    });
                }
                Ok((false, _)) => rep.fail(Failure {
                    kind: "impl-vs-model".into(),
                    class: "unclassified".into(),
                    input: json!({"ops": ops_json(&w), "mode": "hangcheck"}),
                    expected: "model: apply_memberof does not terminate".into(),
                    observed: "implementation finished the operation".into(),
                }),
                Err(e) => rep.note(format!("hangcheck could not run: {e}")),
            }
        }
    }
    // ---- events
    let _ = mode;
    for ev in &out.events {
        rep.count(&format!("event:{}:{}", ev.kind, ev.class));
        let seen = ctx.minimised.entry(format!("{}|{}", ev.kind, ev.class)).or_insert(0);
        *seen += 1;
        if *seen > 2 {
            continue; // enough witnesses of this class in the report
        }
        // minimise: shortest history still producing an event of the same kind and class
        let upto = &ops[..=ev.at];
        let (kind, class) = (ev.kind, ev.class.clone());
        let mut budget = 40u32;
        let mut lost = false;
        let min_ops = shrink_list(upto.to_vec(), |cand| {
            if budget == 0 || lost || cand.is_empty() {
                return false;
            }
            budget -= 1;
            let b = ctx.fresh_base();
            let o = run_history(&mut ctx.world, drv, b, cand, watchdog, true);
            if o.world_lost {
                lost = true;
                ctx.worlds_lost += 1;
                return false;
            }
            cleanup(ctx, b, watchdog);
            o.events.iter().any(|e| e.kind == kind && e.class == class)
        });
        // re-run the minimised witness for its own message
        let b = ctx.fresh_base();
        let o = run_history(&mut ctx.world, drv, b, &min_ops, watchdog, true);
        if !o.world_lost {
            cleanup(ctx, b, watchdog);
        }
        let e2 = o.events.iter().find(|e| e.kind == kind && e.class == class).cloned().unwrap_or_else(|| ev.clone());
        rep.fail(Failure {
            kind: e2.kind.into(),
            class: e2.class.clone(),
            input: json!({"ops": ops_json(&min_ops), "from": ops_json(upto)}),
            expected: e2.expected.clone(),
            observed: e2.observed.clone(),
        });
    }
}

/// Shrink a history whose last operation diverges in the model, using the model only.
fn minimise_livelock(drv: &mut Driver, ops: Vec<Op>) -> Vec<Op> {
    let last = ops.last().unwrap().clone();
    let prefix = ops[..ops.len() - 1].to_vec();
    let small = shrink_list(prefix, |cand| {
        assert_eq!(drv.ask("reset"), "ok");
        for o in cand {
            if drv.ask(&format!("op {}", o.token())).starts_with("diverge") {
                return false;
            }
        }
        drv.ask(&format!("op {}", last.token())).starts_with("diverge!")
    });
    let mut v = small;
    v.push(last);
    v
}

enum Job {
    Corpus,
    Exhaustive { part: u32, parts: u32 },
    Random { from: u64, to: u64 },
    Repl { from: u64, to: u64 },
}

/// One stream (or slice of a stream) with its own servers and model process.
fn run_job(args: &Args, job: &Job) -> (Report, u32) {
    let mut rep = Report::new("job", "");
    let watchdog = StdDuration::from_secs(60);
    match job {
        Job::Corpus => {
            // ---- stream 1: recorded witnesses
            let mut drv = Driver::spawn(&args.driver);
            let mut ctx = Ctx { world: None, next_base: 0, worlds_lost: 0, confirmed_hangs: 0, minimised: BTreeMap::new() };
            for (_name, ops) in corpus() {
                run_case(&mut ctx, &mut drv, &mut rep, args, "corpus", &ops, Mode::Full, watchdog);
            }
            // committed witnesses (corpus/C17/*.json, same format as a replay file)
            let mut lost = ctx.worlds_lost;
            let mut files: Vec<_> = std::fs::read_dir("corpus/C17")
                .map(|d| d.filter_map(|e| e.ok()).map(|e| e.path()).filter(|p| p.extension().map(|x| x == "json").unwrap_or(false)).collect())
                .unwrap_or_default();
            files.sort();
            if files.is_empty() {
                rep.fail(Failure {
                    kind: "impl-vs-model".into(),
                    class: "harness-setup".into(),
                    input: json!({}),
                    expected: "corpus/C17/*.json present (the harness runs from the /verif root)".into(),
                    observed: "no corpus file found".into(),
                });
            }
            let mut rctx = ReplCtx { world: None, next_base: 0, worlds_lost: 0, minimised: BTreeMap::new() };
            for f in files {
                let v: J = match std::fs::read_to_string(&f).ok().and_then(|t| serde_json::from_str(&t).ok()) {
                    Some(v) => v,
                    None => {
                        rep.note(format!("unreadable corpus file {}", f.display()));
                        continue;
                    }
                };
                let toks: Vec<String> = v["input"]["ops"].as_array().map(|a| a.iter().filter_map(|s| s.as_str().map(|x| x.to_string())).collect()).unwrap_or_default();
                rep.count("corpus-files");
                if v["input"]["mode"] == "repl" {
                    let steps: Vec<RStep> = toks.iter().map(|t| RStep::parse(t)).collect();
                    run_repl_case(&mut rctx, &mut rep, &steps, StdDuration::from_secs(30));
                } else {
                    // single-server witnesses (a `hangcheck` witness is run like any history: the model
                    // predicts the livelock, the harness confirms it in a child process)
                    let ops: Vec<Op> = toks.iter().map(|t| Op::parse(t)).collect();
                    run_case(&mut ctx, &mut drv, &mut rep, args, "corpus", &ops, Mode::Full, watchdog);
                }
            }
            lost += rctx.worlds_lost + (ctx.worlds_lost - lost);
            rep.model_requests = drv.requests;
            (rep, lost)
        }
        Job::Exhaustive { part, parts } => {
            // ---- stream 2: every graph on 3 groups (thorough: self links too), every single-edge edit
            let mut drv = Driver::spawn(&args.driver);
            let mut ctx = Ctx { world: None, next_base: 0, worlds_lost: 0, confirmed_hangs: u32::MAX / 2, minimised: BTreeMap::new() };
            let self_links = args.thorough();
            let mut edges: Vec<(u8, u8)> = vec![];
            for a in 1..=3u8 {
                for b in 1..=3u8 {
                    if a != b || self_links {
                        edges.push((a, b));
                    }
                }
            }
            let ne = edges.len();
            let mut count = 0u64;
            for mask in (0u32..(1 << ne)).filter(|m| m % parts == *part) {
                for (j, (a, b)) in edges.iter().enumerate() {
                    // build: three empty groups, then each group's member list in one modify; then toggle edge j
                    let mut ops = vec![Op::Cg(1, vec![]), Op::Cg(2, vec![]), Op::Cg(3, vec![])];
                    for g in 1..=3u8 {
                        let ms: Vec<u8> = edges.iter().enumerate().filter(|(i, (x, _))| *x == g && mask & (1 << i) != 0).map(|(_, (_, y))| *y).collect();
                        if !ms.is_empty() {
                            ops.push(Op::Set(g, ms));
                        }
                    }
                    if mask & (1 << j) != 0 {
                        ops.push(Op::Rem(*a, *b));
                    } else {
                        ops.push(Op::Add(*a, *b));
                    }
                    run_case(&mut ctx, &mut drv, &mut rep, args, "exhaustive3", &ops, Mode::Full, watchdog);
                    count += 1;
                    if ctx.worlds_lost >= 2 {
                        break;
                    }
                }
            }
            rep.note(format!("exhaustive3 part {part}/{parts}: {count} (graph, edit) pairs, self links: {self_links}"));
            rep.exhaustive = true;
            rep.model_requests = drv.requests;
            (rep, ctx.worlds_lost)
        }
        Job::Random { from, to } => {
            // ---- stream 3: random histories
            let mut drv = Driver::spawn(&args.driver);
            let mut ctx = Ctx { world: None, next_base: 0, worlds_lost: 0, confirmed_hangs: 0, minimised: BTreeMap::new() };
            for c in *from..*to {
                if ctx.worlds_lost >= 2 {
                    rep.note("random stream slice stopped early: two servers lost to operations that never returned");
                    break;
                }
                let mut r = Rng::for_case(args.seed, c);
                let mode = match c % 4 {
                    0 => Mode::Acyclic,
                    1 => Mode::Cyclic,
                    _ => Mode::Full,
                };
                let ops = gen_history(&mut r, mode);
                let stream = match mode {
                    Mode::Acyclic => "random-acyclic",
                    Mode::Cyclic => "random-cyclic",
                    Mode::Full => "random-full",
                };
                run_case(&mut ctx, &mut drv, &mut rep, args, stream, &ops, mode, watchdog);
            }
            rep.model_requests = drv.requests;
            (rep, ctx.worlds_lost)
        }
        Job::Repl { from, to } => {
            // ---- stream 4: replicated histories on a server pair (oracle on both sides after every step)
            let mut rctx = ReplCtx { world: None, next_base: 0, worlds_lost: 0, minimised: BTreeMap::new() };
            for c in *from..*to {
                if rctx.worlds_lost >= 2 {
                    rep.note("replicated stream slice stopped early: two server pairs lost to steps that never returned");
                    break;
                }
                let mut r = Rng::for_case(args.seed, 5_000_000 + c);
                let steps = gen_repl_history(&mut r);
                run_repl_case(&mut rctx, &mut rep, &steps, StdDuration::from_secs(30));
            }
            (rep, rctx.worlds_lost)
        }
    }
}

fn main() {
    if std::env::var_os("RUST_LOG").is_none() {
        std::env::set_var("RUST_LOG", "off");
    }
    // child mode (livelock confirmation)
    let raw: Vec<String> = std::env::args().collect();
    if raw.len() >= 3 && raw[1] == "--hangcheck" {
        let ops: Vec<Op> = raw[2].split(';').map(|t| Op::parse(t.trim())).collect();
        child_main(&ops);
        return;
    }
    let args = Args::parse();
    let mut rep = Report::new(
        "memberof",
        "histories of create / member add / remove / replace / delete (1-2 entries) / revive over <= 12 groups and <= 4 persons on a real server, \
         one committed write transaction per operation, oracle and model comparison after every operation; streams: recorded witnesses, \
         exhaustive single-edge edits of all graphs on 3 groups, random histories (acyclic / cyclic / with revive); \
         non-trivial = at least 4 successful operations, a group-in-group link and a successful removal, delete or revive; distinct = distinct operation list",
    );
    let mut drv = Driver::spawn(&args.driver);
    let watchdog = StdDuration::from_secs(60);
    let mut ctx = Ctx { world: None, next_base: 0, worlds_lost: 0, confirmed_hangs: 0, minimised: BTreeMap::new() };

    if let Some(path) = &args.replay {
        let v: J = serde_json::from_str(&std::fs::read_to_string(path).unwrap()).unwrap();
        if v["input"]["mode"] == "repl" {
            let steps: Vec<RStep> = v["input"]["ops"].as_array().unwrap().iter().map(|s| RStep::parse(s.as_str().unwrap())).collect();
            let mut rctx = ReplCtx { world: None, next_base: 0, worlds_lost: 0, minimised: BTreeMap::new() };
            run_repl_case(&mut rctx, &mut rep, &steps, StdDuration::from_secs(30));
            rep.model_requests = drv.requests;
            rep.write(&args.out);
            println!("c17 replay: {} failures", rep.failures.len());
            std::process::exit(0);
        }
        let ops: Vec<Op> = v["input"]["ops"].as_array().unwrap().iter().map(|s| Op::parse(s.as_str().unwrap())).collect();
        if v["input"]["mode"] == "hangcheck" {
            match confirm_hang(&ops, StdDuration::from_secs(10)) {
                Ok((true, stale)) => rep.fail(Failure {
                    kind: "impl-vs-oracle".into(),
                    class: if stale { D21.into() } else { "unclassified".into() },
                    input: v["input"].clone(),
                    expected: "every operation commits or fails".into(),
                    observed: "the last operation never returns".into(),
                }),
                Ok((false, _)) => {}
                Err(e) => rep.note(e),
            }
            rep.case(None);
        } else {
            run_case(&mut ctx, &mut drv, &mut rep, &args, "replay", &ops, Mode::Full, watchdog);
        }
        rep.model_requests = drv.requests;
        rep.write(&args.out);
        println!("c17 replay: {} failures", rep.failures.len());
        return;
    }

    drop(drv);
    drop(ctx);
    let only = args.extra.get("only").cloned();
    let want = |name: &str| only.as_deref().map(|o| o == name).unwrap_or(true);
    // The streams are independent (own servers, own model process, cases derived from
    // (seed, index) only), so they run as parallel jobs and their reports are merged in job order.
    let mut jobs: Vec<Job> = vec![];
    if want("corpus") {
        jobs.push(Job::Corpus);
    }
    if want("exhaustive") {
        let parts = if args.thorough() { 6 } else { 3 };
        for part in 0..parts {
            jobs.push(Job::Exhaustive { part, parts });
        }
    }
    if want("random") {
        let n = args.cases(240, 6000);
        let parts = if args.thorough() { 6 } else { 4 };
        for k in 0..parts {
            jobs.push(Job::Random { from: n * k / parts, to: n * (k + 1) / parts });
        }
    }
    if want("repl") {
        let n = args.cases(60, 1200);
        let parts = if args.thorough() { 3 } else { 2 };
        for k in 0..parts {
            jobs.push(Job::Repl { from: n * k / parts, to: n * (k + 1) / parts });
        }
    }
    let results: Vec<(Report, u32)> = std::thread::scope(|sc| {
        let handles: Vec<_> = jobs.iter().map(|job| { let a = &args; sc.spawn(move || run_job(a, job)) }).collect();
        handles.into_iter().map(|h| h.join().expect("job panicked")).collect()
    });
    let mut lost = 0;
    let mut all_failures: Vec<Failure> = vec![];
    for (r, l) in results {
        lost += l;
        rep.evaluations += r.evaluations;
        rep.nontrivial_keys.extend(r.nontrivial_keys);
        for (k, v) in r.histogram {
            *rep.histogram.entry(k).or_insert(0) += v;
        }
        for s in r.samples {
            rep.sample(s);
        }
        all_failures.extend(r.failures);
        rep.notes.extend(r.notes);
        rep.exhaustive |= r.exhaustive;
        rep.model_requests += r.model_requests;
    }
    // the report keeps at most 50 failures: anything outside the recognised classes goes first and is
    // never displaced by witnesses of the known ones (at most 4 of each of those)
    let recognised = [D6, D16, D21, D26];
    let (known, unknown): (Vec<Failure>, Vec<Failure>) = all_failures.into_iter().partition(|f| recognised.contains(&f.class.as_str()));
    for f in unknown {
        rep.fail(f);
    }
    let mut per_class: BTreeMap<String, u32> = BTreeMap::new();
    for f in known {
        let n = per_class.entry(format!("{}|{}", f.kind, f.class)).or_insert(0);
        *n += 1;
        if *n <= 4 {
            rep.fail(f);
        } else {
            rep.count("known-class-witnesses-not-listed");
        }
    }
    rep.write(&args.out);
    println!("c17: {} cases, {} failures, {} worlds lost", rep.evaluations, rep.failures.len(), lost);
    // worker threads that never returned must not keep the process alive
    std::process::exit(0);
}
