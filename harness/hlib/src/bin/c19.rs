//! C19 — unique values stay unique.
//!
//! Real in-memory servers (`testkit::setup_test`; 1 server for the `one:` stream, 2 or 3 replicas
//! for the `repl:` stream, the others refreshed from the first, incremental replication through
//! `supplier_provide_changes` / `consumer_apply_changes`) and the Lean model (`km_c19`).
//! Uuids from a pool of 8, names from a pool of 3 (+ one built-in name), gidnumbers from a pool
//! of 2.  One committed write transaction per operation, dropped on error.
//!
//! After **every** step, on the server it touched:
//! * oracle (implementation only, from the property text): all live entries of the whole
//!   database are grouped by uuid and by (attribute, value) for every attribute the *running
//!   schema* reports as unique — no group may have two members;
//! * correspondence, operations: result class and the state (uuid, live / recycled / conflict,
//!   values of name, spn, gidnumber) of every entry holding such a value — built-ins included —
//!   equal the model's prediction (`init` from the observed state, then `op`);
//! * correspondence, replication steps: the entries that are conflicts afterwards are exactly those
//!   `conflictStep` marks on the merged database (observed values; an entry is live before the
//!   plugin iff neither side held it as recycled/conflict), and where both sides had created the
//!   same uuid independently the surviving creation and the place of the conflict copy are those
//!   of `resolveAdd`.
//! After the last step of a replicated history the replicas are brought to quiescence (rounds of
//! all-pairs replication until nothing changes) and compared: every uuid must have the same state
//! on every replica, live entries the same unique values ("identically on every replica").
//!
//! Failure classes: `duplicate-uuid`, `duplicate-unique-value` (oracle, any stream);
//! `replicas-differ-state`, `replicas-differ-values`, `no-quiescence` (oracle, replicated);
//! `result`, `state`, `model-uniq`, `conflict-set`, `add-conflict` (correspondence).
use hlib::*;
use kanidmd_lib::entry::{Entry, EntryInit, EntryNew};
use kanidmd_lib::event::ReviveRecycledEvent;
use kanidmd_lib::prelude::*;
use kanidmd_lib::repl::proto::ConsumerState;
use kanidmd_lib::schema::SchemaTransaction;
use kanidmd_lib::testkit::{setup_test, TestConfiguration};
use serde_json::{json, Value as J};
use std::collections::{BTreeMap, BTreeSet};

const NIDS: u8 = 8;
const NAMES: [&str; 4] = ["c19alpha", "c19beta", "c19gamma", "idm_admins"];
const GIDS: [u32; 2] = [2000, 2001];
const DOMAIN: &str = "example.com";

// ---------------------------------------------------------------------------------------------
// operations
// ---------------------------------------------------------------------------------------------

#[derive(Clone, Debug, PartialEq, Eq)]
struct Cand {
    id: u8,
    kind: char, // g group | x posix group (with gid) | p person
    name: String,
    gid: Option<u32>,
}

#[derive(Clone, Debug, PartialEq, Eq)]
enum Op {
    Create(Vec<Cand>),
    Rename(Vec<u8>, String),
    SetGid(Vec<u8>, u32),
    Delete(Vec<u8>),
    Revive(Vec<u8>),
}

#[derive(Clone, Debug, PartialEq, Eq)]
enum Step {
    On(usize, Op),
    Repl(usize, usize),
}

fn ids_tok(v: &[u8]) -> String {
    if v.is_empty() { "-".into() } else { v.iter().map(|x| x.to_string()).collect::<Vec<_>>().join(",") }
}

fn parse_ids(s: &str) -> Vec<u8> {
    if s == "-" { vec![] } else { s.split(',').map(|x| x.parse().expect("id")).collect() }
}

impl Op {
    fn token(&self) -> String {
        match self {
            Op::Create(cs) => format!(
                "create {}",
                cs.iter().map(|c| format!("{}/{}/{}/{}", c.id, c.kind, c.name, c.gid.map(|g| g.to_string()).unwrap_or("-".into()))).collect::<Vec<_>>().join(" ")
            ),
            Op::Rename(ids, n) => format!("rename {} {n}", ids_tok(ids)),
            Op::SetGid(ids, g) => format!("setgid {} {g}", ids_tok(ids)),
            Op::Delete(ids) => format!("delete {}", ids_tok(ids)),
            Op::Revive(ids) => format!("revive {}", ids_tok(ids)),
        }
    }
    fn parse(s: &str) -> Op {
        let p: Vec<&str> = s.split_whitespace().collect();
        match p[0] {
            "create" => Op::Create(
                p[1..]
                    .iter()
                    .map(|c| {
                        let q: Vec<&str> = c.split('/').collect();
                        Cand { id: q[0].parse().unwrap(), kind: q[1].chars().next().unwrap(), name: q[2].into(), gid: if q[3] == "-" { None } else { Some(q[3].parse().unwrap()) } }
                    })
                    .collect(),
            ),
            "rename" => Op::Rename(parse_ids(p[1]), p[2].into()),
            "setgid" => Op::SetGid(parse_ids(p[1]), p[2].parse().unwrap()),
            "delete" => Op::Delete(parse_ids(p[1])),
            "revive" => Op::Revive(parse_ids(p[1])),
            x => panic!("bad op {x}"),
        }
    }
}

impl Step {
    fn token(&self) -> String {
        match self {
            Step::On(s, op) => format!("on {s} {}", op.token()),
            Step::Repl(a, b) => format!("repl {a} {b}"),
        }
    }
    fn parse(s: &str) -> Step {
        let p: Vec<&str> = s.splitn(3, ' ').collect();
        match p[0] {
            "on" => Step::On(p[1].parse().unwrap(), Op::parse(p[2])),
            "repl" => Step::Repl(p[1].parse().unwrap(), p[2].parse().unwrap()),
            x => panic!("bad step {x}"),
        }
    }
}

// ---------------------------------------------------------------------------------------------
// the implementation side
// ---------------------------------------------------------------------------------------------

fn uuid_of(id: u8) -> Uuid {
    nat_uuid(0x1900_0000_0000 + id as u64)
}

struct Cluster {
    rt: tokio::runtime::Runtime,
    qs: Vec<QueryServer>,
    ct: Duration,
}

impl Cluster {
    /// `n` servers; 1.. are refreshed from 0 (a new node joining the topology).
    fn new(n: usize) -> Result<Cluster, String> {
        let rt = tokio::runtime::Builder::new_current_thread().enable_all().build().unwrap();
        let mut qs = vec![];
        for _ in 0..n {
            qs.push(rt.block_on(setup_test(TestConfiguration::default())));
        }
        let mut c = Cluster { rt, qs, ct: duration_from_epoch_now() };
        for i in 1..n {
            c.ct += Duration::from_secs(1);
            let mut a_r = c.rt.block_on(c.qs[0].read()).map_err(|e| format!("read:{e:?}"))?;
            let mut b_w = c.rt.block_on(c.qs[i].write(c.ct)).map_err(|e| format!("write:{e:?}"))?;
            let ctx = a_r.supplier_provide_refresh().map_err(|e| format!("provide_refresh:{e:?}"))?;
            b_w.consumer_apply_refresh(ctx).map_err(|e| format!("apply_refresh:{e:?}"))?;
            b_w.commit().map_err(|e| format!("commit refresh:{e:?}"))?;
        }
        Ok(c)
    }
}

fn uuid_filter(ids: &[u8]) -> FC {
    f_or(ids.iter().map(|i| f_eq(Attribute::Uuid, PartialValue::Uuid(uuid_of(*i)))).collect())
}

fn err_kind(e: &OperationError) -> String {
    match e {
        OperationError::EmptyRequest => "err:empty".into(),
        OperationError::Plugin(PluginError::Base(_)) => "err:exists".into(),
        OperationError::AttributeUniqueness(_) => "err:unique".into(),
        OperationError::NoMatchingEntries => "err:nomatch".into(),
        other => format!("err:other:{other:?}"),
    }
}

/// `marker` goes into `description`: it identifies the creation (never modified afterwards).
fn exec_op(c: &mut Cluster, server: usize, op: &Op, marker: u64) -> String {
    c.ct += Duration::from_secs(1);
    let mut txn = match c.rt.block_on(c.qs[server].write(c.ct)) {
        Ok(t) => t,
        Err(e) => return format!("err:write:{e:?}"),
    };
    let r: Result<(), OperationError> = match op {
        Op::Create(cs) => {
            let es: Vec<Entry<EntryInit, EntryNew>> = cs
                .iter()
                .map(|c| {
                    let mut e: Entry<EntryInit, EntryNew> = Entry::new();
                    e.add_ava(Attribute::Class, EntryClass::Object.to_value());
                    match c.kind {
                        'g' => e.add_ava(Attribute::Class, EntryClass::Group.to_value()),
                        'x' => {
                            e.add_ava(Attribute::Class, EntryClass::Group.to_value());
                            e.add_ava(Attribute::Class, EntryClass::PosixGroup.to_value());
                        }
                        'p' => {
                            e.add_ava(Attribute::Class, EntryClass::Account.to_value());
                            e.add_ava(Attribute::Class, EntryClass::Person.to_value());
                            e.add_ava(Attribute::DisplayName, Value::new_utf8s("C19 Person"));
                        }
                        k => panic!("bad kind {k}"),
                    }
                    e.add_ava(Attribute::Uuid, Value::Uuid(uuid_of(c.id)));
                    e.add_ava(Attribute::Name, Value::new_iname(&c.name));
                    e.add_ava(Attribute::Description, Value::new_utf8s(&format!("v{marker}")));
                    if let Some(g) = c.gid {
                        e.add_ava(Attribute::GidNumber, Value::new_uint32(g));
                    }
                    e
                })
                .collect();
            txn.internal_create(es)
        }
        Op::Rename(ids, n) => txn.internal_modify(
            &Filter::new_ignore_hidden(uuid_filter(ids)),
            &ModifyList::new_purge_and_set(Attribute::Name, Value::new_iname(n)),
        ),
        Op::SetGid(ids, g) => txn.internal_modify(
            &Filter::new_ignore_hidden(uuid_filter(ids)),
            &ModifyList::new_purge_and_set(Attribute::GidNumber, Value::new_uint32(*g)),
        ),
        Op::Delete(ids) => txn.internal_delete(&Filter::new_ignore_hidden(uuid_filter(ids))),
        Op::Revive(ids) => match txn.internal_search_uuid(UUID_ADMIN) {
            Err(e) => Err(e),
            Ok(admin) => {
                let ident = Identity::from_impersonate_entry_readwrite(admin);
                let f = Filter::new(f_and(vec![f_eq(Attribute::Class, EntryClass::Recycled.into()), uuid_filter(ids)]));
                match ReviveRecycledEvent::from_parts(ident, &f, &txn) {
                    Ok(re) => txn.revive_recycled(&re),
                    Err(e) => Err(e),
                }
            }
        },
    };
    match r {
        Ok(()) => match txn.commit() {
            Ok(()) => "ok".into(),
            Err(e) => format!("err:commit:{e:?}"),
        },
        Err(e) => err_kind(&e),
    }
}

fn exec_repl(c: &mut Cluster, from: usize, to: usize) -> Result<(), String> {
    c.ct += Duration::from_secs(1);
    let mut from_r = c.rt.block_on(c.qs[from].read()).map_err(|e| format!("read:{e:?}"))?;
    let mut to_w = c.rt.block_on(c.qs[to].write(c.ct)).map_err(|e| format!("write:{e:?}"))?;
    let state = to_w.consumer_get_state().map_err(|e| format!("consumer_get_state:{e:?}"))?;
    let changes = from_r.supplier_provide_changes(state).map_err(|e| format!("supplier_provide_changes:{e:?}"))?;
    match to_w.consumer_apply_changes(changes).map_err(|e| format!("consumer_apply_changes:{e:?}"))? {
        ConsumerState::Ok => to_w.commit().map_err(|e| format!("commit:{e:?}")),
        ConsumerState::RefreshRequired => Err("refresh-required".into()),
    }
}

#[derive(Clone, Debug, PartialEq, Eq)]
struct ObsEntry {
    uuid: Uuid,
    st: char, // L R C T
    name: Vec<String>,
    spn: Vec<String>,
    gid: Vec<String>,
    marker: Option<String>,
    source_uuid: Vec<String>,
}

#[derive(Clone, Debug, Default)]
struct Obs {
    /// entries holding a value of name / spn / gidnumber, any state
    tracked: Vec<ObsEntry>,
    /// oracle findings on the live entries of the whole database
    dup: Vec<(&'static str, String)>,
    live_entries: u64,
    unique_attrs: u64,
}

fn strings(e: &kanidmd_lib::entry::EntrySealedCommitted, a: Attribute) -> Vec<String> {
    let mut v: Vec<String> = e.get_ava_set(a).map(|vs| vs.to_proto_string_clone_iter().collect()).unwrap_or_default();
    v.sort();
    v
}

fn observe(c: &mut Cluster, server: usize) -> Result<Obs, String> {
    let mut r = c.rt.block_on(c.qs[server].read()).map_err(|e| format!("read:{e:?}"))?;
    let mut obs = Obs::default();
    // ---- oracle: every live entry, every attribute the running schema marks unique
    let unique: Vec<Attribute> = r.get_schema().get_attributes_unique().clone();
    obs.unique_attrs = unique.len() as u64;
    let live = r.internal_search(Filter::new_ignore_hidden(f_pres(Attribute::Class))).map_err(|e| format!("search-live:{e:?}"))?;
    obs.live_entries = live.len() as u64;
    let mut by_uuid: BTreeMap<Uuid, u32> = BTreeMap::new();
    let mut by_val: BTreeMap<(Attribute, PartialValue), Vec<Uuid>> = BTreeMap::new();
    for e in live.iter() {
        *by_uuid.entry(e.get_uuid()).or_insert(0) += 1;
        for a in unique.iter() {
            if let Some(vs) = e.get_ava_set(a) {
                for pv in vs.to_partialvalue_iter() {
                    by_val.entry((a.clone(), pv)).or_default().push(e.get_uuid());
                }
            }
        }
    }
    for (u, n) in by_uuid {
        if n > 1 {
            obs.dup.push(("duplicate-uuid", format!("{n} live entries with uuid {u}")));
        }
    }
    for ((a, pv), us) in by_val {
        if us.len() > 1 {
            obs.dup.push(("duplicate-unique-value", format!("{a} = {pv:?} on live entries {us:?}")));
        }
    }
    // ---- tracked state
    let f = Filter::new(f_or(vec![
        f_pres(Attribute::Name),
        f_pres(Attribute::Spn),
        f_pres(Attribute::GidNumber),
        f_eq(Attribute::Class, EntryClass::Conflict.into()),
    ]));
    let es = r.internal_search(f).map_err(|e| format!("search:{e:?}"))?;
    for e in es.iter() {
        let has = |c: EntryClass| e.attribute_equality(Attribute::Class, &c.into());
        let st = if has(EntryClass::Tombstone) { 'T' } else if has(EntryClass::Conflict) { 'C' } else if has(EntryClass::Recycled) { 'R' } else { 'L' };
        obs.tracked.push(ObsEntry {
            uuid: e.get_uuid(),
            st,
            name: strings(e, Attribute::Name),
            spn: strings(e, Attribute::Spn),
            gid: strings(e, Attribute::GidNumber),
            marker: strings(e, Attribute::Description).into_iter().find(|d| d.starts_with('v') && d[1..].chars().all(|c| c.is_ascii_digit())),
            source_uuid: strings(e, Attribute::SourceUuid),
        });
    }
    obs.tracked.sort_by_key(|e| e.uuid);
    Ok(obs)
}

/// uuid → model id (pool uuids keep their small ids, everything else is numbered as it is first
/// seen, in uuid order) and value string → model value.
#[derive(Default)]
struct Interner {
    ids: BTreeMap<Uuid, u64>,
    next_id: u64,
    vals: BTreeMap<String, u64>,
}

impl Interner {
    fn new() -> Interner {
        let mut ids = BTreeMap::new();
        for i in 1..=NIDS {
            ids.insert(uuid_of(i), i as u64);
        }
        Interner { ids, next_id: 1000, vals: BTreeMap::new() }
    }
    fn see(&mut self, obs: &Obs) {
        for e in &obs.tracked {
            if !self.ids.contains_key(&e.uuid) {
                self.ids.insert(e.uuid, self.next_id);
                self.next_id += 1;
            }
        }
    }
    fn id(&self, u: &Uuid) -> u64 {
        *self.ids.get(u).unwrap_or(&99999)
    }
    fn val(&mut self, s: &str) -> u64 {
        let n = self.vals.len() as u64 + 1;
        *self.vals.entry(s.to_string()).or_insert(n)
    }
    fn keys(&mut self, e: &ObsEntry) -> String {
        let mut ks: Vec<(u64, u64)> = vec![];
        for n in &e.name {
            ks.push((0, self.val(n)));
        }
        for s in &e.spn {
            ks.push((1, self.val(s)));
        }
        for g in &e.gid {
            ks.push((2, g.parse::<u64>().unwrap_or(0)));
        }
        ks.sort();
        if ks.is_empty() { "-".into() } else { ks.iter().map(|(a, v)| format!("{a}:{v}")).collect::<Vec<_>>().join(",") }
    }
    /// entries in the model's `<state>` syntax, with the given states
    fn state(&mut self, obs: &Obs, st_of: &dyn Fn(&ObsEntry) -> char) -> String {
        self.see(obs);
        let mut v: Vec<(u64, String)> = vec![];
        for e in &obs.tracked {
            let k = self.keys(e);
            v.push((self.id(&e.uuid), format!("{}/{}/{}", self.id(&e.uuid), st_of(e), k)));
        }
        v.sort();
        if v.is_empty() { "-".into() } else { v.into_iter().map(|(_, t)| t).collect::<Vec<_>>().join(" ") }
    }
    /// the model's request for an operation: the candidates' unique values as they are after the
    /// earlier plugins (spn = name@domain, supplied gidnumber)
    fn op_token(&mut self, op: &Op) -> String {
        match op {
            Op::Create(cs) => {
                let mut toks = vec![];
                for c in cs {
                    let mut ks = vec![(0u64, self.val(&c.name)), (1, self.val(&format!("{}@{DOMAIN}", c.name)))];
                    if let Some(g) = c.gid {
                        ks.push((2, g as u64));
                    }
                    toks.push(format!("{}/L/{}", c.id, ks.iter().map(|(a, v)| format!("{a}:{v}")).collect::<Vec<_>>().join(",")));
                }
                format!("create {}", toks.join(" "))
            }
            Op::Rename(ids, n) => {
                let (a, b) = (self.val(n), self.val(&format!("{n}@{DOMAIN}")));
                format!("modify {} 0={a};1={b}", ids_tok(ids))
            }
            Op::SetGid(ids, g) => format!("modify {} 2={g}", ids_tok(ids)),
            Op::Delete(ids) => format!("delete {}", ids_tok(ids)),
            Op::Revive(ids) => format!("revive {}", ids_tok(ids)),
        }
    }
}

// ---------------------------------------------------------------------------------------------
// running a history
// ---------------------------------------------------------------------------------------------

struct Fail {
    kind: &'static str,
    class: String,
    step: usize,
    expected: String,
    observed: String,
}

#[derive(Default)]
struct Stats {
    results: BTreeMap<String, u64>,
    oracle_live_entries: u64,
    unique_attrs: u64,
    repl_steps: u64,
    repl_steps_with_new_conflicts: u64,
    entries_conflicted: u64,
    add_conflicts: u64,
    refused_unique: u64,
    ok_ops: u64,
    quiescence_rounds: u64,
}

fn first_diff(a: &str, b: &str) -> String {
    let (ta, tb): (Vec<&str>, Vec<&str>) = (a.split(' ').collect(), b.split(' ').collect());
    for i in 0..ta.len().max(tb.len()) {
        let (x, y) = (ta.get(i).copied().unwrap_or("<none>"), tb.get(i).copied().unwrap_or("<none>"));
        if x != y {
            return format!("token {i}: model `{x}` implementation `{y}`");
        }
    }
    "equal".into()
}

fn oracle_fail(obs: &Obs, step: usize, what: &str) -> Option<Fail> {
    obs.dup.first().map(|(class, detail)| Fail {
        kind: "impl-vs-oracle",
        class: class.to_string(),
        step,
        expected: "no two live entries share a uuid or a value of a schema-unique attribute".into(),
        observed: format!("after `{what}`: {detail}"),
    })
}

/// One replication step with all its checks.
fn repl_step(c: &mut Cluster, drv: &mut Driver, it: &mut Interner, origin_of: &BTreeMap<String, usize>, from: usize, to: usize, step: usize, st: &mut Stats, check_model: bool) -> Result<bool, Fail> {
    let fail = |kind: &'static str, class: &str, expected: String, observed: String| Fail { kind, class: class.into(), step, expected, observed };
    let pre_to = observe(c, to).map_err(|e| fail("impl-vs-model", "observe", "readable".into(), e))?;
    let pre_from = observe(c, from).map_err(|e| fail("impl-vs-model", "observe", "readable".into(), e))?;
    if let Err(e) = exec_repl(c, from, to) {
        return Err(fail("impl-vs-model", "repl-error", "incremental replication succeeds".into(), e));
    }
    let post = observe(c, to).map_err(|e| fail("impl-vs-model", "observe", "readable".into(), e))?;
    st.repl_steps += 1;
    st.oracle_live_entries += post.live_entries;
    st.unique_attrs = post.unique_attrs;
    if let Some(f) = oracle_fail(&post, step, &format!("repl {from} {to}")) {
        return Err(f);
    }
    let changed = post.tracked != pre_to.tracked;
    if !check_model {
        return Ok(changed);
    }
    let pre_to_m: BTreeMap<Uuid, &ObsEntry> = pre_to.tracked.iter().map(|e| (e.uuid, e)).collect();
    let pre_from_m: BTreeMap<Uuid, &ObsEntry> = pre_from.tracked.iter().map(|e| (e.uuid, e)).collect();
    // ---- the same uuid created independently on both sides (`is_add_conflict` looks at the
    //      creation ids only, whatever classes the entries carry): the model names the survivor
    let mut incoming_wins: BTreeMap<Uuid, bool> = BTreeMap::new();
    for e in post.tracked.iter() {
        let (Some(t), Some(f)) = (pre_to_m.get(&e.uuid), pre_from_m.get(&e.uuid)) else { continue };
        let (Some(mt), Some(mf)) = (&t.marker, &f.marker) else { continue };
        if mt == mf || t.st == 'T' || f.st == 'T' {
            continue;
        }
        st.add_conflicts += 1;
        let (at_t, at_f) = (mt[1..].parse::<u64>().unwrap(), mf[1..].parse::<u64>().unwrap());
        let (o_t, o_f) = (origin_of.get(mt).copied().unwrap_or(99), origin_of.get(mf).copied().unwrap_or(99));
        let reply = drv.ask(&format!("resolve {to} {at_f} {o_f} {at_t} {o_t}"));
        let inc = reply.starts_with("incoming");
        incoming_wins.insert(e.uuid, inc);
        let survivor = if inc { mf } else { mt };
        let copy_expected = reply.ends_with("copy=1");
        let copy_seen = post.tracked.iter().any(|x| {
            x.st == 'C' && !pre_to_m.contains_key(&x.uuid) && !pre_from_m.contains_key(&x.uuid) && x.source_uuid.iter().any(|s| *s == e.uuid.to_string())
        });
        if e.marker.as_ref() != Some(survivor) || copy_seen != copy_expected {
            return Err(fail(
                "impl-vs-model",
                "add-conflict",
                format!("resolveAdd: {reply} (survivor {survivor})"),
                format!("uuid {} on server {to}: creation {:?} survived, conflict copy written here: {copy_seen}", it.id(&e.uuid), e.marker),
            ));
        }
    }
    // ---- which entries turned into conflicts, against the model's conflict step
    let merged_state = |e: &ObsEntry| -> char {
        if e.st == 'T' {
            return 'T';
        }
        match incoming_wins.get(&e.uuid) {
            // the incoming creation replaces the resident one wholesale, classes included
            Some(true) => return pre_from_m[&e.uuid].st,
            Some(false) => return pre_to_m[&e.uuid].st,
            None => {}
        }
        match (pre_to_m.get(&e.uuid), pre_from_m.get(&e.uuid)) {
            (Some(t), _) if t.st != 'L' => t.st,
            (_, Some(f)) if f.st != 'L' => f.st,
            (None, None) => e.st, // written by this step itself (conflict copy of an add-conflict)
            _ => 'L',
        }
    };
    let merged = it.state(&post, &merged_state);
    let want = it.state(&post, &|e: &ObsEntry| e.st);
    let reply = drv.ask(&format!("conflict {merged}"));
    if std::env::var_os("C19_DEBUG").is_some() {
        eprintln!("repl {from} {to}\n  merged {merged}\n  model  {reply}\n  impl   {want}");
    }
    let m_state = reply.splitn(2, ' ').nth(1).unwrap_or("");
    if m_state != want {
        return Err(fail("impl-vs-model", "conflict-set", format!("conflictStep on the merged database of `repl {from} {to}`"), first_diff(m_state, &want)));
    }
    if !reply.starts_with("uniq=1 ") {
        return Err(fail("impl-vs-model", "model-uniq", "uniq=1 after the conflict step".into(), reply.chars().take(40).collect()));
    }
    let newly: u64 = post.tracked.iter().filter(|e| e.st == 'C' && merged_state(e) == 'L').count() as u64;
    if newly > 0 {
        st.repl_steps_with_new_conflicts += 1;
        st.entries_conflicted += newly;
    }
    Ok(changed)
}

/// Runs the steps on a fresh cluster; stops at the first failure.
fn run_history(drv: &mut Driver, n_servers: usize, steps: &[Step], st: &mut Stats) -> Option<Fail> {
    let mut c = match Cluster::new(n_servers) {
        Ok(c) => c,
        Err(e) => return Some(Fail { kind: "impl-vs-model", class: "setup".into(), step: 0, expected: "cluster boots".into(), observed: e }),
    };
    let mut it = Interner::new();
    let mut origin_of: BTreeMap<String, usize> = BTreeMap::new();
    // the booted servers themselves must satisfy the property
    for s in 0..n_servers {
        match observe(&mut c, s) {
            Ok(o) => {
                st.oracle_live_entries += o.live_entries;
                if let Some(f) = oracle_fail(&o, 0, "boot") {
                    return Some(f);
                }
                it.see(&o);
            }
            Err(e) => return Some(Fail { kind: "impl-vs-model", class: "observe".into(), step: 0, expected: "readable".into(), observed: e }),
        }
    }
    for (k, stp) in steps.iter().enumerate() {
        let step = k + 1;
        match stp {
            Step::On(s, op) => {
                let pre = match observe(&mut c, *s) {
                    Ok(o) => o,
                    Err(e) => return Some(Fail { kind: "impl-vs-model", class: "observe".into(), step, expected: "readable".into(), observed: e }),
                };
                let marker = step as u64;
                let res = std::panic::catch_unwind(std::panic::AssertUnwindSafe(|| exec_op(&mut c, *s, op, marker))).unwrap_or_else(|_| "panic".into());
                let post = match observe(&mut c, *s) {
                    Ok(o) => o,
                    Err(e) => return Some(Fail { kind: "impl-vs-model", class: "observe".into(), step, expected: "readable".into(), observed: e }),
                };
                *st.results.entry(format!("{}:{}", op.token().split(' ').next().unwrap(), res.split(':').take(2).collect::<Vec<_>>().join(":"))).or_insert(0) += 1;
                st.oracle_live_entries += post.live_entries;
                st.unique_attrs = post.unique_attrs;
                if let Some(f) = oracle_fail(&post, step, &stp.token()) {
                    return Some(f);
                }
                if res == "ok" {
                    st.ok_ops += 1;
                    if matches!(op, Op::Create(_)) {
                        origin_of.insert(format!("v{marker}"), *s);
                    }
                } else if res == "err:unique" {
                    st.refused_unique += 1;
                }
                // gidnumber is not allowed on the non-posix kinds: schema refuses, nothing changes
                let nonposix_target = matches!(op, Op::SetGid(ids, _) if ids.iter().any(|i| pre.tracked.iter().any(|e| e.uuid == uuid_of(*i) && e.st == 'L' && e.gid.is_empty())));
                // correspondence: the model starts from the observed state of this replica
                let init = it.state(&pre, &|e: &ObsEntry| e.st);
                let r0 = drv.ask(&format!("init {init}"));
                if r0 != format!("ok uniq=1 {init}") {
                    return Some(Fail { kind: "impl-vs-model", class: "model-uniq".into(), step, expected: "the observed state satisfies Uniq and round-trips".into(), observed: first_diff(&r0, &format!("ok uniq=1 {init}")) });
                }
                let reply = drv.ask(&format!("op {}", it.op_token(op)));
                let mut parts = reply.splitn(3, ' ');
                let (m_res, m_flag, m_state) = (parts.next().unwrap_or(""), parts.next().unwrap_or(""), parts.next().unwrap_or(""));
                if nonposix_target {
                    // attrunique runs before schema validation: a clash is reported as such, otherwise the
                    // schema refuses the attribute; nothing changes either way
                    let want_res = if m_res == "ok" { "err:other:SchemaViolation" } else { m_res };
                    if !res.starts_with(want_res) || post.tracked != pre.tracked {
                        return Some(Fail { kind: "impl-vs-model", class: "result".into(), step, expected: format!("{want_res} without effect (gidnumber on a non-posix entry; model: {m_res})"), observed: format!("{res} on `{}`", stp.token()) });
                    }
                    continue;
                }
                if m_res != res {
                    return Some(Fail { kind: "impl-vs-model", class: "result".into(), step, expected: format!("model: {m_res}"), observed: format!("implementation: {res} on `{}`", stp.token()) });
                }
                let want = it.state(&post, &|e: &ObsEntry| e.st);
                if m_state != want {
                    return Some(Fail { kind: "impl-vs-model", class: "state".into(), step, expected: format!("model state after `{}`", stp.token()), observed: first_diff(m_state, &want) });
                }
                if m_flag != "uniq=1" {
                    return Some(Fail { kind: "impl-vs-model", class: "model-uniq".into(), step, expected: "uniq=1".into(), observed: m_flag.into() });
                }
            }
            Step::Repl(from, to) => {
                if let Err(f) = repl_step(&mut c, drv, &mut it, &origin_of, *from, *to, step, st, true) {
                    return Some(f);
                }
            }
        }
    }
    if n_servers == 1 {
        return None;
    }
    // ---- quiescence, then: identically on every replica
    let end = steps.len() + 1;
    let mut quiet = false;
    for _round in 0..8 {
        st.quiescence_rounds += 1;
        let mut any = false;
        for a in 0..n_servers {
            for b in 0..n_servers {
                if a != b {
                    match repl_step(&mut c, drv, &mut it, &origin_of, a, b, end, st, true) {
                        Ok(ch) => any |= ch,
                        Err(f) => return Some(f),
                    }
                }
            }
        }
        if !any {
            quiet = true;
            break;
        }
    }
    if !quiet {
        return Some(Fail { kind: "impl-vs-oracle", class: "no-quiescence".into(), step: end, expected: "replication settles within 8 all-pairs rounds".into(), observed: "still changing".into() });
    }
    let mut views = vec![];
    for s in 0..n_servers {
        match observe(&mut c, s) {
            Ok(o) => views.push(o),
            Err(e) => return Some(Fail { kind: "impl-vs-model", class: "observe".into(), step: end, expected: "readable".into(), observed: e }),
        }
    }
    for s in 1..n_servers {
        let a: BTreeMap<Uuid, &ObsEntry> = views[0].tracked.iter().map(|e| (e.uuid, e)).collect();
        let b: BTreeMap<Uuid, &ObsEntry> = views[s].tracked.iter().map(|e| (e.uuid, e)).collect();
        let all: BTreeSet<Uuid> = a.keys().chain(b.keys()).copied().collect();
        for u in all {
            let (sa, sb) = (a.get(&u).map(|e| e.st).unwrap_or('-'), b.get(&u).map(|e| e.st).unwrap_or('-'));
            if sa != sb {
                return Some(Fail {
                    kind: "impl-vs-oracle",
                    class: "replicas-differ-state".into(),
                    step: end,
                    expected: "every uuid in the same state on every replica after quiescence".into(),
                    observed: format!("uuid {} ({u}): `{sa}` on replica 0, `{sb}` on replica {s}", it.id(&u)),
                });
            }
            if sa == 'L' {
                let (ea, eb) = (a[&u], b[&u]);
                if (&ea.name, &ea.spn, &ea.gid) != (&eb.name, &eb.spn, &eb.gid) {
                    return Some(Fail {
                        kind: "impl-vs-oracle",
                        class: "replicas-differ-values".into(),
                        step: end,
                        expected: "live entries hold the same unique values on every replica after quiescence".into(),
                        observed: format!("uuid {}: {:?}/{:?}/{:?} on replica 0, {:?}/{:?}/{:?} on replica {s}", it.id(&u), ea.name, ea.spn, ea.gid, eb.name, eb.spn, eb.gid),
                    });
                }
            }
        }
    }
    None
}

// ---------------------------------------------------------------------------------------------
// generators
// ---------------------------------------------------------------------------------------------

fn gen_op(r: &mut Rng, replicated: bool) -> Op {
    let id = |r: &mut Rng| r.range(1, NIDS as u64) as u8;
    // the built-in name is drawn less often
    let name = |r: &mut Rng| if r.chance(1, 8) { NAMES[3].to_string() } else { NAMES[r.below(3) as usize].to_string() };
    let roll = r.below(100);
    if roll < 40 {
        let k = if r.chance(1, 6) { 2 } else { 1 };
        let mut cs = vec![];
        for _ in 0..k {
            let kind = *r.pick(&['g', 'x', 'x', 'p']);
            cs.push(Cand { id: id(r), kind, name: name(r), gid: if kind == 'x' { Some(*r.pick(&GIDS)) } else { None } });
        }
        Op::Create(cs)
    } else if roll < 72 {
        let mut ids = vec![id(r)];
        if r.chance(1, 6) {
            ids.push(id(r));
            ids.dedup();
        }
        Op::Rename(ids, name(r))
    } else if roll < 82 {
        // gidnumber only exists on the posix kinds; the generator cannot know which uuids are posix
        // on this replica: the runner expects a schema violation when the target is not
        Op::SetGid(vec![id(r)], *r.pick(&GIDS))
    } else if replicated {
        Op::Rename(vec![id(r)], name(r))
    } else if roll < 92 {
        let mut ids = vec![id(r)];
        if r.chance(1, 4) {
            ids.push(id(r));
            ids.dedup();
        }
        Op::Delete(ids)
    } else {
        Op::Revive(vec![id(r)])
    }
}

fn gen_single(r: &mut Rng) -> Vec<Step> {
    let n = r.range(16, 36);
    (0..n).map(|_| Step::On(0, gen_op(r, false))).collect()
}

fn gen_repl(r: &mut Rng, n_servers: usize) -> Vec<Step> {
    let n = r.range(10, 22);
    let mut v = vec![];
    for _ in 0..n {
        if r.chance(3, 10) {
            let a = r.below(n_servers as u64) as usize;
            let mut b = r.below(n_servers as u64) as usize;
            if a == b {
                b = (b + 1) % n_servers;
            }
            v.push(Step::Repl(a, b));
        } else {
            v.push(Step::On(r.below(n_servers as u64) as usize, gen_op(r, true)));
        }
    }
    v
}

fn directed() -> Vec<(&'static str, usize, Vec<&'static str>)> {
    vec![
        // plugins/attrunique.rs unit tests: duplicate against the database, duplicate within one request, modify onto a taken value
        ("one-request-and-separate-transactions", 1, vec![
            "on 0 create 1/p/c19alpha/-",
            "on 0 create 2/p/c19alpha/-",
            "on 0 create 2/g/c19beta/- 3/g/c19beta/-",
            "on 0 create 2/g/c19beta/-",
            "on 0 rename 2 c19alpha",
            "on 0 rename 1,2 c19gamma",
            "on 0 create 1/g/c19gamma/-",
            "on 0 create 4/x/c19gamma/2000 5/x/idm_admins/2001",
            "on 0 create 4/x/c19gamma/2000",
            "on 0 create 5/x/c19x/2000",
            "on 0 setgid 4 2001",
            "on 0 delete 1",
            "on 0 create 1/g/c19delta/-",
            "on 0 rename 2 c19alpha",
            "on 0 revive 1",
            "on 0 rename 2 c19beta",
            "on 0 revive 1",
        ]),
        // the same name created concurrently on two replicas: both entries become conflicts, on both
        ("concurrent-same-name", 2, vec![
            "on 0 create 1/g/c19alpha/-",
            "on 1 create 2/g/c19alpha/-",
            "repl 0 1",
            "repl 1 0",
        ]),
        // concurrent renames onto one name; a bystander with another name stays live
        ("concurrent-rename-clash", 2, vec![
            "on 0 create 1/g/c19alpha/- 2/g/c19beta/-",
            "on 0 create 3/x/c19delta/2000",
            "repl 0 1",
            "on 0 rename 1 c19gamma",
            "on 1 rename 2 c19gamma",
            "repl 1 0",
            "repl 0 1",
        ]),
        // the same uuid created on two replicas: the older creation survives everywhere
        ("same-uuid-twice", 2, vec![
            "on 0 create 1/g/c19alpha/-",
            "on 1 create 1/g/c19beta/-",
            "repl 1 0",
            "repl 0 1",
        ]),
        ("same-uuid-twice-newer-arrives", 2, vec![
            "on 0 create 1/g/c19alpha/-",
            "on 1 create 1/g/c19beta/-",
            "repl 0 1",
            "repl 1 0",
        ]),
        // three replicas: a clash that two replicas learn about in different orders
        ("three-replicas-gid-clash", 3, vec![
            "on 0 create 1/x/c19alpha/2000",
            "on 1 create 2/x/c19beta/2000",
            "on 2 create 3/x/c19gamma/2001",
            "repl 0 2",
            "repl 1 2",
            "repl 2 0",
            "on 1 setgid 2 2001",
            "repl 2 1",
        ]),
    ]
}

// ---------------------------------------------------------------------------------------------
// reporting
// ---------------------------------------------------------------------------------------------

fn steps_json(steps: &[Step]) -> J {
    J::Array(steps.iter().map(|s| J::String(s.token())).collect())
}

fn run_case(drv: &mut Driver, rep: &mut Report, prefix: &str, n_servers: usize, steps: &[Step]) {
    let mut st = Stats::default();
    let fail = run_history(drv, n_servers, steps, &mut st);
    for (k, v) in &st.results {
        rep.count_n(&format!("{prefix}:{k}"), *v);
    }
    rep.count_n(&format!("{prefix}:oracle-live-entries-grouped"), st.oracle_live_entries);
    rep.count_n(&format!("{prefix}:repl-steps"), st.repl_steps);
    rep.count_n(&format!("{prefix}:repl-steps-with-new-conflicts"), st.repl_steps_with_new_conflicts);
    rep.count_n(&format!("{prefix}:entries-conflicted-by-value-clash"), st.entries_conflicted);
    rep.count_n(&format!("{prefix}:same-uuid-created-twice"), st.add_conflicts);
    rep.count_n(&format!("{prefix}:quiescence-rounds"), st.quiescence_rounds);
    if st.unique_attrs > 0 {
        rep.histogram.insert("schema-unique-attributes".into(), st.unique_attrs);
    }
    // non-trivial: the uniqueness rule had to act (a refusal on one server / a conflict between replicas)
    let nontrivial = fail.is_none()
        && st.ok_ops >= 3
        && (if n_servers == 1 { st.refused_unique >= 1 } else { st.entries_conflicted >= 2 || st.add_conflicts >= 1 });
    let key = format!("{n_servers}|{}", steps.iter().map(|s| s.token()).collect::<Vec<_>>().join(";"));
    rep.case(if nontrivial { Some(key) } else { None });
    if nontrivial {
        rep.sample(json!({ "stream": prefix, "servers": n_servers, "steps": steps_json(&steps[..steps.len().min(8)]), "steps_total": steps.len(),
            "refused_unique": st.refused_unique, "entries_conflicted": st.entries_conflicted, "same_uuid_twice": st.add_conflicts }));
    }
    if let Some(f) = fail {
        let mut cur: Vec<Step> = steps[..f.step.min(steps.len())].to_vec();
        let (class, kind) = (f.class.clone(), f.kind);
        cur = shrink_list(cur, |cand| {
            let mut s = Stats::default();
            matches!(run_history(drv, n_servers, cand, &mut s), Some(g) if g.class == class && g.kind == kind)
        });
        let mut s = Stats::default();
        let fin = run_history(drv, n_servers, &cur, &mut s).unwrap_or(f);
        rep.fail(Failure {
            kind: fin.kind.into(),
            class: fin.class.clone(),
            input: json!({ "servers": n_servers, "steps": steps_json(&cur) }),
            expected: fin.expected,
            observed: format!("step {}: {}", fin.step, fin.observed),
        });
    }
}

fn merge(into: &mut Report, from: Report) {
    into.evaluations += from.evaluations;
    into.nontrivial_keys.extend(from.nontrivial_keys);
    for (k, v) in from.histogram {
        if k == "schema-unique-attributes" {
            into.histogram.insert(k, v);
        } else {
            *into.histogram.entry(k).or_insert(0) += v;
        }
    }
    for s in from.samples {
        into.sample(s);
    }
    for f in from.failures {
        into.fail(f);
    }
    into.notes.extend(from.notes);
    into.model_requests += from.model_requests;
}

fn main() {
    if std::env::var_os("RUST_LOG").is_none() {
        std::env::set_var("RUST_LOG", "off");
    }
    let args = Args::parse();
    let mut rep = Report::new(
        "unique",
        "histories on fresh real servers: creates (1-2 candidates), renames (1-2 entries), gidnumber writes, deletes, revives over 8 uuids, \
         3 names (+1 built-in name) and 2 gidnumbers on one server; creates, renames, gidnumber writes and incremental replication steps in \
         random order on 2 or 3 replicas, followed by quiescence and a comparison of the replicas; oracle (group all live entries by uuid and by \
         every schema-unique attribute value) and model comparison after every step; \
         non-trivial = at least 3 successful operations and the rule had to act: on one server an operation refused for uniqueness, on replicas \
         at least two entries conflicted by a value clash or one uuid created twice; distinct = distinct step list",
    );
    if let Some(path) = &args.replay {
        let v: J = serde_json::from_str(&std::fs::read_to_string(path).unwrap()).unwrap();
        let steps: Vec<Step> = v["input"]["steps"].as_array().unwrap().iter().map(|s| Step::parse(s.as_str().unwrap())).collect();
        let n = v["input"]["servers"].as_u64().unwrap_or(1) as usize;
        let mut drv = Driver::spawn(&args.driver);
        run_case(&mut drv, &mut rep, "replay", n, &steps);
        rep.model_requests = drv.requests;
        rep.write(&args.out);
        println!("c19 replay: {} failures", rep.failures.len());
        return;
    }
    {
        let mut drv = Driver::spawn(&args.driver);
        for (name, n, toks) in directed() {
            let steps: Vec<Step> = toks.iter().map(|t| Step::parse(t)).collect();
            run_case(&mut drv, &mut rep, "dir", n, &steps);
            rep.count(&format!("dir:history:{name}"));
        }
        rep.model_requests += drv.requests;
    }
    let n_one = args.cases(36, 540);
    let n_two = args.cases(30, 450);
    let n_three = args.cases(18, 270);
    let parts: u64 = 4;
    let mut jobs: Vec<(usize, u64, u64)> = vec![];
    for k in 0..parts {
        jobs.push((1, n_one * k / parts, n_one * (k + 1) / parts));
        jobs.push((2, n_two * k / parts, n_two * (k + 1) / parts));
        jobs.push((3, n_three * k / parts, n_three * (k + 1) / parts));
    }
    let results: Vec<Report> = std::thread::scope(|sc| {
        let handles: Vec<_> = jobs
            .iter()
            .map(|(n, from, to)| {
                let a = &args;
                sc.spawn(move || {
                    let mut rep = Report::new("part", "");
                    let mut drv = Driver::spawn(&a.driver);
                    for c in *from..*to {
                        let mut r = Rng::for_case(a.seed, (*n as u64) * 1_000_000 + c);
                        let steps = if *n == 1 { gen_single(&mut r) } else { gen_repl(&mut r, *n) };
                        run_case(&mut drv, &mut rep, if *n == 1 { "one" } else if *n == 2 { "repl2" } else { "repl3" }, *n, &steps);
                    }
                    rep.model_requests = drv.requests;
                    rep
                })
            })
            .collect();
        handles.into_iter().map(|h| h.join().expect("slice panicked")).collect()
    });
    for r in results {
        merge(&mut rep, r);
    }
    rep.write(&args.out);
    println!(
        "c19: {} histories, {} non-trivial, {} failures, {} model requests",
        rep.evaluations,
        rep.nontrivial_keys.len(),
        rep.failures.len(),
        rep.model_requests
    );
}
