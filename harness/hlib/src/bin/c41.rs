//! C41 — LDAP and SCIM filters mean what their standards say.
//!
//! Real path: `Filter::from_ldap_ro` / `Filter::from_scim_ro` (identity: idm_admin, element budget
//! 32) -> `validate` -> `into_ignore_hidden` -> `QueryServerReadTransaction::search` on a migrated
//! in-memory server holding the builtin entries plus 17 extensibleobject entries (one recycled).
//! This is what `SearchEvent::new_ext_impersonate_uuid` (LDAP) and `scim_search_filter_ext` (SCIM)
//! do, minus access control; one stratum wraps the filter like `LdapServer::do_search` does.
//!
//! Per case
//!   tr   (impl-vs-model)  the translation verdict: same `OperationError`, or the `{:?}` text of the
//!                         real `FilterComp` equals the model's translation printed the same way
//!                         (which also carries the model's `fcValidate` verdict against `validate`)
//!   mm   (impl-vs-model)  the real resolved filter's `entry_match_no_index` on every entry of the
//!                         database = the model's `FC.matches` of its own translation — twice: resolved
//!                         without index metadata (`fast_optimise`) and WITH the backend's index metadata
//!                         (the full `optimise()`, which is what `search` runs): `mm-optimised`
//!   sem  (impl-vs-model)  the Lean reference semantics (`ldapSem` / `scimSem`, the one the theorems
//!                         are about) = the oracle's evaluator on every entry
//!   ORACLE (impl-vs-oracle) a filter is rejected, or the search returns exactly the visible entries
//!                         that satisfy it under the harness' own RFC 4511 / RFC 7644 evaluator
//!                         (plain strings read through `to_proto_string_clone_iter`; NOT = complement;
//!                         any value may satisfy an assertion; an LDAP substring assertion needs one
//!                         value that splits into the components in order without overlap).
//! Failures are shrunk and classified: `D1:isolated-not`, `C41-F1:ldap-substring-terms-independent`,
//! `C01-F2:empty-substring-needle` only when the witness has the shape AND the implementation agrees
//! with the oracle once the named deviation is accounted for.
#![allow(dead_code)]
use hlib::*;
use kanidm_proto::attribute::SubAttribute;
use kanidm_proto::scim_v1::{AttrPath, ScimComplexFilter, ScimFilter};
use kanidmd_lib::be::BackendTransaction;
use kanidmd_lib::entry::{Entry, EntryInit, EntryNew, EntrySealedCommitted};
use kanidmd_lib::event::SearchEvent;
use kanidmd_lib::filter::{Filter, FilterInvalid};
use kanidmd_lib::prelude::*;
use kanidmd_lib::schema::SchemaTransaction;
use kanidmd_lib::testkit::{setup_test, TestConfiguration};
use ldap3_proto::proto::{LdapFilter, LdapMatchingRuleAssertion, LdapSubstringFilter};
use serde_json::{json, Value as Json};
use std::collections::BTreeMap;
use std::sync::Arc;

// ---------------------------------------------------------------------------------------------
// the modelled slice of the schema (must equal `stdAttrs` of KanidmModel/ProtoFilterEnv.lean)

#[derive(Clone, Copy, PartialEq, Debug)]
enum K {
    Iutf8,
    Iname,
    Utf8,
    Email,
    U32,
    Uuid,
    Spn,
}
const ATTRS: [(&str, u32, bool, K); 9] = [
    ("class", 1, true, K::Iutf8),
    ("name", 14, false, K::Iname),
    ("description", 0, false, K::Utf8),
    ("displayname", 0, false, K::Utf8),
    ("mail", 17, true, K::Email),
    ("gidnumber", 12, false, K::U32),
    ("uuid", 2, false, K::Uuid),
    ("spn", 11, false, K::Spn),
    ("authsession_expiry", 12, false, K::U32),
];
fn atom_of(name: &str) -> usize {
    ATTRS.iter().position(|a| a.0 == name).unwrap_or(99)
}

// ---------------------------------------------------------------------------------------------
// filter trees

#[derive(Clone, Debug, PartialEq, Eq, Hash)]
enum LT {
    And(Vec<LT>),
    Or(Vec<LT>),
    Not(Box<LT>),
    Eq(String, String),
    Sub(String, Option<String>, Vec<String>, Option<String>),
    Ge(String, String),
    Le(String, String),
    Pres(String),
    Approx(String, String),
    Ext,
}

#[derive(Clone, Debug, PartialEq, Eq, Hash)]
enum JV {
    S(String),
    N(u64),
    B(bool),
    Other,
}

#[derive(Clone, Debug, PartialEq, Eq, Hash)]
enum ST {
    /// operator, attribute name (as `Attribute::from` takes it), has sub-attribute, value
    Cmp(&'static str, String, bool, JV),
    Not(Box<ST>),
    Or(Box<ST>, Box<ST>),
    And(Box<ST>, Box<ST>),
    Complex,
}

#[derive(Clone, Debug, PartialEq, Eq, Hash)]
enum T {
    L(LT),
    S(ST),
}

fn bytes_text(s: &str) -> String {
    format!("b{}", s.bytes().map(|b| b.to_string()).collect::<Vec<_>>().join("."))
}
fn opt_bytes(s: &Option<String>) -> String {
    s.as_ref().map(|x| bytes_text(x)).unwrap_or_else(|| "-".into())
}

/// the driver's text form (also the replay form)
fn show_l(t: &LT) -> String {
    let lst = |l: &Vec<LT>| l.iter().map(|x| format!(" {}", show_l(x))).collect::<String>();
    match t {
        LT::And(l) => format!("(and{})", lst(l)),
        LT::Or(l) => format!("(or{})", lst(l)),
        LT::Not(f) => format!("(not {})", show_l(f)),
        LT::Eq(a, v) => format!("(eq {} {})", bytes_text(a), bytes_text(v)),
        LT::Sub(a, i, any, f) => format!(
            "(sub {} {} (any{}) {})",
            bytes_text(a),
            opt_bytes(i),
            any.iter().map(|x| format!(" {}", bytes_text(x))).collect::<String>(),
            opt_bytes(f)
        ),
        LT::Ge(a, v) => format!("(ge {} {})", bytes_text(a), bytes_text(v)),
        LT::Le(a, v) => format!("(le {} {})", bytes_text(a), bytes_text(v)),
        LT::Pres(a) => format!("(pres {})", bytes_text(a)),
        LT::Approx(a, v) => format!("(approx {} {})", bytes_text(a), bytes_text(v)),
        LT::Ext => "(ext)".into(),
    }
}
fn show_j(j: &JV) -> String {
    match j {
        JV::S(s) => format!("js{}", s.bytes().map(|b| b.to_string()).collect::<Vec<_>>().join(".")),
        JV::N(n) => format!("jn{n}"),
        JV::B(true) => "jt".into(),
        JV::B(false) => "jf".into(),
        JV::Other => "jo".into(),
    }
}
/// driver form: attributes as atoms
fn show_s(t: &ST) -> String {
    match t {
        ST::Cmp(op, a, sub, j) => format!("(cmp {op} {} {} {})", atom_of(&a.to_lowercase()), *sub as u8, show_j(j)),
        ST::Not(f) => format!("(not {})", show_s(f)),
        ST::Or(l, r) => format!("(or {} {})", show_s(l), show_s(r)),
        ST::And(l, r) => format!("(and {} {})", show_s(l), show_s(r)),
        ST::Complex => "(complex)".into(),
    }
}
/// replay form of a SCIM tree: attribute names spelled out
fn replay_s(t: &ST) -> String {
    match t {
        ST::Cmp(op, a, sub, j) => format!("(cmp {op} {} {} {})", bytes_text(a), *sub as u8, show_j(j)),
        ST::Not(f) => format!("(not {})", replay_s(f)),
        ST::Or(l, r) => format!("(or {} {})", replay_s(l), replay_s(r)),
        ST::And(l, r) => format!("(and {} {})", replay_s(l), replay_s(r)),
        ST::Complex => "(complex)".into(),
    }
}
/// human-readable (RFC 4515 / RFC 7644 text) for reports
fn pretty_l(t: &LT) -> String {
    match t {
        LT::And(l) => format!("(&{})", l.iter().map(pretty_l).collect::<String>()),
        LT::Or(l) => format!("(|{})", l.iter().map(pretty_l).collect::<String>()),
        LT::Not(f) => format!("(!{})", pretty_l(f)),
        LT::Eq(a, v) => format!("({a}={v})"),
        LT::Sub(a, i, any, f) => format!(
            "({a}={}*{}{})",
            i.clone().unwrap_or_default(),
            any.iter().map(|x| format!("{x}*")).collect::<String>(),
            f.clone().unwrap_or_default()
        ),
        LT::Ge(a, v) => format!("({a}>={v})"),
        LT::Le(a, v) => format!("({a}<={v})"),
        LT::Pres(a) => format!("({a}=*)"),
        LT::Approx(a, v) => format!("({a}~={v})"),
        LT::Ext => "(:ext:=x)".into(),
    }
}
fn pretty_s(t: &ST) -> String {
    match t {
        ST::Cmp(op, a, sub, j) => {
            let p = if *sub { format!("{a}.value") } else { a.clone() };
            if *op == "pr" {
                format!("{p} pr")
            } else {
                format!("{p} {op} {}", jv_json(j))
            }
        }
        ST::Not(f) => format!("not ({})", pretty_s(f)),
        ST::Or(l, r) => format!("({} or {})", pretty_s(l), pretty_s(r)),
        ST::And(l, r) => format!("({} and {})", pretty_s(l), pretty_s(r)),
        ST::Complex => "mail[value pr]".into(),
    }
}
fn pretty(t: &T) -> String {
    match t {
        T::L(l) => pretty_l(l),
        T::S(s) => pretty_s(s),
    }
}
fn replay_text(t: &T) -> (String, String) {
    match t {
        T::L(l) => ("ldap".into(), show_l(l)),
        T::S(s) => ("scim".into(), replay_s(s)),
    }
}

// ---- replay parser
fn sx_tokens(s: &str) -> Vec<String> {
    s.replace('(', " ( ").replace(')', " ) ").split_whitespace().map(|x| x.to_string()).collect()
}
fn un_bytes(s: &str) -> String {
    let r = &s[1..];
    if r.is_empty() {
        String::new()
    } else {
        String::from_utf8(r.split('.').map(|x| x.parse::<u8>().unwrap()).collect()).unwrap()
    }
}
fn un_opt(s: &str) -> Option<String> {
    if s == "-" {
        None
    } else {
        Some(un_bytes(s))
    }
}
fn parse_l(toks: &[String], i: &mut usize) -> LT {
    assert_eq!(toks[*i], "(");
    *i += 1;
    let head = toks[*i].clone();
    *i += 1;
    let t = match head.as_str() {
        "and" | "or" => {
            let mut v = vec![];
            while toks[*i] != ")" {
                v.push(parse_l(toks, i));
            }
            if head == "and" {
                LT::And(v)
            } else {
                LT::Or(v)
            }
        }
        "not" => LT::Not(Box::new(parse_l(toks, i))),
        "eq" | "ge" | "le" | "approx" => {
            let a = un_bytes(&toks[*i]);
            let v = un_bytes(&toks[*i + 1]);
            *i += 2;
            match head.as_str() {
                "eq" => LT::Eq(a, v),
                "ge" => LT::Ge(a, v),
                "le" => LT::Le(a, v),
                _ => LT::Approx(a, v),
            }
        }
        "pres" => {
            let a = un_bytes(&toks[*i]);
            *i += 1;
            LT::Pres(a)
        }
        "sub" => {
            let a = un_bytes(&toks[*i]);
            let ini = un_opt(&toks[*i + 1]);
            *i += 2;
            assert_eq!(toks[*i], "(");
            assert_eq!(toks[*i + 1], "any");
            *i += 2;
            let mut any = vec![];
            while toks[*i] != ")" {
                any.push(un_bytes(&toks[*i]));
                *i += 1;
            }
            *i += 1;
            let fin = un_opt(&toks[*i]);
            *i += 1;
            LT::Sub(a, ini, any, fin)
        }
        "ext" => LT::Ext,
        o => panic!("bad ldap tree head {o}"),
    };
    assert_eq!(toks[*i], ")");
    *i += 1;
    t
}
const OPS: [&str; 10] = ["pr", "eq", "ne", "co", "sw", "ew", "gt", "lt", "ge", "le"];
fn parse_s(toks: &[String], i: &mut usize) -> ST {
    assert_eq!(toks[*i], "(");
    *i += 1;
    let head = toks[*i].clone();
    *i += 1;
    let t = match head.as_str() {
        "cmp" => {
            let op = OPS.iter().find(|o| **o == toks[*i]).expect("op");
            let a = un_bytes(&toks[*i + 1]);
            let sub = toks[*i + 2] == "1";
            let js = &toks[*i + 3];
            let j = if let Some(r) = js.strip_prefix("js") {
                JV::S(if r.is_empty() { String::new() } else { String::from_utf8(r.split('.').map(|x| x.parse::<u8>().unwrap()).collect()).unwrap() })
            } else if let Some(r) = js.strip_prefix("jn") {
                JV::N(r.parse().unwrap())
            } else if js == "jt" {
                JV::B(true)
            } else if js == "jf" {
                JV::B(false)
            } else {
                JV::Other
            };
            *i += 4;
            ST::Cmp(op, a, sub, j)
        }
        "not" => ST::Not(Box::new(parse_s(toks, i))),
        "or" | "and" => {
            let l = parse_s(toks, i);
            let r = parse_s(toks, i);
            if head == "or" {
                ST::Or(Box::new(l), Box::new(r))
            } else {
                ST::And(Box::new(l), Box::new(r))
            }
        }
        "complex" => ST::Complex,
        o => panic!("bad scim tree head {o}"),
    };
    assert_eq!(toks[*i], ")");
    *i += 1;
    t
}

// ---- to the real types
fn to_ldap(t: &LT) -> LdapFilter {
    match t {
        LT::And(l) => LdapFilter::And(l.iter().map(to_ldap).collect()),
        LT::Or(l) => LdapFilter::Or(l.iter().map(to_ldap).collect()),
        LT::Not(f) => LdapFilter::Not(Box::new(to_ldap(f))),
        LT::Eq(a, v) => LdapFilter::Equality(a.clone(), v.clone()),
        LT::Sub(a, i, any, f) => LdapFilter::Substring(a.clone(), LdapSubstringFilter { initial: i.clone(), any: any.clone(), final_: f.clone() }),
        LT::Ge(a, v) => LdapFilter::GreaterOrEqual(a.clone(), v.clone()),
        LT::Le(a, v) => LdapFilter::LessOrEqual(a.clone(), v.clone()),
        LT::Pres(a) => LdapFilter::Present(a.clone()),
        LT::Approx(a, v) => LdapFilter::Approx(a.clone(), v.clone()),
        LT::Ext => LdapFilter::Extensible(LdapMatchingRuleAssertion { matching_rule: None, type_: Some("name".into()), match_value: "x".into(), dn_attributes: false }),
    }
}
fn jv_json(j: &JV) -> Json {
    match j {
        JV::S(s) => json!(s),
        JV::N(n) => json!(n),
        JV::B(b) => json!(b),
        JV::Other => Json::Null,
    }
}
fn to_scim(t: &ST) -> ScimFilter {
    match t {
        ST::Cmp(op, a, sub, j) => {
            let p = AttrPath { a: Attribute::from(a.as_str()), s: if *sub { Some(SubAttribute::from("value")) } else { None } };
            let v = jv_json(j);
            match *op {
                "pr" => ScimFilter::Present(p),
                "eq" => ScimFilter::Equal(p, v),
                "ne" => ScimFilter::NotEqual(p, v),
                "co" => ScimFilter::Contains(p, v),
                "sw" => ScimFilter::StartsWith(p, v),
                "ew" => ScimFilter::EndsWith(p, v),
                "gt" => ScimFilter::Greater(p, v),
                "lt" => ScimFilter::Less(p, v),
                "ge" => ScimFilter::GreaterOrEqual(p, v),
                _ => ScimFilter::LessOrEqual(p, v),
            }
        }
        ST::Not(f) => ScimFilter::Not(Box::new(to_scim(f))),
        ST::Or(l, r) => ScimFilter::Or(Box::new(to_scim(l)), Box::new(to_scim(r))),
        ST::And(l, r) => ScimFilter::And(Box::new(to_scim(l)), Box::new(to_scim(r))),
        ST::Complex => ScimFilter::Complex(Attribute::Mail, Box::new(ScimComplexFilter::Present(SubAttribute::from("value")))),
    }
}

// ---------------------------------------------------------------------------------------------
// the oracle: RFC 4511 / RFC 7644 on plain entries. Written from the standards and the schema's
// matching rules only; it shares no code with the model or with kanidm.

/// attribute name -> values as the server prints them
type Plain = BTreeMap<String, Vec<String>>;

/// which stored attribute an LDAP attribute description names (kanidm's LDAP view: idm/ldap.rs
/// documents these aliases; attribute descriptions are case-insensitive, RFC 4512 2.5)
fn ldap_attr(desc: &str) -> String {
    let d = desc.to_ascii_lowercase();
    match d.as_str() {
        "cn" | "uid" | "dn" | "entrydn" => "name".into(),
        "objectclass" => "class".into(),
        "gecos" => "displayname".into(),
        "email" | "emailaddress" | "emailprimary" | "emailalternative" | "mail;primary" | "mail;alternative" => "mail".into(),
        "uidnumber" => "gidnumber".into(),
        "entryuuid" => "uuid".into(),
        _ => d,
    }
}

#[derive(Clone, Copy, PartialEq)]
enum Rule {
    /// equality and substrings ignore case (Iutf8, Iname: stored folded)
    CaseIgnore,
    /// equality exact, substrings ignore case (Utf8String, EmailAddress)
    ExactEqIgnoreSub,
    /// integer
    Integer,
    /// uuid
    UuidM,
    /// spn: exact, no substrings
    Exact,
}
fn rule_of(attr: &str) -> Option<Rule> {
    Some(match attr {
        "class" | "name" => Rule::CaseIgnore,
        "description" | "displayname" | "mail" => Rule::ExactEqIgnoreSub,
        "gidnumber" | "authsession_expiry" => Rule::Integer,
        "uuid" => Rule::UuidM,
        "spn" => Rule::Exact,
        _ => return None,
    })
}

fn eq_match(rule: Rule, stored: &str, asserted: &str) -> bool {
    match rule {
        Rule::CaseIgnore => stored.to_lowercase() == asserted.to_lowercase(),
        Rule::ExactEqIgnoreSub | Rule::Exact => stored == asserted,
        Rule::Integer => match (stored.parse::<u64>(), asserted.parse::<u64>()) {
            (Ok(a), Ok(b)) => a == b,
            _ => false,
        },
        Rule::UuidM => stored.to_lowercase() == asserted.to_lowercase(),
    }
}

/// RFC 4511 4.5.1.7.2 on one value: backtracking over all positions
fn sub_match_value(v: &str, ini: &Option<String>, any: &[String], fin: &Option<String>) -> bool {
    let v = v.to_lowercase();
    let mut rest: &str = &v;
    let i_low;
    if let Some(i) = ini {
        i_low = i.to_lowercase();
        match rest.strip_prefix(i_low.as_str()) {
            Some(r) => rest = r,
            None => return false,
        }
    }
    fn go(rest: &str, any: &[String], fin: &Option<String>) -> bool {
        match any.split_first() {
            None => match fin {
                None => true,
                Some(f) => rest.ends_with(f.to_lowercase().as_str()),
            },
            Some((a, more)) => {
                let a = a.to_lowercase();
                let mut from = 0;
                while from <= rest.len() {
                    let Some(pos) = rest[from..].find(a.as_str()) else { break };
                    let end = from + pos + a.len();
                    if go(&rest[end..], more, fin) {
                        return true;
                    }
                    // next candidate position (ASCII alphabet)
                    from += pos + 1;
                }
                false
            }
        }
    }
    go(rest, any, fin)
}

#[derive(Clone, Copy, PartialEq)]
enum Variant {
    /// the standard
    Std,
    /// finding C41-F1: every substring component on its own, against any value
    SubIndependent,
}

fn eval_l(t: &LT, e: &Plain, var: Variant) -> bool {
    let vals = |a: &str| -> Vec<String> { e.get(&ldap_attr(a)).cloned().unwrap_or_default() };
    match t {
        LT::And(l) => l.iter().all(|x| eval_l(x, e, var)),
        LT::Or(l) => l.iter().any(|x| eval_l(x, e, var)),
        LT::Not(f) => !eval_l(f, e, var),
        LT::Eq(a, v) | LT::Approx(a, v) => match rule_of(&ldap_attr(a)) {
            Some(r) => vals(a).iter().any(|s| eq_match(r, s, v)),
            None => false,
        },
        LT::Pres(a) => !vals(a).is_empty(),
        LT::Sub(a, i, any, f) => match rule_of(&ldap_attr(a)) {
            Some(Rule::CaseIgnore) | Some(Rule::ExactEqIgnoreSub) => match var {
                Variant::Std => vals(a).iter().any(|s| sub_match_value(s, i, any, f)),
                Variant::SubIndependent => {
                    let vs = vals(a);
                    i.iter().all(|x| vs.iter().any(|s| s.to_lowercase().starts_with(&x.to_lowercase())))
                        && any.iter().all(|x| vs.iter().any(|s| s.to_lowercase().contains(&x.to_lowercase())))
                        && f.iter().all(|x| vs.iter().any(|s| s.to_lowercase().ends_with(&x.to_lowercase())))
                }
            },
            _ => false,
        },
        LT::Ge(a, v) => match rule_of(&ldap_attr(a)) {
            Some(Rule::Integer) => vals(a).iter().any(|s| matches!((s.parse::<u64>(), v.parse::<u64>()), (Ok(x), Ok(y)) if x >= y)),
            Some(_) => vals(a).iter().any(|s| s.as_str() >= v.as_str()),
            None => false,
        },
        LT::Le(a, v) => match rule_of(&ldap_attr(a)) {
            Some(Rule::Integer) => vals(a).iter().any(|s| matches!((s.parse::<u64>(), v.parse::<u64>()), (Ok(x), Ok(y)) if x <= y)),
            Some(_) => vals(a).iter().any(|s| s.as_str() <= v.as_str()),
            None => false,
        },
        LT::Ext => false,
    }
}

fn eval_s(t: &ST, e: &Plain) -> bool {
    match t {
        ST::Cmp(op, a, sub, j) => {
            if *sub {
                return false;
            }
            let attr = a.to_lowercase();
            let vs = e.get(&attr).cloned().unwrap_or_default();
            if *op == "pr" {
                return !vs.is_empty();
            }
            let Some(rule) = rule_of(&attr) else { return false };
            match (rule, j) {
                (Rule::Integer, JV::N(n)) => vs.iter().any(|s| {
                    let Ok(x) = s.parse::<u64>() else { return false };
                    match *op {
                        "eq" => x == *n,
                        "ne" => x != *n,
                        "gt" => x > *n,
                        "lt" => x < *n,
                        "ge" => x >= *n,
                        "le" => x <= *n,
                        _ => false,
                    }
                }),
                (Rule::Integer, _) => false,
                (_, JV::S(v)) => vs.iter().any(|s| {
                    let (sl, vl) = (s.to_lowercase(), v.to_lowercase());
                    match *op {
                        "eq" => eq_match(rule, s, v),
                        "ne" => !eq_match(rule, s, v),
                        "co" => rule != Rule::UuidM && rule != Rule::Exact && sl.contains(&vl),
                        "sw" => rule != Rule::UuidM && rule != Rule::Exact && sl.starts_with(&vl),
                        "ew" => rule != Rule::UuidM && rule != Rule::Exact && sl.ends_with(&vl),
                        "gt" => sl > vl,
                        "lt" => sl < vl,
                        "ge" => sl >= vl,
                        "le" => sl <= vl,
                        _ => false,
                    }
                }),
                _ => false,
            }
        }
        ST::Not(f) => !eval_s(f, e),
        ST::Or(l, r) => eval_s(l, e) || eval_s(r, e),
        ST::And(l, r) => eval_s(l, e) && eval_s(r, e),
        ST::Complex => false,
    }
}
fn eval(t: &T, e: &Plain, var: Variant) -> bool {
    match t {
        T::L(l) => eval_l(l, e, var),
        T::S(s) => eval_s(s, e),
    }
}

// ---------------------------------------------------------------------------------------------
// shapes the known findings have, and the rewrites that remove them

/// a NOT that is not the child of an AND with a positive sibling (`guarded`: this node is a direct
/// child of such an AND)
fn l_isolated_not(t: &LT, guarded: bool) -> bool {
    match t {
        LT::Not(f) => !guarded || l_isolated_not(f, false),
        LT::And(l) => {
            let has_pos = l.iter().any(|c| !matches!(c, LT::Not(_)));
            l.iter().any(|c| l_isolated_not(c, has_pos))
        }
        LT::Or(l) => l.iter().any(|c| l_isolated_not(c, false)),
        _ => false,
    }
}
fn s_isolated_not(t: &ST, guarded: bool) -> bool {
    match t {
        ST::Not(f) => !guarded || s_isolated_not(f, false),
        ST::And(l, r) => {
            let has_pos = !matches!(**l, ST::Not(_)) || !matches!(**r, ST::Not(_));
            s_isolated_not(l, has_pos) || s_isolated_not(r, has_pos)
        }
        ST::Or(l, r) => s_isolated_not(l, false) || s_isolated_not(r, false),
        _ => false,
    }
}
/// guard every NOT: `(!(x))` -> `(&(class=*)(!(x)))` (every entry has a class: same meaning)
fn l_guard(t: &LT) -> LT {
    match t {
        LT::Not(f) => LT::And(vec![LT::Pres("class".into()), LT::Not(Box::new(l_guard(f)))]),
        LT::And(l) => LT::And(l.iter().map(l_guard).collect()),
        LT::Or(l) => LT::Or(l.iter().map(l_guard).collect()),
        o => o.clone(),
    }
}
fn s_guard(t: &ST) -> ST {
    match t {
        ST::Not(f) => ST::And(Box::new(ST::Cmp("pr", "class".into(), false, JV::Other)), Box::new(ST::Not(Box::new(s_guard(f))))),
        ST::And(l, r) => ST::And(Box::new(s_guard(l)), Box::new(s_guard(r))),
        ST::Or(l, r) => ST::Or(Box::new(s_guard(l)), Box::new(s_guard(r))),
        o => o.clone(),
    }
}
fn l_multi_sub(t: &LT) -> bool {
    match t {
        LT::Sub(_, i, any, f) => i.iter().count() + any.len() + f.iter().count() >= 2,
        LT::And(l) | LT::Or(l) => l.iter().any(l_multi_sub),
        LT::Not(f) => l_multi_sub(f),
        _ => false,
    }
}
fn s_empty_needle(t: &ST) -> bool {
    match t {
        ST::Cmp(op, _, false, JV::S(s)) => ["co", "sw", "ew"].contains(op) && s.is_empty(),
        ST::Not(f) => s_empty_needle(f),
        ST::And(l, r) | ST::Or(l, r) => s_empty_needle(l) || s_empty_needle(r),
        _ => false,
    }
}
/// `a co ""` -> `a pr` (same meaning: every value contains the empty string)
fn s_fill(t: &ST) -> ST {
    match t {
        ST::Cmp(op, a, false, JV::S(s)) if ["co", "sw", "ew"].contains(op) && s.is_empty() => ST::Cmp("pr", a.clone(), false, JV::Other),
        ST::Not(f) => ST::Not(Box::new(s_fill(f))),
        ST::And(l, r) => ST::And(Box::new(s_fill(l)), Box::new(s_fill(r))),
        ST::Or(l, r) => ST::Or(Box::new(s_fill(l)), Box::new(s_fill(r))),
        o => o.clone(),
    }
}

// ---- shrinking
fn l_shrinks(t: &LT) -> Vec<LT> {
    let mut out = vec![];
    match t {
        LT::And(l) | LT::Or(l) => {
            let mk = |v: Vec<LT>| if matches!(t, LT::And(_)) { LT::And(v) } else { LT::Or(v) };
            for c in l {
                out.push(c.clone());
            }
            if l.len() > 1 {
                for i in 0..l.len() {
                    let mut v = l.clone();
                    v.remove(i);
                    out.push(mk(v));
                }
            }
            for i in 0..l.len() {
                for s in l_shrinks(&l[i]) {
                    let mut v = l.clone();
                    v[i] = s;
                    out.push(mk(v));
                }
            }
        }
        LT::Not(f) => {
            out.push((**f).clone());
            for s in l_shrinks(f) {
                out.push(LT::Not(Box::new(s)));
            }
        }
        LT::Sub(a, i, any, f) => {
            let n = i.iter().count() + any.len() + f.iter().count();
            if n > 1 {
                if i.is_some() {
                    out.push(LT::Sub(a.clone(), None, any.clone(), f.clone()));
                }
                if f.is_some() {
                    out.push(LT::Sub(a.clone(), i.clone(), any.clone(), None));
                }
                for k in 0..any.len() {
                    let mut v = any.clone();
                    v.remove(k);
                    out.push(LT::Sub(a.clone(), i.clone(), v, f.clone()));
                }
            }
        }
        _ => {}
    }
    out
}
fn s_shrinks(t: &ST) -> Vec<ST> {
    let mut out = vec![];
    match t {
        ST::And(l, r) | ST::Or(l, r) => {
            let mk = |a: ST, b: ST| if matches!(t, ST::And(..)) { ST::And(Box::new(a), Box::new(b)) } else { ST::Or(Box::new(a), Box::new(b)) };
            out.push((**l).clone());
            out.push((**r).clone());
            for s in s_shrinks(l) {
                out.push(mk(s, (**r).clone()));
            }
            for s in s_shrinks(r) {
                out.push(mk((**l).clone(), s));
            }
        }
        ST::Not(f) => {
            out.push((**f).clone());
            for s in s_shrinks(f) {
                out.push(ST::Not(Box::new(s)));
            }
        }
        _ => {}
    }
    out
}
fn shrinks(t: &T) -> Vec<T> {
    match t {
        T::L(l) => l_shrinks(l).into_iter().map(T::L).collect(),
        T::S(s) => s_shrinks(s).into_iter().map(T::S).collect(),
    }
}

// ---------------------------------------------------------------------------------------------
// the database

struct Ent {
    uuid: Uuid,
    hidden: bool,
    plain: Plain,
    real: Arc<EntrySealedCommitted>,
}

fn plain_of(e: &EntrySealedCommitted) -> Plain {
    let mut p = Plain::new();
    for (name, _, _, _) in ATTRS.iter() {
        if let Some(vs) = e.get_ava_set(Attribute::from(*name)) {
            let v: Vec<String> = vs.to_proto_string_clone_iter().collect();
            if !v.is_empty() {
                p.insert(name.to_string(), v);
            }
        }
    }
    p
}

/// model text of one entry (Sexp.lean syntax)
fn model_entry(p: &Plain) -> String {
    let mut items = vec![];
    for (a, (name, _, _, k)) in ATTRS.iter().enumerate() {
        let Some(vs) = p.get(*name) else { continue };
        let mut texts = vec![];
        for v in vs {
            texts.push(match k {
                K::U32 => format!("n{}", v.parse::<u64>().expect("numeric value")),
                K::Uuid => format!("n{}", Uuid::parse_str(v).expect("uuid value").as_u128()),
                _ => format!("s{}", v.bytes().map(|b| b.to_string()).collect::<Vec<_>>().join(".")),
            });
        }
        items.push(format!("{a}={}", texts.join("+")));
    }
    if items.is_empty() {
        "-".into()
    } else {
        items.join(",")
    }
}

#[allow(clippy::too_many_arguments)]
fn mk_entry(n: u64, name: &str, mails: &[&str], gid: Option<u32>, expiry: Option<u32>, desc: Option<&str>, disp: Option<&str>) -> Entry<EntryInit, EntryNew> {
    let mut e: Entry<EntryInit, EntryNew> = Entry::new();
    e.add_ava(Attribute::Class, EntryClass::Object.to_value());
    e.add_ava(Attribute::Class, EntryClass::ExtensibleObject.to_value());
    e.add_ava(Attribute::Uuid, Value::Uuid(nat_uuid(1000 + n)));
    e.add_ava(Attribute::Name, Value::new_iname(name));
    for m in mails {
        e.add_ava(Attribute::Mail, Value::new_email_address_s(m).expect("mail"));
    }
    if let Some(g) = gid {
        e.add_ava(Attribute::GidNumber, Value::Uint32(g));
    }
    if let Some(x) = expiry {
        e.add_ava(Attribute::AuthSessionExpiry, Value::Uint32(x));
    }
    if let Some(d) = desc {
        e.add_ava(Attribute::Description, Value::new_utf8s(d));
    }
    if let Some(d) = disp {
        e.add_ava(Attribute::DisplayName, Value::new_utf8s(d));
    }
    e
}

fn population() -> Vec<Entry<EntryInit, EntryNew>> {
    vec![
        mk_entry(1, "aba", &["abc@x.com", "xyz@y.org"], Some(2000), Some(9), Some("Hello"), Some("Aba One")),
        mk_entry(2, "vpa", &["vpa@x.com"], Some(3000), Some(5), Some("hello"), None),
        mk_entry(3, "vpm", &[], None, None, None, Some("vpm")),
        mk_entry(4, "vpz", &["ab@ab.ab"], Some(2500), Some(3), Some("ab"), None),
        mk_entry(5, "abab", &["abab@ab.ab"], Some(2501), None, Some("abab"), Some("ab ab")),
        mk_entry(6, "xab", &["first@x.com", "second@x.com", "third@z.net"], Some(2499), Some(5), None, None),
        mk_entry(7, "abxba", &[], Some(4000), Some(5), Some("ab x ba"), None),
        mk_entry(8, "ab", &["ab@x.com"], None, Some(1), Some("xyz"), Some("AB")),
        mk_entry(9, "ba", &["ba@x.com", "ab@y.org"], Some(2502), None, Some("Abab"), None),
        mk_entry(10, "vp_ga", &[], Some(5000), Some(7), Some("vp"), Some("vp")),
        mk_entry(11, "vp_gb", &[], Some(5001), Some(7), Some("vp"), None),
        mk_entry(12, "vp_gc", &[], Some(5002), None, Some("vpx"), None),
        mk_entry(13, "abcd", &["abcd@abcd.cd"], Some(2400), Some(2), Some("abcd"), Some("abcd")),
        // recycled below: must never be returned
        mk_entry(14, "abz", &["abz@x.com"], Some(2600), Some(5), Some("ab"), Some("ab")),
        // begins AND ends with `ab` / only begins / only ends (name, description, displayname, mail): tell a
        // starts-with term from an ends-with term with the same value, and `(a=ab*ab)` from `(a=ab*)` / `(a=*ab)`
        mk_entry(15, "abcab", &["abc@x.ab"], Some(2601), None, Some("abcab"), Some("Abcab")),
        mk_entry(16, "abcde", &["abcde@x.com"], Some(2602), Some(4), Some("abcde"), Some("abcde")),
        mk_entry(17, "xxab", &["xx@x.ab"], None, Some(4), Some("xxab"), Some("xxAB")),
    ]
}

// ---------------------------------------------------------------------------------------------
// generators

const L_NAME_ATTRS: [&str; 6] = ["name", "cn", "uid", "CN", "Name", "UID"];
const L_CLASS_ATTRS: [&str; 3] = ["class", "objectClass", "OBJECTCLASS"];
const FRAGS: [&str; 14] = ["a", "b", "ab", "ba", "aba", "abab", "x", "vp", "vp_g", "z", "cd", "abc", "m", "ABA"];

fn pick_s(r: &mut Rng, xs: &[&str]) -> String {
    xs[r.below(xs.len() as u64) as usize].to_string()
}

fn l_leaf(r: &mut Rng) -> LT {
    match r.below(20) {
        0..=3 => LT::Eq(pick_s(r, &L_NAME_ATTRS), pick_s(r, &["aba", "vpa", "VPA", "ab", "abab", "vp_ga", "nobody", "ABXBA", "abz", "admin"])),
        4 | 5 => LT::Eq(pick_s(r, &L_CLASS_ATTRS), pick_s(r, &["extensibleobject", "ExtensibleObject", "object", "group", "person", "classtype", "attributetype", "recycled", "account", "nothing"])),
        6 | 7 => {
            // substrings over text attributes, 1..3 components
            let a = pick_s(r, &["name", "cn", "mail", "description", "email", "displayname", "gecos", "class"]);
            let n = *r.pick(&[1u64, 1, 1, 2, 2, 3]);
            let mut ini = None;
            let mut fin = None;
            let mut any = vec![];
            for _ in 0..n {
                match r.below(3) {
                    0 if ini.is_none() => ini = Some(pick_s(r, &FRAGS)),
                    1 if fin.is_none() => fin = Some(pick_s(r, &FRAGS)),
                    _ => any.push(pick_s(r, &FRAGS)),
                }
            }
            LT::Sub(a, ini, any, fin)
        }
        8 => LT::Pres(pick_s(r, &["mail", "gidnumber", "description", "displayname", "uidNumber", "authsession_expiry", "class", "gecos", "spn"])),
        9 | 10 => LT::Eq(pick_s(r, &["gidnumber", "uidNumber", "authsession_expiry"]), pick_s(r, &["2000", "2500", "2501", "5", "7", "+5", "05", "9", "0", "4294967295"])),
        11 => LT::Eq(pick_s(r, &["mail", "email", "emailprimary"]), pick_s(r, &["abc@x.com", "ABC@x.com", "ab@ab.ab", "ab@y.org", "none@x.com"])),
        12 => LT::Eq(pick_s(r, &["description", "displayname", "gecos"]), pick_s(r, &["hello", "Hello", "ab", "vp", "AB", "abcd"])),
        13 => LT::Eq(pick_s(r, &["uuid", "entryuuid", "entryUUID"]), {
            let n = r.range(1, 19);
            if r.chance(1, 5) {
                "zz-no-such-thing".to_string()
            } else {
                nat_uuid(1000 + n).as_hyphenated().to_string()
            }
        }),
        14 => LT::Eq("spn".into(), pick_s(r, &["aba@example.com", "vpa@example.com", "garbage", "x@y"])),
        15 => LT::Sub(pick_s(r, &["gidnumber", "uuid"]), Some("2".into()), vec![], None),
        16 => match r.below(4) {
            0 => LT::Ge("gidnumber".into(), "2500".into()),
            1 => LT::Le("name".into(), "m".into()),
            2 => LT::Approx("name".into(), "aba".into()),
            _ => LT::Ext,
        },
        17 => match r.below(4) {
            0 => LT::Eq("nonexist".into(), "x".into()),
            1 => LT::Pres("nonexist".into()),
            2 => LT::Eq("gidnumber".into(), pick_s(r, &["abc", "", "4294967296", "-1"])),
            _ => LT::Eq("pwdChangedTime".into(), "x".into()),
        },
        _ => LT::Eq(pick_s(r, &L_NAME_ATTRS), pick_s(r, &["aba", "ab", "ba", "vpm", "vpz", "xab", "abcd"])),
    }
}


/// one term of a *same-value family*: the five assertion kinds over one attribute and one value
fn l_term(op: &str, a: &str, v: &str) -> LT {
    match op {
        "eq" => LT::Eq(a.into(), v.into()),
        "sw" => LT::Sub(a.into(), Some(v.into()), vec![], None),
        "ew" => LT::Sub(a.into(), None, vec![], Some(v.into())),
        "co" => LT::Sub(a.into(), None, vec![v.into()], None),
        _ => LT::Pres(a.into()),
    }
}
fn s_term(op: &'static str, a: &str, v: &str) -> ST {
    if op == "pr" {
        ST::Cmp("pr", a.into(), false, JV::Other)
    } else {
        ST::Cmp(op, a.into(), false, JV::S(v.into()))
    }
}
const FAM_OPS: [&str; 5] = ["eq", "sw", "ew", "co", "pr"];
/// attribute (LDAP spellings), a needle that some values begin with, some end with, some both
const FAM_ATTRS: [(&[&str], &str); 5] = [
    (&["name", "cn", "UID"], "ab"),
    (&["description"], "ab"),
    (&["displayname", "gecos"], "ab"),
    (&["mail", "email"], "ab"),
    (&["class", "objectClass"], "object"),
];

/// 2-4 terms (starts-with / ends-with / contains / equality / presence) that mostly share the
/// attribute and the value: the lists in which a term-level comparison (sort, dedup, dead-term
/// elimination of the optimiser) could confuse two different assertions
fn l_family_terms(r: &mut Rng) -> Vec<LT> {
    let (names, needle) = FAM_ATTRS[r.below(FAM_ATTRS.len() as u64) as usize];
    let n = r.range(2, 4);
    let mut v = vec![];
    for _ in 0..n {
        let a = if r.chance(1, 8) { pick_s(r, &["name", "description", "mail"]) } else { pick_s(r, names) };
        let val = if r.chance(1, 8) { pick_s(r, &FRAGS) } else if r.chance(1, 6) { needle.to_uppercase() } else { needle.to_string() };
        let op = *r.pick(&["sw", "ew", "sw", "ew", "co", "eq", "pr"]);
        let t = l_term(op, &a, &val);
        v.push(if r.chance(1, 8) { LT::Not(Box::new(t)) } else { t });
    }
    v
}
fn l_family(r: &mut Rng) -> LT {
    let v = l_family_terms(r);
    let inner = if r.chance(1, 2) { LT::And(v) } else { LT::Or(v) };
    match r.below(6) {
        0 => LT::And(vec![leq("class", "extensibleobject"), inner]),
        1 => LT::Or(vec![leq("name", "vpm"), inner]),
        2 => LT::And(vec![LT::Pres("class".into()), LT::Not(Box::new(inner))]),
        _ => inner,
    }
}
/// a substring assertion whose components repeat one fragment (`(a=ab*ab)`, `(a=ab*ab*ab)`, `(a=*ab*ab)` ...)
fn l_repeat_sub(r: &mut Rng) -> LT {
    let (names, needle) = FAM_ATTRS[r.below(4) as usize];
    let a = pick_s(r, names);
    let f = if r.chance(1, 3) { pick_s(r, &["a", "b", "ab", "abab", "x"]) } else { needle.to_string() };
    let alt = |r: &mut Rng, f: &str| if r.chance(1, 6) { pick_s(r, &FRAGS) } else { f.to_string() };
    loop {
        let ini = if r.chance(2, 3) { Some(alt(r, &f)) } else { None };
        let fin = if r.chance(2, 3) { Some(alt(r, &f)) } else { None };
        let any: Vec<String> = (0..*r.pick(&[0u64, 0, 1, 1, 2])).map(|_| alt(r, &f)).collect();
        if ini.iter().count() + fin.iter().count() + any.len() >= 2 {
            return LT::Sub(a, ini, any, fin);
        }
    }
}
fn s_family(r: &mut Rng) -> ST {
    let (names, needle) = FAM_ATTRS[r.below(FAM_ATTRS.len() as u64) as usize];
    let base = names[0];
    let n = r.range(2, 3);
    let mut v = vec![];
    for _ in 0..n {
        let a = if r.chance(1, 8) { pick_s(r, &["name", "description", "displayname"]) } else if r.chance(1, 6) { base.to_uppercase() } else { base.to_string() };
        let val = if r.chance(1, 8) { pick_s(r, &FRAGS) } else if r.chance(1, 6) { needle.to_uppercase() } else { needle.to_string() };
        let op = pick_op(r, &["sw", "ew", "sw", "ew", "co", "eq", "pr"]);
        let t = s_term(op, &a, &val);
        v.push(if r.chance(1, 8) { ST::Not(Box::new(t)) } else { t });
    }
    let and = r.chance(1, 2);
    let mut it = v.into_iter();
    let mut acc = it.next().unwrap();
    for t in it {
        acc = if and { sand(acc, t) } else { sor(acc, t) };
    }
    match r.below(6) {
        0 => sand(scmp("eq", "class", "extensibleobject"), acc),
        1 => sor(scmp("eq", "name", "vpm"), acc),
        2 => sand(ST::Cmp("pr", "class".into(), false, JV::Other), snot(acc)),
        _ => acc,
    }
}

fn l_tree(r: &mut Rng, depth: usize, width: usize) -> LT {
    if r.chance(1, 14) {
        return if r.chance(1, 3) { l_repeat_sub(r) } else { l_family(r) };
    }
    if depth == 0 || r.chance(1, 4) {
        return l_leaf(r);
    }
    match r.below(10) {
        0..=3 => {
            let n = r.range(1, width as u64) as usize;
            let mut v: Vec<LT> = (0..n).map(|_| l_tree(r, depth - 1, width)).collect();
            if r.chance(1, 2) {
                v.push(LT::Not(Box::new(l_tree(r, depth - 1, width))));
            }
            r.shuffle(&mut v);
            LT::And(v)
        }
        4..=6 => LT::Or((0..r.range(1, width as u64)).map(|_| l_tree(r, depth - 1, width)).collect()),
        // a NOT with a positive sibling that every entry satisfies
        7 | 8 => LT::And(vec![LT::Pres(pick_s(r, &["class", "objectClass", "uuid"])), LT::Not(Box::new(l_tree(r, depth - 1, width)))]),
        _ => LT::Not(Box::new(l_tree(r, depth - 1, width))),
    }
}

fn pick_op(r: &mut Rng, xs: &[&'static str]) -> &'static str {
    xs[r.below(xs.len() as u64) as usize]
}

fn s_leaf(r: &mut Rng) -> ST {
    match r.below(16) {
        0..=3 => ST::Cmp(pick_op(r, &["eq", "eq", "co", "sw", "ew"]), pick_s(r, &["name", "Name", "NAME"]), false, JV::S(pick_s(r, &["aba", "ab", "ba", "VPA", "vp", "vp_g", "a", "z", "abab", "nobody"]))),
        4 | 5 => ST::Cmp(pick_op(r, &["eq", "co", "sw", "ew"]), "class".into(), false, JV::S(pick_s(r, &["extensibleobject", "object", "group", "person", "ect", "Ext", "classtype", "recycled"]))),
        6 | 7 => ST::Cmp(pick_op(r, &["eq", "co", "sw", "ew"]), pick_s(r, &["description", "displayname"]), false, JV::S(pick_s(r, &["hello", "Hello", "He", "ab", "AB", "vp", "x", "abcd"]))),
        8 => ST::Cmp("pr", pick_s(r, &["mail", "gidnumber", "description", "displayname", "class", "spn", "authsession_expiry"]), false, JV::Other),
        9 => ST::Cmp("eq", "uuid".into(), false, JV::S(if r.chance(1, 5) { "zz-no-such-thing".into() } else { nat_uuid(1000 + r.range(1, 19)).as_hyphenated().to_string() })),
        10 => ST::Cmp(
            pick_op(r, &["gt", "lt", "ge", "le"]),
            pick_s(r, &["gidnumber", "authsession_expiry", "name", "class", "description"]),
            false,
            if r.chance(1, 2) { JV::N(*r.pick(&[5u64, 2500, 2000, 7])) } else { JV::S(pick_s(r, &["vpm", "ab", "m"])) },
        ),
        11 => ST::Cmp(pick_op(r, &["eq", "co"]), pick_s(r, &["gidnumber", "mail", "spn"]), false, if r.chance(1, 2) { JV::N(2000) } else { JV::S("abc@x.com".into()) }),
        12 => match r.below(4) {
            0 => ST::Cmp("ne", "name".into(), false, JV::S("aba".into())),
            1 => ST::Cmp(pick_op(r, &["eq", "pr", "co"]), "mail".into(), true, JV::S("x".into())),
            2 => ST::Complex,
            _ => ST::Cmp("eq", "nonexist".into(), false, JV::S("x".into())),
        },
        13 => ST::Cmp(pick_op(r, &["co", "sw", "ew"]), pick_s(r, &["name", "description", "class", "displayname"]), false, JV::S(String::new())),
        14 => ST::Cmp("eq", pick_s(r, &["name", "class", "description"]), false, [JV::N(5), JV::B(true), JV::Other][r.below(3) as usize].clone()),
        _ => ST::Cmp("eq", "name".into(), false, JV::S(pick_s(r, &["aba", "ab", "ba", "vpm", "vpz", "xab", "abcd", "abz"]))),
    }
}
fn s_tree(r: &mut Rng, depth: usize) -> ST {
    if r.chance(1, 12) {
        return s_family(r);
    }
    if depth == 0 || r.chance(1, 4) {
        return s_leaf(r);
    }
    match r.below(10) {
        0..=3 => {
            let l = s_tree(r, depth - 1);
            let rr = if r.chance(1, 2) { ST::Not(Box::new(s_tree(r, depth - 1))) } else { s_tree(r, depth - 1) };
            if r.chance(1, 2) {
                ST::And(Box::new(l), Box::new(rr))
            } else {
                ST::And(Box::new(rr), Box::new(l))
            }
        }
        4..=6 => ST::Or(Box::new(s_tree(r, depth - 1)), Box::new(s_tree(r, depth - 1))),
        7 | 8 => ST::And(Box::new(ST::Cmp("pr", "class".into(), false, JV::Other)), Box::new(ST::Not(Box::new(s_tree(r, depth - 1))))),
        _ => ST::Not(Box::new(s_tree(r, depth - 1))),
    }
}

/// the wrapper `LdapServer::do_search` puts around the client's filter (idm/ldap.rs l.351)
fn do_search_wrap(f: LT) -> LT {
    LT::And(vec![
        f,
        LT::Not(Box::new(LT::Or(vec![
            LT::Eq("class".into(), "classtype".into()),
            LT::Eq("class".into(), "attributetype".into()),
            LT::Eq("class".into(), "access_control_profile".into()),
        ]))),
    ])
}

fn leq(a: &str, v: &str) -> LT {
    LT::Eq(a.into(), v.into())
}
fn lsub(a: &str, i: Option<&str>, any: &[&str], f: Option<&str>) -> LT {
    LT::Sub(a.into(), i.map(|s| s.into()), any.iter().map(|s| s.to_string()).collect(), f.map(|s| s.into()))
}
fn lnot(f: LT) -> LT {
    LT::Not(Box::new(f))
}
fn scmp(op: &'static str, a: &str, v: &str) -> ST {
    ST::Cmp(op, a.into(), false, JV::S(v.into()))
}
fn snot(f: ST) -> ST {
    ST::Not(Box::new(f))
}
fn sand(l: ST, r: ST) -> ST {
    ST::And(Box::new(l), Box::new(r))
}
fn sor(l: ST, r: ST) -> ST {
    ST::Or(Box::new(l), Box::new(r))
}

/// regression corpus: witnesses of the defects named in DESIGN §6 that concern C41
fn corpus() -> Vec<(&'static str, T)> {
    let xo = || leq("class", "extensibleobject");
    vec![
        // D1 (known): NOT not guarded by a positive AND sibling
        ("d1-top-not", T::L(lnot(leq("name", "vpa")))),
        ("d1-and-of-nots", T::L(LT::And(vec![lnot(leq("name", "vpa")), lnot(leq("class", "classtype"))]))),
        ("d1-do-search-wrapped-not", T::L(do_search_wrap(lnot(leq("name", "vpa"))))),
        ("d1-not-under-or", T::L(LT::And(vec![xo(), LT::Or(vec![leq("name", "vp_ga"), lnot(leq("name", "vp_gb"))])]))),
        ("d1-scim-top-not", T::S(snot(scmp("eq", "name", "vpa")))),
        // guarded NOT: must be exact
        ("guarded-not", T::L(LT::And(vec![xo(), lnot(leq("name", "vpa"))]))),
        ("guarded-not-wrapped", T::L(do_search_wrap(LT::And(vec![xo(), lnot(leq("cn", "VPA"))])))),
        ("scim-guarded-not", T::S(sand(scmp("eq", "class", "extensibleobject"), snot(scmp("eq", "name", "vpa"))))),
        // D13 (fixed): AND NOT over a partial (substring) candidate set
        ("d13-and-not-substring", T::S(sand(scmp("eq", "class", "extensibleobject"), snot(scmp("co", "name", "abcd"))))),
        ("d13-ldap-and-not-substring", T::L(LT::And(vec![xo(), lnot(lsub("name", None, &["abcd"], None))]))),
        // D8 (fixed): ordering on non-orderable / any attribute is refused
        ("d8-name-ge", T::S(scmp("ge", "name", "vpm"))),
        ("d8-name-lt", T::S(scmp("lt", "name", "vpm"))),
        ("d8-gid-ge", T::S(ST::Cmp("ge", "gidnumber".into(), false, JV::N(2500)))),
        ("d8-gid-gt-guarded", T::S(sand(scmp("eq", "class", "extensibleobject"), snot(ST::Cmp("gt", "gidnumber".into(), false, JV::N(2500)))))),
        // C41-F1 (known): substring components are matched independently
        ("f1-overlap", T::L(lsub("name", Some("ab"), &[], Some("ba")))),
        ("f1-twice", T::L(lsub("name", None, &["ab", "ab"], None))),
        ("f1-cross-value", T::L(lsub("mail", Some("abc"), &[], Some("org")))),
        ("f1-order", T::L(lsub("mail", None, &["com", "x"], None))),
        // a multi-component substring that kanidm answers correctly on this database
        ("sub-ok-abxba", T::L(lsub("name", Some("ab"), &["x"], Some("ba")))),
        // C01-F2 (known): indexed empty needle
        ("f2-name-co-empty", T::S(scmp("co", "name", ""))),
        ("f2-desc-co-empty-unindexed", T::S(sand(scmp("eq", "class", "extensibleobject"), scmp("co", "description", "")))),
        // names and values
        ("alias-case", T::L(LT::And(vec![leq("objectClass", "ExtensibleObject"), leq("CN", "VPA")]))),
        ("utf8-eq-exact", T::L(LT::And(vec![xo(), leq("description", "Hello")]))),
        ("utf8-sub-ci", T::L(LT::And(vec![xo(), lsub("description", Some("He"), &[], None)]))),
        ("mail-any-value", T::L(leq("mail", "xyz@y.org"))),
        ("uidnumber", T::L(leq("uidNumber", "2000"))),
        ("or-of-and", T::L(LT::Or(vec![LT::And(vec![leq("name", "aba"), leq("gidnumber", "2000")]), leq("cn", "vpm")]))),
        // rejected
        ("unsupported-ge", T::L(LT::Ge("gidnumber".into(), "2000".into()))),
        ("unsupported-ext-deep", T::L(LT::And(vec![xo(), LT::Or(vec![LT::Ext, leq("name", "aba")])]))),
        ("unknown-attr", T::L(leq("nonexist", "x"))),
        ("unreachable-alias", T::L(LT::Pres("pwdChangedTime".into()))),
        ("empty-substring", T::L(lsub("name", None, &[], None))),
        ("scim-ne", T::S(ST::Cmp("ne", "name".into(), false, JV::S("aba".into())))),
        ("scim-subattr", T::S(ST::Cmp("eq", "mail".into(), true, JV::S("x".into())))),
        ("scim-complex", T::S(ST::Complex)),
        ("spn-invalid-or", T::L(LT::Or(vec![leq("spn", "garbage"), leq("name", "aba")]))),
        // a starts-with and an ends-with term over the SAME attribute with the SAME value are different
        // assertions (seeded change: `FilterResolved::eq` merged Stw/Enw, `optimise()`'s dedup dropped one)
        ("swew-and", T::L(LT::And(vec![lsub("name", Some("ab"), &[], None), lsub("name", None, &[], Some("ab"))]))),
        ("swew-or", T::L(LT::Or(vec![lsub("name", Some("ab"), &[], None), lsub("name", None, &[], Some("ab"))]))),
        ("swew-or-rev", T::L(LT::Or(vec![lsub("cn", None, &[], Some("AB")), lsub("name", Some("ab"), &[], None)]))),
        ("swew-and-folded", T::L(LT::And(vec![xo(), LT::And(vec![lsub("name", None, &[], Some("ab")), lsub("name", Some("ab"), &[], None)])]))),
        ("swew-or-wrapped", T::L(do_search_wrap(LT::Or(vec![lsub("name", Some("ab"), &[], None), lsub("name", None, &[], Some("ab"))])))),
        ("swew-and-not", T::L(LT::And(vec![lsub("name", Some("ab"), &[], None), lnot(lsub("name", None, &[], Some("ab")))]))),
        ("swew-unindexed", T::L(LT::And(vec![xo(), LT::Or(vec![lsub("description", Some("ab"), &[], None), lsub("description", None, &[], Some("ab"))])]))),
        ("swco-or", T::L(LT::Or(vec![lsub("name", Some("xab"), &[], None), lsub("name", None, &["xab"], None)]))),
        ("ewco-and", T::L(LT::And(vec![lsub("name", None, &["ab"], None), lsub("name", None, &[], Some("ab"))]))),
        ("eqsw-or", T::L(LT::Or(vec![leq("name", "ab"), lsub("name", Some("ab"), &[], None)]))),
        ("swew-other-attr", T::L(LT::And(vec![lsub("name", Some("ab"), &[], None), lsub("description", None, &[], Some("ab"))]))),
        ("swew-other-value", T::L(LT::Or(vec![lsub("name", Some("ab"), &[], None), lsub("name", None, &[], Some("ba"))]))),
        // one substring assertion whose initial and final (and any) are the same string: exact on this
        // database only where no value overlaps; the others are C41-F1 today and unclassified once a component is lost
        ("sub-ini-eq-fin", T::L(lsub("name", Some("ab"), &[], Some("ab")))),
        ("sub-ini-eq-fin-desc", T::L(LT::And(vec![xo(), lsub("description", Some("ab"), &[], Some("ab"))]))),
        ("sub-ini-any-fin-same", T::L(lsub("name", Some("ab"), &["ab"], Some("ab")))),
        ("sub-any-eq-fin", T::L(lsub("name", None, &["ab"], Some("ab")))),
        ("sub-ini-eq-any", T::L(lsub("name", Some("ab"), &["ab"], None))),
        ("sub-ini-eq-fin-exact", T::L(lsub("name", Some("abc"), &[], Some("cab")))),
        ("scim-swew-and", T::S(sand(scmp("sw", "name", "ab"), scmp("ew", "name", "ab")))),
        ("scim-swew-or", T::S(sor(scmp("sw", "name", "ab"), scmp("ew", "name", "ab")))),
        ("scim-ewsw-or-case", T::S(sor(scmp("ew", "NAME", "AB"), scmp("sw", "name", "ab")))),
        ("scim-swew-and-folded", T::S(sand(scmp("eq", "class", "extensibleobject"), sand(scmp("ew", "name", "ab"), scmp("sw", "name", "ab"))))),
        ("scim-swew-and-not", T::S(sand(scmp("sw", "name", "ab"), snot(scmp("ew", "name", "ab"))))),
        ("scim-swew-desc", T::S(sand(scmp("eq", "class", "extensibleobject"), sor(scmp("sw", "description", "ab"), scmp("ew", "description", "ab"))))),
        ("scim-swco-or", T::S(sor(scmp("sw", "name", "xab"), scmp("co", "name", "xab")))),
    ]
}

/// exhaustive small scope over *same-value families*: every ordered pair of the five assertion kinds
/// (eq sw ew co pr) over one attribute and one value, in AND / OR / AND-NOT / folded-AND / OR-under-AND
/// lists, LDAP and SCIM; and every LDAP substring assertion whose components are drawn from {needle, other}
fn same_value_scope(thorough: bool) -> Vec<T> {
    let mut out = vec![];
    let attrs: &[(&str, &str, &str)] = if thorough {
        &[("name", "ab", "b"), ("description", "ab", "b"), ("displayname", "ab", "b"), ("mail", "ab", "b"), ("class", "object", "t")]
    } else {
        &[("name", "ab", "b"), ("description", "ab", "b"), ("class", "object", "t")]
    };
    let xo = || leq("class", "extensibleobject");
    for (a, v, other) in attrs {
        for x in FAM_OPS {
            for y in FAM_OPS {
                if x == y && (x == "pr" || !thorough) {
                    continue;
                }
                let (lx, ly) = (l_term(x, a, v), l_term(y, a, v));
                out.push(T::L(LT::And(vec![lx.clone(), ly.clone()])));
                out.push(T::L(LT::Or(vec![lx.clone(), ly.clone()])));
                out.push(T::L(LT::And(vec![lx.clone(), lnot(ly.clone())])));
                out.push(T::L(LT::And(vec![xo(), LT::And(vec![lx.clone(), ly.clone()])])));
                out.push(T::L(LT::And(vec![xo(), LT::Or(vec![lx.clone(), ly.clone()])])));
                if *a != "mail" {
                    let (sx, sy) = (s_term(x, a, v), s_term(y, a, v));
                    out.push(T::S(sand(sx.clone(), sy.clone())));
                    out.push(T::S(sor(sx.clone(), sy.clone())));
                    out.push(T::S(sand(sx.clone(), snot(sy.clone()))));
                    out.push(T::S(sand(scmp("eq", "class", "extensibleobject"), sand(sx.clone(), sy.clone()))));
                    out.push(T::S(sand(scmp("eq", "class", "extensibleobject"), sor(sx, sy))));
                }
            }
        }
        if *a == "class" {
            continue;
        }
        let comp: [Option<&str>; 3] = [None, Some(v), Some(other)];
        let anys: [&[&str]; 5] = [&[], &[v], &[v, v], &[other], &[v, other]];
        for i in comp {
            for f in comp {
                for any in anys {
                    if i.iter().count() + f.iter().count() + any.len() < 2 {
                        continue;
                    }
                    out.push(T::L(lsub(a, i, any, f)));
                }
            }
        }
    }
    out
}


/// nesting around the depth limit (12) and element counts around the budget (32)
fn limit_cases() -> Vec<T> {
    let mut out = vec![];
    for d in [10usize, 11, 12, 13] {
        let mut t = leq("name", "aba");
        for _ in 0..d {
            t = LT::And(vec![leq("class", "extensibleobject"), t]);
        }
        out.push(T::L(t));
        let mut s = scmp("eq", "name", "aba");
        for _ in 0..d {
            s = sand(scmp("eq", "class", "extensibleobject"), s);
        }
        out.push(T::S(s));
    }
    for n in [30usize, 31, 32, 33] {
        out.push(T::L(LT::Or((0..n).map(|i| leq("name", &format!("n{i}"))).collect())));
    }
    // the budget is consumed left to right: which error wins depends on the order
    out.push(T::L(LT::Or((0..40).map(|i| if i == 39 { leq("nonexist", "x") } else { leq("name", "aba") }).collect())));
    out.push(T::L(LT::Or((0..20).map(|i| if i == 5 { leq("nonexist", "x") } else { leq("name", "aba") }).collect())));
    out
}

fn small_scope(thorough: bool) -> Vec<T> {
    let leaves: Vec<LT> = vec![
        leq("name", "aba"),
        leq("class", "extensibleobject"),
        lsub("name", Some("ab"), &[], None),
        lsub("cn", None, &["b"], None),
        lsub("mail", None, &[], Some("x.com")),
        LT::Pres("mail".into()),
        leq("uidNumber", "2500"),
        leq("description", "ab"),
        lsub("name", Some("ab"), &[], Some("ba")),
        leq("authsession_expiry", "5"),
    ];
    let n = if thorough { leaves.len() } else { 7 };
    let leaves = &leaves[..n];
    let mut out = vec![];
    for x in leaves {
        out.push(T::L(x.clone()));
        out.push(T::L(lnot(x.clone())));
        for y in leaves {
            out.push(T::L(LT::And(vec![x.clone(), y.clone()])));
            out.push(T::L(LT::Or(vec![x.clone(), y.clone()])));
            out.push(T::L(LT::And(vec![x.clone(), lnot(y.clone())])));
            out.push(T::L(LT::Or(vec![x.clone(), lnot(y.clone())])));
            out.push(T::L(LT::And(vec![lnot(x.clone()), lnot(y.clone())])));
            if thorough {
                out.push(T::L(do_search_wrap(LT::And(vec![x.clone(), lnot(y.clone())]))));
                out.push(T::L(LT::And(vec![leq("class", "object"), LT::Or(vec![x.clone(), lnot(y.clone())])])));
            }
        }
    }
    let sl: Vec<ST> = vec![
        scmp("eq", "name", "aba"),
        scmp("eq", "class", "extensibleobject"),
        scmp("sw", "name", "ab"),
        scmp("co", "description", "b"),
        scmp("ew", "displayname", "b"),
        ST::Cmp("pr", "mail".into(), false, JV::Other),
        scmp("co", "class", "ext"),
    ];
    let n = if thorough { sl.len() } else { 5 };
    let sl = &sl[..n];
    for x in sl {
        out.push(T::S(x.clone()));
        out.push(T::S(snot(x.clone())));
        for y in sl {
            out.push(T::S(sand(x.clone(), y.clone())));
            out.push(T::S(sor(x.clone(), y.clone())));
            out.push(T::S(sand(x.clone(), snot(y.clone()))));
            out.push(T::S(sor(x.clone(), snot(y.clone()))));
            out.push(T::S(sand(snot(x.clone()), snot(y.clone()))));
        }
    }
    out
}

/// lower-cased attribute names of the tree that are outside the modelled schema slice
fn unknown_names(t: &T) -> Vec<String> {
    fn l(t: &LT, out: &mut Vec<String>) {
        match t {
            LT::And(v) | LT::Or(v) => v.iter().for_each(|x| l(x, out)),
            LT::Not(f) => l(f, out),
            LT::Eq(a, _) | LT::Sub(a, ..) | LT::Ge(a, _) | LT::Le(a, _) | LT::Pres(a) | LT::Approx(a, _) => {
                if atom_of(&ldap_attr(a)) == 99 {
                    out.push(a.to_lowercase());
                }
            }
            LT::Ext => {}
        }
    }
    fn s(t: &ST, out: &mut Vec<String>) {
        match t {
            ST::Cmp(_, a, _, _) => {
                if atom_of(&a.to_lowercase()) == 99 {
                    out.push(a.to_lowercase());
                }
            }
            ST::Not(f) => s(f, out),
            ST::And(a, b) | ST::Or(a, b) => {
                s(a, out);
                s(b, out);
            }
            ST::Complex => {}
        }
    }
    let mut out = vec![];
    match t {
        T::L(x) => l(x, &mut out),
        T::S(x) => s(x, &mut out),
    }
    out.sort();
    out.dedup();
    out
}

// ---------------------------------------------------------------------------------------------
// running a case

#[derive(Clone, Debug, PartialEq)]
enum Outcome {
    /// translation refused with this `OperationError`
    Rejected(String),
    /// translated (debug text) but `validate` refused
    Invalid(String, String),
    /// translated, valid, per-entry matches, search answer (sorted uuids) or search error
    /// (`mm`: resolved without index metadata = `fast_optimise`; `mmi`: resolved WITH the backend's index
    /// metadata = the full `optimise()`, what every search runs)
    Answer { text: String, mm: Vec<bool>, mmi: Vec<bool>, result: Result<Vec<Uuid>, String> },
}

struct Ctx<'a, 'b> {
    rep: Report,
    drv: Driver,
    ident: Identity,
    rd: &'a mut QueryServerReadTransaction<'b>,
    universe: Vec<Ent>,
    known_recorded: BTreeMap<String, u32>,
    model_fail_recorded: u32,
    /// (stratum, shrunk witness) of the recorded unclassified oracle failures
    unclassified_recorded: Vec<(String, String)>,
}

fn err_name(e: &OperationError) -> String {
    let s = format!("{e:?}");
    s.split('(').next().unwrap_or("").to_string()
}

impl<'a, 'b> Ctx<'a, 'b> {
    fn translate(&mut self, t: &T) -> Result<Filter<FilterInvalid>, OperationError> {
        match t {
            T::L(l) => Filter::from_ldap_ro(&self.ident, &to_ldap(l), self.rd),
            T::S(s) => Filter::from_scim_ro(&self.ident, &to_scim(s), self.rd),
        }
    }

    fn real(&mut self, t: &T) -> Outcome {
        let f = match self.translate(t) {
            Err(e) => return Outcome::Rejected(err_name(&e)),
            Ok(f) => f,
        };
        let mut text = format!("{f:?}").trim().strip_prefix("Filter(Invalid) ").unwrap_or("?").to_string();
        // the model interns every attribute outside its schema slice as one atom, printed `?`
        for n in unknown_names(t) {
            text = text.replace(&format!("{n} "), "? ");
        }
        let v = match f.validate(self.rd.get_schema()) {
            Err(e) => return Outcome::Invalid(text, format!("{e:?}")),
            Ok(v) => v,
        };
        let mm = match v.resolve(&self.ident, None, None) {
            Ok(res) => self.universe.iter().map(|e| e.real.entry_match_no_index(&res)).collect(),
            Err(_) => vec![],
        };
        let mmi: Vec<bool> = {
            let idxmeta = self.rd.get_be_txn().get_idxmeta_ref();
            match v.resolve(&self.ident, Some(idxmeta), None) {
                Ok(res) => self.universe.iter().map(|e| e.real.entry_match_no_index(&res)).collect(),
                Err(_) => vec![],
            }
        };
        // validate -> into_ignore_hidden -> search as the internal identity (no access control): the
        // steps `scim_search_filter_ext` and `SearchEvent::new_ext_impersonate_uuid` perform
        let spelled = match self.rd.search(&SearchEvent::new_internal(v.into_ignore_hidden())) {
            Ok(es) => {
                let mut us: Vec<Uuid> = es.iter().map(|e| e.get_uuid()).collect();
                us.sort();
                Ok(us)
            }
            Err(e) => Err(format!("{e:?}")),
        };
        // LDAP: the answer comes from the search event the gateway itself builds
        // (`SearchEvent::new_ext_impersonate_uuid`, through a hook, for the internal identity).
        // (`scim_search_filter_ext` refuses the internal identity and applies access control to any
        // other, so the SCIM answer is the spelled-out pipeline.)
        let result: Result<Vec<Uuid>, String> = match t {
            T::L(l) => match kanidmd_lib::verif_hooks::c41::ldap_search_event(self.rd, &to_ldap(l)) {
                Err(e) => Err(format!("{e:?}")),
                Ok(se) => match self.rd.search(&se) {
                    Ok(es) => {
                        let mut us: Vec<Uuid> = es.iter().map(|e| e.get_uuid()).collect();
                        us.sort();
                        Ok(us)
                    }
                    Err(e) => Err(format!("{e:?}")),
                },
            },
            T::S(_) => spelled.clone(),
        };
        if spelled != result {
            self.model_fail("pipeline", t, format!("validate -> into_ignore_hidden -> search (what the model composes): {spelled:?}"), format!("production entry point: {result:?}"));
        }
        Outcome::Answer { text, mm, mmi, result }
    }

    fn expected(&self, t: &T, var: Variant) -> Vec<Uuid> {
        let mut want: Vec<Uuid> = self.universe.iter().filter(|e| !e.hidden && eval(t, &e.plain, var)).map(|e| e.uuid).collect();
        want.sort();
        want
    }

    /// the oracle on one tree: None = the property holds
    fn oracle(&mut self, t: &T) -> Option<(String, String)> {
        match self.real(t) {
            // refused, explicitly: allowed
            Outcome::Rejected(_) | Outcome::Invalid(..) | Outcome::Answer { result: Err(_), .. } => None,
            Outcome::Answer { result: Ok(got), .. } => {
                let want = self.expected(t, Variant::Std);
                if got == want {
                    None
                } else {
                    Some((self.uu_text(&want), self.uu_text(&got)))
                }
            }
        }
    }

    fn uu_text(&self, v: &[Uuid]) -> String {
        if v.is_empty() {
            return "[]".into();
        }
        let names: Vec<String> = v
            .iter()
            .map(|u| self.universe.iter().find(|e| e.uuid == *u).and_then(|e| e.plain.get("name").and_then(|n| n.first().cloned())).unwrap_or_else(|| u.as_hyphenated().to_string()))
            .collect();
        if names.len() > 24 {
            format!("[{} entries: {} ...]", names.len(), names[..24].join(","))
        } else {
            format!("[{}]", names.join(","))
        }
    }

    /// class of a (minimised) witness: a known class only if the shape is there AND accounting for
    /// the named deviation makes the implementation agree with the oracle
    fn classify(&mut self, t: &T) -> String {
        let got = match self.real(t) {
            Outcome::Answer { result: Ok(g), .. } => g,
            _ => return "unclassified".into(),
        };
        match t {
            T::L(l) => {
                if l_multi_sub(l) && got == self.expected(t, Variant::SubIndependent) {
                    return "C41-F1:ldap-substring-terms-independent".into();
                }
                if l_isolated_not(l, false) && self.oracle(&T::L(l_guard(l))).is_none() {
                    return "D1:isolated-not".into();
                }
            }
            T::S(s) => {
                if s_isolated_not(s, false) && self.oracle(&T::S(s_guard(s))).is_none() {
                    return "D1:isolated-not".into();
                }
                if s_empty_needle(s) && self.oracle(&T::S(s_fill(s))).is_none() {
                    return "C01-F2:empty-substring-needle".into();
                }
                if s_empty_needle(s) && s_isolated_not(s, false) && self.oracle(&T::S(s_guard(&s_fill(s)))).is_none() {
                    return "C01-F2:empty-substring-needle".into();
                }
            }
        }
        "unclassified".into()
    }

    fn model_fail(&mut self, what: &str, t: &T, expected: String, observed: String) {
        self.rep.count(&format!("model-disagreement:{what}"));
        if self.model_fail_recorded >= 6 {
            return;
        }
        self.model_fail_recorded += 1;
        let (proto, text) = replay_text(t);
        self.rep.fail(Failure {
            kind: "impl-vs-model".into(),
            class: format!("model:{what}"),
            input: json!({"proto": proto, "t": text, "pretty": pretty(t)}),
            expected,
            observed,
        });
    }

    fn run(&mut self, t: &T, stratum: &str) {
        let out = self.real(t);
        // ---- correspondence with the model
        let (tr_cmd, mm_cmd, sem_cmd, body) = match t {
            T::L(l) => ("ldap 32", "lmm 32", "lsem", show_l(l)),
            T::S(s) => ("scim 32", "smm 32", "ssem", show_s(s)),
        };
        let m_tr = self.drv.ask(&format!("{tr_cmd} | {body}"));
        let real_tr = match &out {
            Outcome::Rejected(e) => format!("err {e}"),
            Outcome::Invalid(text, _) => format!("ok 0 {text}"),
            Outcome::Answer { text, .. } => format!("ok 1 {text}"),
        };
        if m_tr != real_tr {
            self.model_fail("tr", t, format!("model: {m_tr}"), format!("real: {real_tr}"));
        }
        if let Outcome::Answer { mm, mmi, .. } = &out {
            let m_mm = self.drv.ask(&format!("{mm_cmd} | {body}"));
            let real_mm: String = mm.iter().map(|b| if *b { '1' } else { '0' }).collect();
            if m_mm != real_mm {
                self.model_fail("mm", t, format!("model matches {m_mm}"), format!("real matches {real_mm}"));
            }
            // the same through the full optimiser (resolved with index metadata, as `search` does)
            let real_mmi: String = mmi.iter().map(|b| if *b { '1' } else { '0' }).collect();
            if m_mm != real_mmi {
                self.model_fail("mm-optimised", t, format!("model matches {m_mm}"), format!("real matches of the filter resolved with index metadata + optimise() {real_mmi}"));
            }
            // the Lean reference semantics against the oracle's evaluator
            let m_sem = self.drv.ask(&format!("{sem_cmd} | {body}"));
            let o_sem: String = self.universe.iter().map(|e| if eval(t, &e.plain, Variant::Std) { '1' } else { '0' }).collect();
            if m_sem != o_sem {
                self.model_fail("sem", t, format!("reference semantics of the model {m_sem}"), format!("oracle evaluator {o_sem}"));
            }
        }
        // ---- the oracle, on the implementation's own output
        let visible = self.universe.iter().filter(|e| !e.hidden).count();
        let (kind, nontrivial) = match &out {
            Outcome::Rejected(e) => (format!("rejected:{e}"), false),
            Outcome::Invalid(_, e) => (format!("invalid:{}", e.split('(').next().unwrap_or("")), false),
            Outcome::Answer { result: Err(e), .. } => (format!("search-error:{e}"), false),
            Outcome::Answer { result: Ok(got), .. } => {
                let want = self.expected(t, Variant::Std);
                let nt = !want.is_empty() && want.len() < visible;
                if *got != want {
                    self.violation(t, stratum);
                    ("answered:deviates".to_string(), nt)
                } else {
                    ("answered:exact".to_string(), nt)
                }
            }
        };
        self.rep.count(&kind);
        self.rep.count(&format!("stratum:{stratum}"));
        self.rep.count(match t {
            T::L(_) => "proto:ldap",
            T::S(_) => "proto:scim",
        });
        let key = replay_text(t);
        self.rep.case(if nontrivial { Some(format!("{}|{}", key.0, key.1)) } else { None });
        if self.rep.evaluations % 499 == 7 {
            self.rep.sample(json!({"filter": pretty(t), "outcome": kind}));
        }
    }

    fn violation(&mut self, t: &T, stratum: &str) {
        let class0 = self.classify(t);
        if class0 != "unclassified" && self.known_recorded.get(&class0).copied().unwrap_or(0) >= 3 {
            self.rep.count(&format!("known:{class0}"));
            return;
        }
        // shrink
        let mut cur = t.clone();
        let mut budget = 150;
        'outer: loop {
            for cand in shrinks(&cur) {
                if budget == 0 {
                    break 'outer;
                }
                budget -= 1;
                if self.oracle(&cand).is_some() {
                    cur = cand;
                    continue 'outer;
                }
            }
            break;
        }
        let class = self.classify(&cur);
        let (want, got) = self.oracle(&cur).unwrap_or_default();
        if class != "unclassified" {
            self.rep.count(&format!("known:{class}"));
            let n = self.known_recorded.entry(class.clone()).or_insert(0);
            *n += 1;
            if *n > 3 {
                // enough witnesses of this known class are in the report
                return;
            }
        }
        let (proto, text) = replay_text(&cur);
        if class == "unclassified" {
            // every deviation is counted; a shrunk witness is recorded once, at most 4 per stratum (the
            // remaining cases keep running: the strata are evidence of which generator reaches the defect)
            self.rep.count(&format!("unclassified:{stratum}"));
            let per = self.unclassified_recorded.iter().filter(|(s, _)| s == stratum).count();
            if per >= 4 || self.unclassified_recorded.iter().any(|(_, w)| *w == text) {
                return;
            }
            self.unclassified_recorded.push((stratum.to_string(), text.clone()));
        }
        self.rep.fail(Failure {
            kind: "impl-vs-oracle".into(),
            class,
            input: json!({"proto": proto, "t": text, "pretty": pretty(&cur), "stratum": stratum, "original": pretty(t)}),
            expected: format!("rejected, or exactly the visible entries the standard selects: {want}"),
            observed: format!("answered {got}"),
        });
    }
}

fn main() {
    let args = Args::parse();
    let rt = tokio::runtime::Builder::new_current_thread().enable_all().build().unwrap();
    rt.block_on(async {
        let qs = setup_test(TestConfiguration::default()).await;
        {
            let mut w = qs.write(duration_from_epoch_now()).await.expect("write txn");
            w.internal_create(population()).expect("create population");
            w.commit().expect("commit population");
            let mut w = qs.write(duration_from_epoch_now()).await.expect("write txn");
            w.internal_delete_uuid(nat_uuid(1014)).expect("recycle");
            w.commit().expect("commit recycle");
        }
        let mut rd = qs.read().await.expect("read txn");
        let entry = rd.internal_search_uuid(UUID_IDM_ADMIN).expect("idm_admin");
        // bounded default limits: the element budget (32) is observable
        let ident = kanidmd_lib::verif_hooks::c41::ident_default_limits(entry);
        let mut rep = Report::new(
            "proto-filter",
            "LDAP (ldap3_proto::LdapFilter) and SCIM (ScimFilter) trees through the real from_ldap_ro / from_scim_ro -> validate -> \
             into_ignore_hidden -> search on a migrated in-memory server (builtin entries + 17 extensibleobject entries, one recycled); strata: \
             regression corpus, depth/element limits, exhaustive depth<=2 over 7/10 LDAP and 5/7 SCIM leaves, exhaustive same-value families \
             (every ordered pair of eq/sw/ew/co/pr over one attribute and one value in and/or/and-not/folded lists, LDAP and SCIM; every LDAP \
             substring assertion with components from {needle, other}), random trees depth<=4 (aliases, mixed case, 1-3 component substrings, \
             repeated-fragment substrings, same-value families, all operators, unknown attributes, invalid values), do_search-wrapped trees. \
             non-trivial = accepted AND the standard answer is a non-empty strict subset of the visible entries; distinct = distinct tree",
        );
        // ---- the model's schema slice must be the real one
        let mut schema_ok = true;
        {
            let schema = rd.get_schema();
            for (name, syn, multi, _) in ATTRS.iter() {
                match schema.get_attributes().get(&Attribute::from(*name)) {
                    Some(a) => {
                        if a.syntax as u32 != *syn || a.multivalue != *multi {
                            schema_ok = false;
                            rep.fail(Failure {
                                kind: "impl-vs-model".into(),
                                class: "model:schema".into(),
                                input: json!({"attribute": name}),
                                expected: format!("syntax id {syn}, multivalue {multi}"),
                                observed: format!("syntax id {}, multivalue {}", a.syntax as u32, a.multivalue),
                            });
                        }
                    }
                    None => {
                        schema_ok = false;
                        rep.fail(Failure { kind: "impl-vs-model".into(), class: "model:schema".into(), input: json!({"attribute": name}), expected: "attribute exists".into(), observed: "missing".into() });
                    }
                }
            }
        }
        // ---- the universe
        let all = rd.internal_search(Filter::new(FC::Pres(Attribute::Class))).expect("full scan");
        let mut universe = vec![];
        for e in all {
            let p = plain_of(&e);
            let hidden = p.get("class").map(|c| c.iter().any(|x| x == "recycled" || x == "tombstone")).unwrap_or(false);
            universe.push(Ent { uuid: e.get_uuid(), hidden, plain: p, real: e });
        }
        let hidden_n = universe.iter().filter(|e| e.hidden).count();
        rep.note(format!("database: {} entries, {} hidden", universe.len(), hidden_n));
        let drv = Driver::spawn(&args.driver);
        let mut ctx = Ctx { rep, drv, ident, rd: &mut rd, universe, known_recorded: BTreeMap::new(), model_fail_recorded: 0, unclassified_recorded: vec![] };
        let ents_line = format!("ents | {}", ctx.universe.iter().map(|e| model_entry(&e.plain)).collect::<Vec<_>>().join(";"));
        let r = ctx.drv.ask(&ents_line);
        if r != format!("ok {}", ctx.universe.len()) {
            ctx.rep.fail(Failure { kind: "impl-vs-model".into(), class: "model:ents".into(), input: json!({}), expected: "universe accepted".into(), observed: r });
        }
        if hidden_n != 1 || !schema_ok {
            ctx.rep.fail(Failure { kind: "impl-vs-model".into(), class: "model:setup".into(), input: json!({}), expected: "one recycled entry, schema as modelled".into(), observed: format!("{hidden_n} hidden, schema_ok={schema_ok}") });
        }

        if let Some(path) = &args.replay {
            let v: Json = serde_json::from_str(&std::fs::read_to_string(path).unwrap()).unwrap();
            let toks = sx_tokens(v["input"]["t"].as_str().unwrap());
            let mut i = 0;
            let t = if v["input"]["proto"] == "scim" { T::S(parse_s(&toks, &mut i)) } else { T::L(parse_l(&toks, &mut i)) };
            ctx.run(&t, "replay");
        } else {
            for (label, t) in corpus() {
                ctx.rep.count(&format!("corpus:{label}"));
                ctx.run(&t, "corpus");
            }
            for t in limit_cases() {
                ctx.run(&t, "limits");
            }
            for t in small_scope(args.thorough()) {
                ctx.run(&t, "small-scope");
            }
            for t in same_value_scope(args.thorough()) {
                ctx.run(&t, "same-value");
            }
            let nrand = args.cases(2500, 120_000).min(900_000);
            for i in 0..nrand {
                let mut r = Rng::for_case(args.seed, i);
                let (dmax, wmax) = (*r.pick(&[1usize, 2, 2, 3, 3, 4]), *r.pick(&[2usize, 2, 3, 3]));
                let t = match r.below(10) {
                    0..=4 => T::L(l_tree(&mut r, dmax, wmax)),
                    5 => T::L(do_search_wrap(l_tree(&mut r, dmax.min(3), wmax))),
                    _ => T::S(s_tree(&mut r, dmax)),
                };
                ctx.run(&t, "random");
            }
            ctx.rep.exhaustive = true;
        }
        ctx.rep.model_requests = ctx.drv.requests;
        ctx.rep.write(&args.out);
        println!("c41: {} cases, {} distinct non-trivial, {} failures", ctx.rep.evaluations, ctx.rep.nontrivial_keys.len(), ctx.rep.failures.len());
    });
}
