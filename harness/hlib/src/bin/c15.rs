//! C15 — every stored entry satisfies the schema. Stream `schema-validate` (unit level).
//!
//! Per case a random schema (attribute definitions with syntax / multivalue / phantom, classes with
//! systemmust / must / systemmay / may / supplements / excludes, now and then inconsistent) is loaded
//! into a real `kanidmd_lib::schema::Schema` (`update_attributes` / `update_classes`), a random entry
//! (mostly valid; wrong cardinality, wrong value type, invalid values, missing required attributes,
//! attributes no class allows, phantom attributes, unknown / conflicting / unsupplemented classes,
//! no class, ill-typed class, missing or double uuid, conflict / recycled / extensible entries) is
//! built through the public entry API, given replication metadata (`assign_cid`, as `create` does)
//! and passed to the real `Entry<EntryInvalid,_>::validate`.
//!
//! * correspondence: the reply (Ok or the `SchemaError` variant with its payload) equals the Lean
//!   model's `validateInvalid` on the same schema and the entry as it stands after `assign_cid`
//!   (read back from the real entry, in the real map order); per-value validity is supplied by the
//!   harness (the values are valid / invalid by construction, see `mk_values`).
//! * oracle (written from the property text over the harness's own description of schema and entry,
//!   string names, never the model): the entry is accepted iff it has a single uuid, a class, and —
//!   unless it is a conflict entry — only known classes, a satisfied supplements / excludes rule,
//!   every required attribute (recycled entries exempt), only allowed attributes (extensible
//!   objects: any defined non-phantom attribute), at most one value on single-valued attributes,
//!   and only values of the attribute's syntax that are valid for it.
//!
//! `--replay FILE` re-runs the case stored in the replay's `input` (`{"seed":..,"case":..}`).
use hlib::*;
use kanidmd_lib::entry::{Entry, EntryInit, EntryNew};
use kanidmd_lib::prelude::*;
use kanidmd_lib::schema::{Schema, SchemaAttribute, SchemaClass, SchemaTransaction};
use kanidmd_lib::valueset::{self, ValueSet};
use serde_json::json;
use std::collections::BTreeMap;
use std::time::Duration;

#[derive(Clone, Debug)]
struct AttrDef {
    name: String,
    syntax: SyntaxType,
    multivalue: bool,
    phantom: bool,
}

#[derive(Clone, Debug, Default)]
struct ClassDef {
    name: String,
    lists: [Vec<String>; 8], // systemmust must systemmay may systemsupplements supplements systemexcludes excludes
}

/// harness-side description of one attribute of the entry
#[derive(Clone, Debug)]
struct AvaDesc {
    attr: String,
    /// the value type actually used
    syntax: SyntaxType,
    /// one flag per value: valid for `syntax` by construction
    valid: Vec<bool>,
    /// class names, when this is a (well-typed) class attribute
    strings: Vec<String>,
}

const SYNTAXES: [SyntaxType; 7] = [
    SyntaxType::Utf8StringInsensitive,
    SyntaxType::Utf8String,
    SyntaxType::Utf8StringIname,
    SyntaxType::Uuid,
    SyntaxType::Boolean,
    SyntaxType::Uint32,
    SyntaxType::ReferenceUuid,
];

fn syn_id(s: SyntaxType) -> u64 {
    match s {
        SyntaxType::Utf8StringInsensitive => 0,
        SyntaxType::Uuid => 1,
        SyntaxType::Cid => 2,
        SyntaxType::Utf8String => 10,
        SyntaxType::Utf8StringIname => 11,
        SyntaxType::Boolean => 12,
        SyntaxType::Uint32 => 13,
        SyntaxType::ReferenceUuid => 14,
        _ => 99,
    }
}

/// `n` values of type `syn`; value i is valid iff `valid[i]` (only string syntaxes have invalid values)
fn mk_values(syn: SyntaxType, valid: &[bool], salt: u64) -> Vec<Value> {
    valid
        .iter()
        .enumerate()
        .map(|(i, ok)| {
            let k = salt * 16 + i as u64;
            match syn {
                // invalid: a line break (the first value of a set is lower-cased by the constructor, so
                // upper case would not survive)
                SyntaxType::Utf8StringInsensitive => Value::Iutf8(if *ok { format!("v{k}") } else { format!("v{k}\nx") }),
                // invalid: a line break
                SyntaxType::Utf8String => Value::Utf8(if *ok { format!("Text {k}") } else { format!("two\nlines {k}") }),
                // invalid: a space is outside the iname alphabet
                SyntaxType::Utf8StringIname => Value::Iname(if *ok { format!("name{k}") } else { format!("bad name{k}") }),
                SyntaxType::Uuid => Value::Uuid(nat_uuid(0x1500_0000 + k)),
                SyntaxType::Boolean => Value::Bool(i % 2 == 0),
                SyntaxType::Uint32 => Value::Uint32(k as u32),
                SyntaxType::ReferenceUuid => Value::Refer(nat_uuid(0x1500_0000 + k)),
                _ => unreachable!(),
            }
        })
        .collect()
}

fn has_invalid(syn: SyntaxType) -> bool {
    matches!(syn, SyntaxType::Utf8StringInsensitive | SyntaxType::Utf8String | SyntaxType::Utf8StringIname)
}

struct Case {
    attrs: Vec<AttrDef>,
    classes: Vec<ClassDef>,
    entry: Vec<AvaDesc>,
}

fn a_class() -> String { Attribute::Class.as_str().to_string() }
fn a_uuid() -> String { Attribute::Uuid.as_str().to_string() }
fn a_lm() -> String { Attribute::LastModifiedCid.as_str().to_string() }
fn a_ca() -> String { Attribute::CreatedAtCid.as_str().to_string() }
fn a_su() -> String { Attribute::SourceUuid.as_str().to_string() }
fn c_name(c: EntryClass) -> String { let s: &str = c.into(); s.to_string() }

fn gen_case(rng: &mut Rng, heavy: bool) -> Case {
    let nattr = 8usize;
    let ncls = 5usize;
    let mut attrs = vec![];
    // the attributes the check itself names
    let specials: [(String, SyntaxType, bool); 5] = [
        (a_class(), SyntaxType::Utf8StringInsensitive, true),
        (a_uuid(), SyntaxType::Uuid, false),
        (a_lm(), SyntaxType::Cid, false),
        (a_ca(), SyntaxType::Cid, false),
        (a_su(), SyntaxType::Uuid, true),
    ];
    for (n, syn, mv) in specials.iter() {
        // now and then the schema lacks or bends one of them
        let r = rng.below(100);
        if r < 2 {
            continue;
        }
        let (syn, mv) = if r < 4 { (SyntaxType::Utf8String, *mv) } else if r < 6 { (*syn, !*mv) } else { (*syn, *mv) };
        attrs.push(AttrDef { name: n.clone(), syntax: syn, multivalue: mv, phantom: r == 6 });
    }
    for i in 0..nattr {
        attrs.push(AttrDef {
            name: format!("c15a{i}"),
            syntax: *rng.pick(&SYNTAXES),
            multivalue: rng.chance(1, 2),
            phantom: rng.chance(if heavy { 1 } else { 1 }, 8),
        });
    }
    let custom_attr = |rng: &mut Rng| {
        let extra = if rng.chance(1, 30) { 2 } else { 0 };
        format!("c15a{}", rng.below(nattr as u64 + extra))
    };
    let all_classes: Vec<String> = [EntryClass::Conflict, EntryClass::Recycled, EntryClass::ExtensibleObject, EntryClass::Object, EntryClass::Tombstone]
        .into_iter()
        .map(c_name)
        .chain((0..ncls).map(|i| format!("c15c{i}")))
        .collect();
    let mut classes = vec![];
    // object: what the shipped schema says, sometimes without the cid attributes
    let mut object = ClassDef { name: c_name(EntryClass::Object), ..Default::default() };
    // the shipped `object`: class, uuid and the two cid attributes are required
    match rng.below(12) {
        0 => {
            object.lists[0] = vec![a_class(), a_uuid()];
            object.lists[2] = vec![a_lm(), a_ca(), a_su()];
        }
        1 => {
            object.lists[0] = vec![a_class(), a_uuid()];
            object.lists[2] = vec![a_su()];
        }
        _ => {
            object.lists[0] = vec![a_class(), a_uuid(), a_lm(), a_ca()];
            object.lists[2] = vec![a_su()];
        }
    }
    classes.push(object);
    for c in [EntryClass::Conflict, EntryClass::Recycled, EntryClass::ExtensibleObject, EntryClass::Tombstone] {
        if !rng.chance(1, 25) {
            classes.push(ClassDef { name: c_name(c), ..Default::default() });
        }
    }
    for i in 0..ncls {
        let mut c = ClassDef { name: format!("c15c{i}"), ..Default::default() };
        for k in 0..4 {
            let n = match k {
                0 => rng.below(3),
                1 => rng.below(2),
                _ => rng.below(4),
            };
            for _ in 0..n {
                let a = custom_attr(rng);
                if !c.lists[k].contains(&a) {
                    c.lists[k].push(a);
                }
            }
        }
        for k in 4..8 {
            if rng.chance(1, if heavy { 5 } else { 8 }) {
                let n = rng.range(1, 2);
                for _ in 0..n {
                    let t = rng.pick(&all_classes).clone();
                    if t != c.name && !c.lists[k].contains(&t) {
                        c.lists[k].push(t);
                    }
                }
            }
        }
        classes.push(c);
    }
    // ---- the entry
    let mut entry: Vec<AvaDesc> = vec![];
    let mut ecls: Vec<String> = vec![];
    if !rng.chance(1, 10) {
        ecls.push(c_name(EntryClass::Object));
    }
    let n = rng.range(1, 2);
    for _ in 0..n {
        let c = format!("c15c{}", rng.below(ncls as u64));
        if !ecls.contains(&c) {
            ecls.push(c);
        }
    }
    let r = rng.below(100);
    if r < 4 {
        ecls.push(c_name(EntryClass::Conflict));
    } else if r < 10 {
        ecls.push(c_name(EntryClass::Recycled));
    } else if r < 16 {
        ecls.push(c_name(EntryClass::ExtensibleObject));
    } else if r < 19 {
        ecls.push("c15unknown".to_string());
    } else if r < 21 {
        ecls.push(c_name(EntryClass::Tombstone));
    }
    // satisfy supplements most of the time
    let find = |n: &str| classes.iter().find(|c| c.name == n);
    if !rng.chance(1, 6) {
        let supp: Vec<String> = ecls.iter().filter_map(|c| find(c)).flat_map(|c| c.lists[4].iter().chain(c.lists[5].iter()).cloned()).collect();
        if !supp.is_empty() && !supp.iter().any(|s| ecls.contains(s)) {
            ecls.push(supp[rng.below(supp.len() as u64) as usize].clone());
        }
    }
    let r = rng.below(100);
    if r < 2 {
        // no class attribute at all
    } else if r < 4 {
        // ill-typed class attribute
        entry.push(AvaDesc { attr: a_class(), syntax: SyntaxType::Utf8String, valid: vec![true; ecls.len().max(1)], strings: vec![] });
    } else {
        entry.push(AvaDesc { attr: a_class(), syntax: SyntaxType::Utf8StringInsensitive, valid: vec![true; ecls.len()], strings: ecls.clone() });
    }
    let r = rng.below(100);
    if r < 2 {
    } else if r < 4 {
        entry.push(AvaDesc { attr: a_uuid(), syntax: SyntaxType::Uuid, valid: vec![true, true], strings: vec![] });
    } else if r < 6 {
        entry.push(AvaDesc { attr: a_uuid(), syntax: SyntaxType::ReferenceUuid, valid: vec![true], strings: vec![] });
    } else {
        entry.push(AvaDesc { attr: a_uuid(), syntax: SyntaxType::Uuid, valid: vec![true], strings: vec![] });
    }
    let adef = |n: &str| attrs.iter().find(|a| a.name == n).cloned();
    let mut want: Vec<String> = vec![];
    for c in ecls.iter().filter_map(|c| find(c)) {
        for a in c.lists[0].iter().chain(c.lists[1].iter()) {
            if !rng.chance(1, if heavy { 8 } else { 14 }) {
                want.push(a.clone());
            }
        }
        for a in c.lists[2].iter().chain(c.lists[3].iter()) {
            if rng.chance(1, 2) {
                want.push(a.clone());
            }
        }
    }
    if rng.chance(1, if heavy { 5 } else { 9 }) {
        want.push(custom_attr(rng));
    }
    if rng.chance(1, 20) {
        want.push(a_su());
    }
    for (i, a) in want.iter().enumerate() {
        if entry.iter().any(|x| &x.attr == a) || *a == a_lm() || *a == a_ca() || *a == a_class() || *a == a_uuid() {
            continue;
        }
        let (syn, mv) = match adef(a) {
            Some(d) => (d.syntax, d.multivalue),
            None => (*rng.pick(&SYNTAXES), true),
        };
        let syn = if !SYNTAXES.contains(&syn) { SyntaxType::Utf8String } else { syn };
        let used = if rng.chance(1, if heavy { 10 } else { 16 }) { *rng.pick(&SYNTAXES) } else { syn };
        let n = if mv { rng.range(1, 3) } else if rng.chance(1, if heavy { 6 } else { 12 }) { 2 } else { 1 } as usize;
        // a bool set holds at most two distinct values
        let n = if used == SyntaxType::Boolean { n.min(2) } else { n };
        let valid: Vec<bool> = (0..n).map(|_| !(has_invalid(used) && rng.chance(1, if heavy { 8 } else { 14 }))).collect();
        let _ = i;
        entry.push(AvaDesc { attr: a.clone(), syntax: used, valid, strings: vec![] });
    }
    Case { attrs, classes, entry }
}

/// the property's statement evaluated on the harness's own description
fn oracle_accepts(case: &Case, cid_attrs: bool) -> bool {
    let get = |n: &str| case.entry.iter().find(|a| a.attr == n);
    // single uuid
    match get(&a_uuid()) {
        Some(u) if u.syntax == SyntaxType::Uuid && u.valid.len() == 1 => {}
        _ => return false,
    }
    let cls = match get(&a_class()) {
        Some(c) if c.syntax == SyntaxType::Utf8StringInsensitive => &c.strings,
        _ => return false,
    };
    if cls.contains(&c_name(EntryClass::Conflict)) {
        return true;
    }
    let mut defs = vec![];
    for c in cls {
        match case.classes.iter().find(|d| &d.name == c) {
            Some(d) => defs.push(d),
            None => return false,
        }
    }
    let supp: Vec<&String> = defs.iter().flat_map(|d| d.lists[4].iter().chain(d.lists[5].iter())).collect();
    if !supp.is_empty() && !supp.iter().any(|s| cls.contains(s)) {
        return false;
    }
    if defs.iter().flat_map(|d| d.lists[6].iter().chain(d.lists[7].iter())).any(|x| cls.contains(x)) {
        return false;
    }
    let adef = |n: &str| case.attrs.iter().find(|a| a.name == n);
    let required: Vec<&String> = defs.iter().flat_map(|d| d.lists[0].iter().chain(d.lists[1].iter())).collect();
    // a class naming an attribute the schema does not define: the schema itself is broken, refuse
    if required.iter().any(|a| adef(a).is_none()) {
        return false;
    }
    let recycled = cls.contains(&c_name(EntryClass::Recycled));
    let mut present: Vec<String> = case.entry.iter().map(|a| a.attr.clone()).collect();
    if cid_attrs {
        present.push(a_lm());
        present.push(a_ca());
    }
    if !recycled && required.iter().any(|a| !present.contains(a)) {
        return false;
    }
    let extensible = cls.contains(&c_name(EntryClass::ExtensibleObject));
    let allowed: Vec<&String> = defs.iter().flat_map(|d| d.lists[0].iter().chain(d.lists[1].iter()).chain(d.lists[2].iter()).chain(d.lists[3].iter())).collect();
    if !extensible && allowed.iter().any(|a| adef(a).is_none()) {
        return false;
    }
    let mut avas: Vec<(String, SyntaxType, Vec<bool>)> = case.entry.iter().map(|a| (a.attr.clone(), a.syntax, a.valid.clone())).collect();
    if cid_attrs {
        avas.push((a_lm(), SyntaxType::Cid, vec![true]));
        avas.push((a_ca(), SyntaxType::Cid, vec![true]));
    }
    for (a, syn, valid) in avas.iter() {
        let d = match adef(a) {
            Some(d) => d,
            None => return false,
        };
        if extensible {
            if d.phantom {
                return false;
            }
        } else if !allowed.contains(&a) {
            return false;
        }
        if !d.multivalue && valid.len() > 1 {
            return false;
        }
        if d.syntax != *syn || valid.iter().any(|v| !v) {
            return false;
        }
    }
    true
}

struct Atoms {
    attr: BTreeMap<String, u64>,
    cls: BTreeMap<String, u64>,
}

impl Atoms {
    fn new() -> Atoms {
        let mut attr = BTreeMap::new();
        for (i, n) in [a_class(), a_uuid(), a_lm(), a_ca(), a_su()].into_iter().enumerate() {
            attr.insert(n, i as u64);
        }
        let mut cls = BTreeMap::new();
        for (i, c) in [EntryClass::Conflict, EntryClass::Recycled, EntryClass::ExtensibleObject, EntryClass::Object, EntryClass::Tombstone].into_iter().enumerate() {
            cls.insert(c_name(c), i as u64);
        }
        Atoms { attr, cls }
    }
    fn a(&mut self, n: &str) -> u64 {
        let k = self.attr.len() as u64 + 11;
        *self.attr.entry(n.to_string()).or_insert(k)
    }
    fn c(&mut self, n: &str) -> u64 {
        let k = self.cls.len() as u64 + 11;
        *self.cls.entry(n.to_string()).or_insert(k)
    }
    fn attr_name(&self, id: u64) -> String {
        self.attr.iter().find(|(_, v)| **v == id).map(|(k, _)| k.clone()).unwrap_or(format!("?{id}"))
    }
    fn cls_name(&self, id: u64) -> String {
        self.cls.iter().find(|(_, v)| **v == id).map(|(k, _)| k.clone()).unwrap_or(format!("?{id}"))
    }
}

fn list(ids: Vec<u64>) -> String {
    if ids.is_empty() { "-".into() } else { ids.iter().map(|i| i.to_string()).collect::<Vec<_>>().join(",") }
}

/// canonical text of a real reply, names as strings
fn show_real(r: &Result<(), SchemaError>) -> String {
    match r {
        Ok(()) => "ok".into(),
        Err(SchemaError::NoClassFound) => "err NoClassFound -".into(),
        Err(SchemaError::InvalidClass(l)) => format!("err InvalidClass {}", if l.is_empty() { "-".into() } else { l.join(",") }),
        Err(SchemaError::SupplementsNotSatisfied(l)) => format!("err SupplementsNotSatisfied {}", if l.is_empty() { "-".into() } else { l.join(",") }),
        Err(SchemaError::ExcludesNotSatisfied(l)) => format!("err ExcludesNotSatisfied {}", if l.is_empty() { "-".into() } else { l.join(",") }),
        Err(SchemaError::Corrupted) => "err Corrupted -".into(),
        Err(SchemaError::MissingMustAttribute(l)) => format!("err MissingMustAttribute {}", if l.is_empty() { "-".into() } else { l.iter().map(|a| a.as_str().to_string()).collect::<Vec<_>>().join(",") }),
        Err(SchemaError::PhantomAttribute(a)) => format!("err PhantomAttribute {a}"),
        Err(SchemaError::InvalidAttribute(a)) => format!("err InvalidAttribute {a}"),
        Err(SchemaError::AttributeNotValidForClass(a)) => format!("err AttributeNotValidForClass {a}"),
        Err(SchemaError::InvalidAttributeSyntax(a)) => format!("err InvalidAttributeSyntax {a}"),
        Err(e) => format!("err other {e:?}"),
    }
}

/// the model's reply with atoms turned back into names
fn show_model(reply: &str, at: &Atoms) -> String {
    let p: Vec<&str> = reply.split(' ').collect();
    if p.len() != 3 || p[0] != "err" {
        return reply.to_string();
    }
    let is_cls = matches!(p[1], "InvalidClass" | "SupplementsNotSatisfied" | "ExcludesNotSatisfied");
    let payload = if p[2] == "-" {
        "-".to_string()
    } else {
        p[2].split(',')
            .map(|x| {
                let id: u64 = x.parse().unwrap_or(u64::MAX);
                if is_cls { at.cls_name(id) } else { at.attr_name(id) }
            })
            .collect::<Vec<_>>()
            .join(",")
    };
    format!("err {} {}", p[1], payload)
}

struct Outcome {
    real: String,
    model: String,
    /// accepted entries: `validate` of the sealed entry, real and model
    seal_real: String,
    seal_model: String,
    oracle_accepts: bool,
    lines: Vec<String>,
}

fn run_case(case: &Case, drv: &mut Driver) -> Outcome {
    // ---- real schema
    let schema = Schema::new().expect("schema");
    let mut sw = schema.write();
    let sattrs: Vec<SchemaAttribute> = case
        .attrs
        .iter()
        .enumerate()
        .map(|(i, a)| SchemaAttribute {
            name: Attribute::from(a.name.as_str()),
            uuid: nat_uuid(0x15A0_0000 + i as u64),
            description: a.name.clone(),
            multivalue: a.multivalue,
            phantom: a.phantom,
            syntax: a.syntax,
            ..Default::default()
        })
        .collect();
    sw.update_attributes(sattrs.into_iter()).expect("attrs");
    let to_attrs = |l: &Vec<String>| l.iter().map(|s| Attribute::from(s.as_str())).collect::<Vec<_>>();
    let sclasses: Vec<SchemaClass> = case
        .classes
        .iter()
        .enumerate()
        .map(|(i, c)| SchemaClass {
            name: c.name.as_str().into(),
            uuid: nat_uuid(0x15C0_0000 + i as u64),
            description: c.name.clone(),
            systemmust: to_attrs(&c.lists[0]),
            must: to_attrs(&c.lists[1]),
            systemmay: to_attrs(&c.lists[2]),
            may: to_attrs(&c.lists[3]),
            systemsupplements: c.lists[4].iter().map(|s| s.as_str().into()).collect(),
            supplements: c.lists[5].iter().map(|s| s.as_str().into()).collect(),
            systemexcludes: c.lists[6].iter().map(|s| s.as_str().into()).collect(),
            excludes: c.lists[7].iter().map(|s| s.as_str().into()).collect(),
            ..Default::default()
        })
        .collect();
    sw.update_classes(sclasses.into_iter()).expect("classes");
    // ---- real entry
    let mut e: Entry<EntryInit, EntryNew> = Entry::new();
    for (i, ava) in case.entry.iter().enumerate() {
        let vals: Vec<Value> = if !ava.strings.is_empty() {
            ava.strings.iter().map(|s| Value::Iutf8(s.clone())).collect()
        } else {
            mk_values(ava.syntax, &ava.valid, i as u64 + 1)
        };
        if vals.is_empty() {
            continue;
        }
        let vs: ValueSet = valueset::from_value_iter(vals.into_iter()).expect("valueset");
        e.set_ava_set(&Attribute::from(ava.attr.as_str()), vs);
    }
    let cid = Cid::new_lamport(nat_uuid(0x15FF), Duration::from_secs(1_700_000_000), &Duration::from_secs(1_600_000_000));
    let inv = e.assign_cid(cid, &sw as &dyn SchemaTransaction);
    // ---- the model's view: schema + the entry as it stands now, in the real map order
    let mut at = Atoms::new();
    let mut lines = vec!["R".to_string()];
    for a in &case.attrs {
        lines.push(format!("A {} {} {} {}", at.a(&a.name), syn_id(a.syntax), a.multivalue as u8, a.phantom as u8));
    }
    for c in &case.classes {
        let mut l = format!("C {}", at.c(&c.name));
        for k in 0..8 {
            let ids: Vec<u64> = c.lists[k].iter().map(|n| if k < 4 { at.a(n) } else { at.c(n) }).collect();
            l.push(' ');
            l.push_str(&list(ids));
        }
        lines.push(l);
    }
    let mut parts = vec![];
    for (attr, vs) in inv.get_ava_iter() {
        let name = attr.as_str();
        let desc = case.entry.iter().find(|a| a.attr == name);
        let syn = syn_id(vs.syntax());
        let vals: Vec<String> = match desc {
            Some(d) if !d.strings.is_empty() => {
                // class names in the set's own (sorted) order
                vs.as_iutf8_set().expect("class set").iter().map(|s| format!("{}.1", at.c(s))).collect()
            }
            Some(d) => {
                assert_eq!(d.valid.len(), vs.len(), "value count of {name}");
                // sets reorder values; validity flags travel as a multiset (only their conjunction matters)
                let mut v = d.valid.clone();
                v.sort();
                v.iter().enumerate().map(|(i, ok)| format!("{}.{}", 1000 + i, *ok as u8)).collect()
            }
            None => (0..vs.len()).map(|i| format!("{}.1", 2000 + i)).collect(),
        };
        parts.push(format!("{}:{}:{}", at.a(name), syn, if vals.is_empty() { "-".into() } else { vals.join(",") }));
    }
    lines.push(format!("I {}", if parts.is_empty() { "-".into() } else { parts.join(";") }));
    let replies = drv.ask_batch(&lines);
    let model = show_model(replies.last().unwrap(), &at);
    // ---- real validate
    // an ill-typed class attribute trips a debug assertion in `as_iutf8_set` (debug builds only; a
    // release build returns None and `validate` answers NoClassFound): treated as that answer
    let entry_text = lines.last().unwrap().trim_start_matches("I ").to_string();
    let mut seal_real = String::new();
    let mut seal_model = String::new();
    let real = std::panic::catch_unwind(std::panic::AssertUnwindSafe(|| {
        inv.validate(&sw as &dyn SchemaTransaction).map(|valid| {
            // accepted: seal it as the store paths do and validate the sealed entry once more
            let sealed = valid.seal(&sw as &dyn SchemaTransaction);
            let cid2 = Cid::new_lamport(nat_uuid(0x15FF), Duration::from_secs(1_700_000_100), &Duration::from_secs(1_700_000_000));
            let trim = Cid::new_lamport(nat_uuid(0x15FE), Duration::from_secs(1), &Duration::from_secs(0));
            let again = sealed.invalidate(cid2, &trim).validate(&sw as &dyn SchemaTransaction).map(|_| ());
            seal_real = show_real(&again);
        })
    }));
    if !seal_real.is_empty() {
        seal_model = show_model(&drv.ask(&format!("L 7 {entry_text}")), &at);
    }
    let real = match real {
        Ok(r) => show_real(&r),
        Err(_) => "err NoClassFound -".to_string(),
    };
    Outcome { real, model, oracle_accepts: oracle_accepts(case, true), lines, seal_real, seal_model }
}

fn main() {
    let args = Args::parse();
    std::panic::set_hook(Box::new(|_| {}));
    let mut rep = Report::new(
        "schema-validate",
        "the entry has a well-typed class attribute and a single uuid, is no conflict entry, names only known classes, and the verdict is Ok or an attribute-level / supplements / excludes error",
    );
    let mut drv = Driver::spawn(&args.driver);
    let heavy = args.budget > 1;
    let (first, n): (u64, u64) = match &args.replay {
        Some(f) => {
            let v: serde_json::Value = serde_json::from_str(&std::fs::read_to_string(f).expect("replay file")).expect("replay json");
            let inp = v.get("input").unwrap_or(&v);
            (inp["case"].as_u64().expect("case"), 1)
        }
        None => (0, args.cases(6_000, 100_000)),
    };
    let seed = match &args.replay {
        Some(f) => {
            let v: serde_json::Value = serde_json::from_str(&std::fs::read_to_string(f).unwrap()).unwrap();
            v.get("input").unwrap_or(&v)["seed"].as_u64().unwrap_or(args.seed)
        }
        None => args.seed,
    };
    let mut model_fail = 0;
    let mut oracle_fail = 0;
    // the regenerated store paths are the ones the harness exercises at server level, and the model
    // finds each of them well ordered
    for p in ["create", "modify_pre_apply+modify_apply", "internal_apply_writable", "batch_modify", "delete", "purge_recycled", "revive_recycled", "consumer_incremental_apply_entries", "consumer_refresh_create_entries"] {
        let r = drv.ask(&format!("W {p}"));
        if r != "1" {
            rep.fail(Failure { kind: "impl-vs-model".into(), class: "store-path-not-well-ordered".into(), input: json!({"path": p}), expected: "1".into(), observed: r });
        }
    }
    for i in first..first + n {
        let mut rng = Rng::for_case(seed, i);
        let case = gen_case(&mut rng, heavy);
        let out = run_case(&case, &mut drv);
        let variant = out.real.split(' ').nth(1).unwrap_or("ok").to_string();
        let variant = if out.real == "ok" { "ok".to_string() } else { variant };
        rep.count(&format!("real:{variant}"));
        let nontrivial = matches!(
            variant.as_str(),
            "ok" | "MissingMustAttribute" | "AttributeNotValidForClass" | "InvalidAttributeSyntax" | "PhantomAttribute" | "InvalidAttribute" | "SupplementsNotSatisfied" | "ExcludesNotSatisfied"
        ) && !out.real.contains(&format!("MissingMustAttribute {}", a_uuid()));
        let key = if nontrivial {
            let cls: Vec<String> = case.entry.iter().find(|a| a.attr == a_class()).map(|a| a.strings.clone()).unwrap_or_default();
            let shape: Vec<String> = case.entry.iter().map(|a| format!("{}{}{}", a.attr, a.valid.len(), a.valid.iter().all(|v| *v) as u8)).collect();
            Some(format!("{variant}|{}|{}|{}", cls.join(","), shape.join(","), out.lines.len()))
        } else {
            None
        };
        rep.case(key);
        let input = json!({"seed": seed, "case": i, "driver_lines": out.lines});
        if i < first + 4 {
            rep.sample(json!({"case": i, "real": out.real, "model": out.model, "oracle_accepts": out.oracle_accepts, "entry": format!("{:?}", case.entry.iter().map(|a| (&a.attr, a.valid.len())).collect::<Vec<_>>())}));
        }
        if out.real != out.model {
            model_fail += 1;
            if model_fail <= 5 {
                rep.fail(Failure { kind: "impl-vs-model".into(), class: "validate-reply-differs".into(), input: input.clone(), expected: out.model.clone(), observed: out.real.clone() });
            } else {
                rep.count("impl-vs-model-more");
            }
        }
        if out.seal_real != out.seal_model {
            model_fail += 1;
            if model_fail <= 5 {
                rep.fail(Failure { kind: "impl-vs-model".into(), class: "sealed-entry-validate-differs".into(), input: input.clone(), expected: out.seal_model.clone(), observed: out.seal_real.clone() });
            }
        }
        if !out.seal_real.is_empty() {
            rep.count(&format!("sealed:{}", out.seal_real.split(' ').nth(1).unwrap_or("ok")));
            // the statement on what the store paths would write: a sealed accepted entry of class object
            // (the case of every real entry) still satisfies the schema
            let has_object = case.entry.iter().any(|a| a.attr == a_class() && a.strings.contains(&c_name(EntryClass::Object)));
            let object_std = case.classes.iter().any(|c| c.name == c_name(EntryClass::Object) && c.lists[0].contains(&a_lm()) && c.lists[0].contains(&a_ca()));
            let cid_typed = [a_lm(), a_ca()].iter().all(|n| case.attrs.iter().any(|a| &a.name == n && a.syntax == SyntaxType::Cid));
            if has_object && object_std && cid_typed && out.seal_real != "ok" {
                let live = !case.entry.iter().any(|a| a.attr == a_class() && (a.strings.contains(&c_name(EntryClass::Recycled)) || a.strings.contains(&c_name(EntryClass::Conflict))));
                if live {
                    rep.fail(Failure { kind: "impl-vs-oracle".into(), class: "sealed-entry-nonconforming".into(), input: input.clone(), expected: "ok".into(), observed: out.seal_real.clone() });
                }
            }
        }
        if (out.real == "ok") != out.oracle_accepts {
            oracle_fail += 1;
            if oracle_fail <= 5 {
                let class = if out.real == "ok" { "accepted-nonconforming-entry" } else { "refused-conforming-entry" };
                rep.fail(Failure { kind: "impl-vs-oracle".into(), class: class.into(), input, expected: format!("accepted = {}", out.oracle_accepts), observed: out.real.clone() });
            } else {
                rep.count("impl-vs-oracle-more");
            }
        }
    }
    rep.model_requests = drv.requests;
    let ok = *rep.histogram.get("real:ok").unwrap_or(&0);
    if args.replay.is_none() && (ok * 100 / n.max(1) < 15 || ok * 100 / n.max(1) > 85) {
        rep.note(format!("generator balance off: {ok} of {n} accepted"));
        rep.fail(Failure { kind: "generator".into(), class: "generator-balance".into(), input: json!({}), expected: "15..85% accepted".into(), observed: format!("{ok}/{n}") });
    }
    rep.write(&args.out);
    println!("c15 schema-validate: {} cases, {} distinct non-trivial, {} failures", rep.evaluations, rep.nontrivial_keys.len(), rep.failures.len());
}
