//! C26 — recycle bin lifecycle holds.
//!
//! Drives a real server (own `Backend` + `QueryServer::new` + `initialise_helper` at a fixed
//! clock, so that every later clock reading is the harness') and the Lean model (`km_c26`) with
//! the same histories: one committed write transaction per step at an explicit clock reading —
//! create person / group / client certificate (the dependent: `refers` to a person), member add /
//! remove, a normal modify, `internal_delete`, `revive_recycled` as `admin` (recycle-bin
//! administrator, through `ReviveRecycledEvent::from_parts`), `purge_recycled`, `purge_tombstones`
//! (committed as `actors/internal.rs` commits them).
//!
//! After **every** step the committed state is read back (state, last_modified_cid, member,
//! memberof, directmemberof, recycled_directmemberof, refers, cascade_deleted of every entry of the
//! history's uuid slot; a normal internal search, a normal search as admin, the recycle-bin search
//! as admin) and
//! * compared with the model's prediction (`impl-vs-model`; after the first disagreement of a
//!   history, or once the model answers `unsupported` (nested groups), only the oracle goes on);
//! * judged by the oracle written from the property text (`impl-vs-oracle`), see `Oracle::check`.
//!
//! Failure classes: `D16:group-revive-members-not-restored` (a link member(g) ∋ y without
//! directmemberof(y) ∋ g left by a revive of g, or a membership missing after a revive because the
//! link was already one-sided at deletion) is the known finding; every other class is a violation.
//! `--script "<t> <op>;..." [driver]` prints a history's trace (probing), `--replay FILE` re-runs
//! the history stored in a failure's `input.steps`.
use hlib::*;
use kanidmd_lib::be::{Backend, BackendConfig};
use kanidmd_lib::entry::{Entry, EntryInit, EntryNew, EntrySealedCommitted};
use kanidmd_lib::event::{ReviveRecycledEvent, SearchEvent};
use kanidmd_lib::prelude::*;
use kanidmd_lib::schema::Schema;
use serde_json::{json, Value as J};
use std::collections::{BTreeMap, BTreeSet};

/// Per history: ids 1..=4 persons, 5..=8 groups, 9..=12 client certificates (dependents).
const SLOT: u64 = 16;
const NS: u64 = 1_000_000_000;
/// Clock of `initialise_helper` (10^7 s); every history starts later.
const T_INIT: u64 = 10_000_000 * NS;

const CERT_PEM: &str = "-----BEGIN CERTIFICATE-----
MIICeDCCAh6gAwIBAgIBAjAKBggqhkjOPQQDAjCBhDELMAkGA1UEBhMCQVUxDDAK
BgNVBAgMA1FMRDEPMA0GA1UECgwGS2FuaWRtMRwwGgYDVQQDDBNLYW5pZG0gR2Vu
ZXJhdGVkIENBMTgwNgYDVQQLDC9EZXZlbG9wbWVudCBhbmQgRXZhbHVhdGlvbiAt
IE5PVCBGT1IgUFJPRFVDVElPTjAeFw0yNTA3MjkwMzMxMDNaFw0yNTA4MDMwMzMx
MDNaMHoxCzAJBgNVBAYTAkFVMQwwCgYDVQQIDANRTEQxDzANBgNVBAoMBkthbmlk
bTESMBAGA1UEAwwJbG9jYWxob3N0MTgwNgYDVQQLDC9EZXZlbG9wbWVudCBhbmQg
RXZhbHVhdGlvbiAtIE5PVCBGT1IgUFJPRFVDVElPTjBZMBMGByqGSM49AgEGCCqG
SM49AwEHA0IABPFkpVzFH+feItm9JFFm/noge+BlZLpdGWOuSUvfoivAzCgPr7Kr
nGd8kUzIyJermePzu2SVQLaEt/7GY8Ha+2ujgYkwgYYwCQYDVR0TBAIwADAOBgNV
HQ8BAf8EBAMCBaAwEwYDVR0lBAwwCgYIKwYBBQUHAwEwHQYDVR0OBBYEFOjucEtX
mj/wQ7npVaMOyDtLU6dUMB8GA1UdIwQYMBaAFNo5o+5ea0sNMlW/75VgGJCv2AcJ
MBQGA1UdEQQNMAuCCWxvY2FsaG9zdDAKBggqhkjOPQQDAgNIADBFAiEA1TACf4eS
g07LRiKhlMgA+6xxztxiZCuV6LakRp7FZdECIFp0rFSiFJdkLEO9IyqYc+zPW770
ta41VMU3u9UQfHxF
-----END CERTIFICATE-----
";

#[derive(Clone, Debug, PartialEq, Eq, PartialOrd, Ord)]
enum Op {
    Cp(u8),
    Cg(u8, Vec<u8>),
    Cc(u8, u8),
    Add(u8, u8),
    Rem(u8, u8),
    Touch(u8),
    Del(Vec<u8>),
    Rev(u8),
    PurgeRc,
    PurgeTs,
}

/// the line protocol's list format: `a,b,c`, empty = `-`
fn show_ids(v: &[u8]) -> String {
    if v.is_empty() {
        "-".into()
    } else {
        v.iter().map(|x| x.to_string()).collect::<Vec<_>>().join(",")
    }
}

fn parse_ids(s: &str) -> Vec<u8> {
    let s = s.trim_start_matches('[').trim_end_matches(']');
    if s.is_empty() || s == "-" {
        vec![]
    } else {
        s.split(',').map(|x| x.parse().expect("id")).collect()
    }
}

impl Op {
    fn token(&self) -> String {
        match self {
            Op::Cp(i) => format!("cp {i}"),
            Op::Cg(i, ms) => format!("cg {i} {}", show_ids(ms)),
            Op::Cc(i, p) => format!("cc {i} {p}"),
            Op::Add(g, m) => format!("add {g} {m}"),
            Op::Rem(g, m) => format!("rem {g} {m}"),
            Op::Touch(i) => format!("touch {i}"),
            Op::Del(ids) => format!("del {}", show_ids(ids)),
            Op::Rev(i) => format!("rev {i}"),
            Op::PurgeRc => "purgerc".into(),
            Op::PurgeTs => "purgets".into(),
        }
    }
    fn parse(s: &str) -> Op {
        let t: Vec<&str> = s.split_whitespace().collect();
        let n = |i: usize| -> u8 { t[i].parse().expect("id") };
        match t[0] {
            "cp" => Op::Cp(n(1)),
            "cg" => Op::Cg(n(1), parse_ids(t.get(2).copied().unwrap_or("-"))),
            "cc" => Op::Cc(n(1), n(2)),
            "add" => Op::Add(n(1), n(2)),
            "rem" => Op::Rem(n(1), n(2)),
            "touch" => Op::Touch(n(1)),
            "del" => Op::Del(parse_ids(t[1])),
            "rev" => Op::Rev(n(1)),
            "purgerc" => Op::PurgeRc,
            "purgets" => Op::PurgeTs,
            o => panic!("unknown op {o}"),
        }
    }
}

/// One step of a history: clock reading (ns after the history's base) and operation.
#[derive(Clone, Debug, PartialEq, Eq, PartialOrd, Ord)]
struct Step {
    t: u64,
    op: Op,
}

impl Step {
    fn token(&self) -> String {
        format!("{} {}", self.t, self.op.token())
    }
    fn parse(s: &str) -> Step {
        let s = s.trim();
        let (t, rest) = s.split_once(' ').expect("step = <t> <op>");
        Step { t: t.parse().expect("time"), op: Op::parse(rest) }
    }
}

fn uuid_of(base: u64, id: u8) -> Uuid {
    nat_uuid(0x2600_0000_0000 + base * SLOT + id as u64)
}

fn id_of(base: u64, u: &Uuid) -> Option<u8> {
    let lo = nat_uuid(0x2600_0000_0000 + base * SLOT).as_u128();
    let v = u.as_u128();
    if v >= lo && v < lo + SLOT as u128 {
        Some((v - lo) as u8)
    } else {
        None
    }
}

fn dur(ns: u64) -> Duration {
    Duration::new(ns / NS, (ns % NS) as u32)
}

struct Server {
    rt: tokio::runtime::Runtime,
    qs: QueryServer,
}

/// What is read back after a step (committed state, read transaction).
#[derive(Clone, Debug, Default, PartialEq, Eq)]
struct EntryObs {
    kind: char,  // p g c ?
    st: char,    // L R T
    lastmod: u64, // ns (absolute)
    member: Vec<u8>,
    mo: Vec<u8>,
    dmo: Vec<u8>,
    rdmo: Vec<u8>,
    refers: Option<u8>,
    casc: Option<u8>,
}

#[derive(Clone, Debug, Default)]
struct Observed {
    result: String,
    entries: BTreeMap<u8, EntryObs>,
    /// internal search with the hidden-entry exclusion of every normal request
    vis: Vec<u8>,
    /// the same search as an external request of `admin`
    vis_admin: Vec<u8>,
    /// recycle-bin search as `admin` (member of idm_recycle_bin_admins)
    rec_admin: Vec<u8>,
}

impl Server {
    fn boot() -> Server {
        let rt = tokio::runtime::Builder::new_current_thread().enable_all().build().unwrap();
        let schema = Schema::new().expect("schema");
        let idxmeta = {
            let s = schema.write();
            s.reload_idxmeta()
        };
        let be = Backend::new(BackendConfig::new(None, 1, kanidm_proto::internal::FsType::Generic, Some(2048)), idxmeta, false).expect("backend");
        let qs = QueryServer::new(be, schema, "example.com".to_string(), Duration::ZERO).expect("QueryServer::new");
        rt.block_on(qs.initialise_helper(dur(T_INIT), DOMAIN_TGT_LEVEL)).expect("initialise_helper");
        Server { rt, qs }
    }

    /// One write transaction at clock `ct` (absolute ns). Reply: `ok`, `ok <n>` (purges), `err:<e>`.
    fn exec(&self, ct: u64, base: u64, op: &Op) -> String {
        let mut w = match self.rt.block_on(self.qs.write(dur(ct))) {
            Ok(w) => w,
            Err(e) => return format!("err:{}", err_name(&e)),
        };
        let u = |i: u8| uuid_of(base, i);
        let r: Result<Option<usize>, OperationError> = match op {
            Op::Cp(i) => {
                let mut e: Entry<EntryInit, EntryNew> = Entry::new();
                e.add_ava(Attribute::Class, EntryClass::Object.to_value());
                e.add_ava(Attribute::Class, EntryClass::Account.to_value());
                e.add_ava(Attribute::Class, EntryClass::Person.to_value());
                e.add_ava(Attribute::Name, Value::new_iname(&format!("c26p{base}x{i}")));
                e.add_ava(Attribute::DisplayName, Value::new_utf8s(&format!("c26p{base}x{i}")));
                e.add_ava(Attribute::Uuid, Value::Uuid(u(*i)));
                w.internal_create(vec![e]).map(|_| None)
            }
            Op::Cg(i, ms) => {
                let mut e: Entry<EntryInit, EntryNew> = Entry::new();
                e.add_ava(Attribute::Class, EntryClass::Object.to_value());
                e.add_ava(Attribute::Class, EntryClass::Group.to_value());
                e.add_ava(Attribute::Name, Value::new_iname(&format!("c26g{base}x{i}")));
                e.add_ava(Attribute::Uuid, Value::Uuid(u(*i)));
                for m in ms {
                    e.add_ava(Attribute::Member, Value::Refer(u(*m)));
                }
                w.internal_create(vec![e]).map(|_| None)
            }
            Op::Cc(i, p) => {
                let mut e: Entry<EntryInit, EntryNew> = Entry::new();
                e.add_ava(Attribute::Class, EntryClass::Object.to_value());
                e.add_ava(Attribute::Class, EntryClass::ClientCertificate.to_value());
                e.add_ava(Attribute::Uuid, Value::Uuid(u(*i)));
                e.add_ava(Attribute::Refers, Value::Refer(u(*p)));
                e.add_ava(Attribute::Certificate, Value::new_certificate_s(CERT_PEM).expect("test certificate"));
                w.internal_create(vec![e]).map(|_| None)
            }
            Op::Add(g, m) => w
                .internal_modify_uuid(u(*g), &ModifyList::new_list(vec![Modify::Present(Attribute::Member, Value::Refer(u(*m)))]))
                .map(|_| None),
            Op::Rem(g, m) => w
                .internal_modify_uuid(u(*g), &ModifyList::new_list(vec![Modify::Removed(Attribute::Member, PartialValue::Refer(u(*m)))]))
                .map(|_| None),
            Op::Touch(i) => w
                .internal_modify_uuid(
                    u(*i),
                    &ModifyList::new_purge_and_set(Attribute::Description, Value::new_utf8s(&format!("touched at {ct}"))),
                )
                .map(|_| None),
            Op::Del(ids) => {
                let f = Filter::new_ignore_hidden(f_or(ids.iter().map(|i| f_eq(Attribute::Uuid, PartialValue::Uuid(u(*i)))).collect()));
                w.internal_delete(&f).map(|_| None)
            }
            Op::Rev(i) => {
                let admin = match w.internal_search_uuid(UUID_ADMIN) {
                    Ok(a) => a,
                    Err(e) => return format!("err:admin:{e:?}"),
                };
                let ident = Identity::from_impersonate_entry_readwrite(admin);
                let f = Filter::new(f_eq(Attribute::Uuid, PartialValue::Uuid(u(*i))));
                match ReviveRecycledEvent::from_parts(ident, &f, &w) {
                    Ok(re) => w.revive_recycled(&re).map(|_| None),
                    Err(e) => Err(e),
                }
            }
            Op::PurgeRc => w.purge_recycled().map(Some),
            Op::PurgeTs => w.purge_tombstones().map(Some),
        };
        match r {
            // actors/internal.rs: the recycle purge commits only when it touched something,
            // the tombstone purge always
            Ok(Some(0)) if *op == Op::PurgeRc => "ok 0".into(),
            Ok(n) => match w.commit() {
                Ok(()) => match n {
                    Some(n) => format!("ok {n}"),
                    None => "ok".into(),
                },
                Err(e) => format!("err:commit:{e:?}"),
            },
            Err(e) => format!("err:{}", err_name(&e)),
        }
    }

    fn observe(&self, base: u64, obs: &mut Observed) -> Result<(), String> {
        let mut r = self.rt.block_on(self.qs.read()).map_err(|e| format!("read:{e:?}"))?;
        let slot = || f_or((0..SLOT as u8).map(|i| f_eq(Attribute::Uuid, PartialValue::Uuid(uuid_of(base, i)))).collect());
        let ids = |s: &BTreeSet<Uuid>| -> Vec<u8> { s.iter().filter_map(|u| id_of(base, u)).collect() };
        let refs = |e: &EntrySealedCommitted, a: Attribute| -> Vec<u8> { e.get_ava_refer(a).map(&ids).unwrap_or_default() };
        // every entry of the slot whatever its state
        let es = r.internal_search(Filter::new(slot())).map_err(|e| format!("search:{e:?}"))?;
        for e in es.iter() {
            let Some(i) = id_of(base, &e.get_uuid()) else { continue };
            let has = |c: EntryClass| e.attribute_equality(Attribute::Class, &c.into());
            let st = if has(EntryClass::Tombstone) {
                'T'
            } else if has(EntryClass::Recycled) {
                'R'
            } else {
                'L'
            };
            let kind = if has(EntryClass::Group) {
                'g'
            } else if has(EntryClass::Person) {
                'p'
            } else if has(EntryClass::ClientCertificate) {
                'c'
            } else {
                '?'
            };
            let lastmod = e
                .get_ava_set(Attribute::LastModifiedCid)
                .and_then(|vs| vs.to_cid_single())
                .map(|c| c.ts.as_nanos() as u64)
                .unwrap_or(0);
            let one = |o: Option<Uuid>| o.map(|u| id_of(base, &u).unwrap_or(255));
            obs.entries.insert(
                i,
                EntryObs {
                    kind,
                    st,
                    lastmod,
                    member: refs(e, Attribute::Member),
                    mo: refs(e, Attribute::MemberOf),
                    dmo: refs(e, Attribute::DirectMemberOf),
                    rdmo: refs(e, Attribute::RecycledDirectMemberOf),
                    refers: one(e.get_ava_single_refer(Attribute::Refers)),
                    casc: one(e.get_ava_single_uuid(Attribute::CascadeDeleted)),
                },
            );
        }
        let vis = r.internal_search(Filter::new_ignore_hidden(slot())).map_err(|e| format!("search-vis:{e:?}"))?;
        obs.vis = vis.iter().filter_map(|e| id_of(base, &e.get_uuid())).collect();
        obs.vis.sort();
        let admin = r.internal_search_uuid(UUID_ADMIN).map_err(|e| format!("admin:{e:?}"))?;
        let ident = Identity::from_impersonate_entry_readwrite(admin);
        let se = SearchEvent::from_internal_message(ident.clone(), &Filter::new(slot()), None, &mut r).map_err(|e| format!("se:{e:?}"))?;
        let res = r.search_ext(&se).map_err(|e| format!("search-admin:{e:?}"))?;
        obs.vis_admin = res.iter().filter_map(|e| id_of(base, &e.get_uuid())).collect();
        obs.vis_admin.sort();
        let se = SearchEvent::from_internal_recycle_message(ident, &Filter::new(slot()), None, &r).map_err(|e| format!("se-rec:{e:?}"))?;
        let res = r.search_ext(&se).map_err(|e| format!("search-rec:{e:?}"))?;
        obs.rec_admin = res.iter().filter_map(|e| id_of(base, &e.get_uuid())).collect();
        obs.rec_admin.sort();
        Ok(())
    }
}

fn err_name(e: &OperationError) -> String {
    let s = format!("{e:?}");
    // keep the variant, drop payload text that may carry uuids
    s.split(|c: char| c == '(' || c == '{' || c == ' ').next().unwrap_or("").to_string()
}

fn show_opt(o: Option<u8>) -> String {
    o.map(|x| x.to_string()).unwrap_or_else(|| "-".into())
}

impl Observed {
    /// the model's `showState` format; clock values relative to `t0`
    fn state_line(&self, t0: u64) -> String {
        if self.entries.is_empty() {
            return "-".into();
        }
        self.entries
            .iter()
            .map(|(i, e)| {
                format!(
                    "{i}/{}/{}/{}/{}/{}/{}/{}/{}",
                    e.kind,
                    e.st,
                    if e.st == 'L' { "-".to_string() } else { (e.lastmod as i128 - t0 as i128).to_string() },
                    show_ids(&e.member),
                    show_ids(&e.dmo),
                    show_ids(&e.rdmo),
                    show_opt(e.refers),
                    show_opt(e.casc)
                )
            })
            .collect::<Vec<_>>()
            .join(" ")
    }
}

impl Observed {
    fn st(&self, id: u8) -> char {
        self.entries.get(&id).map(|e| e.st).unwrap_or('A')
    }
    /// the driver's reply format (absolute clock values)
    fn model_line(&self) -> String {
        let tomb: Vec<u8> = self.entries.iter().filter(|(_, e)| e.st == 'T').map(|(i, _)| *i).collect();
        format!("{} | {} | vis={} rec={} tomb={}", self.result, self.state_line(0), show_ids(&self.vis), show_ids(&self.rec_admin), show_ids(&tomb))
    }
}

// ---------------------------------------------------------------------------------------------
// oracle (the property text evaluated on what the implementation returned; no model involved)
// ---------------------------------------------------------------------------------------------

const DAY: u64 = 86_400 * NS;
/// The two windows as the property text gives them ("recycle-bin retention period", "replication
/// changelog window"): one week each in a production build (constants/mod.rs documents both).
const RETENTION: u64 = 7 * DAY;
const CHANGELOG: u64 = 7 * DAY;
/// Repeated or regressed clock readings are stamped `previous + 1 ns` by the server, so a
/// transaction's time can run ahead of the harness clock by at most one ns per transaction.
const SLACK: u64 = 1_000;

const D16: &str = "D16:group-revive-members-not-restored";

#[derive(Clone, Debug)]
struct Event {
    at: usize,
    kind: &'static str,
    class: String,
    expected: String,
    observed: String,
}

#[derive(Clone, Debug, Default)]
struct Track {
    /// clock reading of the request that deleted the entry (its stamp is not earlier), resp.
    /// made it a tombstone; later requests are timed by the highest clock reading so far
    /// (their stamp is at most SLACK later)
    deleted_now: u64,
    /// live groups listing the entry just before its deletion that were never deleted since
    groups_intact: BTreeSet<u8>,
    /// those of them whose link to the entry was already one-sided (D16) at its deletion
    broken_at_delete: BTreeSet<u8>,
    /// entries that referred to this one and were deleted by the same request
    dependents: BTreeSet<u8>,
    referent: Option<u8>,
    /// the referent has been live ever since this entry's deletion
    referent_intact: bool,
    tomb_now: u64,
}

#[derive(Default)]
struct Oracle {
    now: u64,
    track: BTreeMap<u8, Track>,
    /// links (group, member) left one-sided by a revive of the group, still one-sided
    d16_links: BTreeSet<(u8, u8)>,
    /// all links one-sided after the previous step
    broken: BTreeSet<(u8, u8, bool)>,
    events: Vec<Event>,
    // coverage
    revive_ok: u32,
    revive_obliged: u32,
    dependents_returned: u32,
    memberships_returned: u32,
    tombstoned: u32,
    reaped: u32,
    revive_refused_tomb: u32,
    boundary_purges: u32,
}

impl Oracle {
    fn ev(&mut self, at: usize, class: &str, expected: String, observed: String) {
        self.events.push(Event { at, kind: "impl-vs-oracle", class: class.to_string(), expected, observed });
    }

    fn one_sided(cur: &Observed) -> BTreeSet<(u8, u8, bool)> {
        // (g, y, true)  = y in member(g) but g not in directmemberof(y)
        // (g, y, false) = g in directmemberof(y) but y not in member(g)
        let mut out = BTreeSet::new();
        for (g, ge) in cur.entries.iter().filter(|(_, e)| e.st == 'L' && e.kind == 'g') {
            for y in &ge.member {
                if let Some(ye) = cur.entries.get(y) {
                    if ye.st == 'L' && !ye.dmo.contains(g) {
                        out.insert((*g, *y, true));
                    }
                }
            }
        }
        for (y, ye) in cur.entries.iter().filter(|(_, e)| e.st == 'L') {
            for g in &ye.dmo {
                let listed = cur.entries.get(g).map(|ge| ge.st == 'L' && ge.member.contains(y)).unwrap_or(false);
                if !listed {
                    out.insert((*g, *y, false));
                }
            }
        }
        out
    }

    fn check(&mut self, at: usize, step: &Step, ct: u64, prev: &Observed, cur: &Observed) {
        self.now = self.now.max(ct);
        let now = self.now;
        let ok = cur.result == "ok" || cur.result.starts_with("ok ");
        let op = &step.op;
        let tok = step.token();
        // ---- O1 / O2: what the searches show
        for id in 0..SLOT as u8 {
            let st = cur.st(id);
            let in_vis = cur.vis.contains(&id);
            let in_adm = cur.vis_admin.contains(&id);
            let in_rec = cur.rec_admin.contains(&id);
            if st == 'L' && !in_vis {
                self.ev(at, "live-entry-not-found", format!("live entry {id} is returned by a normal search"), format!("after `{tok}` the search returns {:?}", cur.vis));
            }
            if st != 'L' && (in_vis || in_adm) {
                self.ev(at, "deleted-entry-visible", format!("entry {id} (state {st}) is absent from normal searches"), format!("after `{tok}`: internal search {:?}, search as admin {:?}", cur.vis, cur.vis_admin));
            }
            if st == 'R' && !in_rec {
                self.ev(at, "recycled-entry-not-found-by-admin", format!("recycled entry {id} is found by a recycle-bin administrator"), format!("after `{tok}` the recycle-bin search of admin returns {:?}", cur.rec_admin));
            }
            if st != 'R' && in_rec {
                self.ev(at, "recycle-bin-shows-non-recycled", format!("entry {id} (state {st}) is not in the recycle bin"), format!("after `{tok}` the recycle-bin search of admin returns {:?}", cur.rec_admin));
            }
        }
        // ---- transitions
        let deleted_now: Vec<u8> = (0..SLOT as u8).filter(|i| prev.st(*i) == 'L' && cur.st(*i) == 'R').collect();
        for id in 0..SLOT as u8 {
            let (ps, cs) = (prev.st(id), cur.st(id));
            if ps == cs {
                // a normal modify must not touch an entry outside the live state
                if (ps == 'R' || ps == 'T') && matches!(op, Op::Touch(_) | Op::Add(..) | Op::Rem(..) | Op::Cp(_) | Op::Cg(..) | Op::Cc(..)) && prev.entries.get(&id) != cur.entries.get(&id) {
                    self.ev(at, "normal-write-changed-deleted-entry", format!("`{tok}` leaves the deleted entry {id} untouched"), format!("before {:?} after {:?}", prev.entries.get(&id), cur.entries.get(&id)));
                }
                if ps == 'T' && prev.entries.get(&id) != cur.entries.get(&id) {
                    self.ev(at, "tombstone-changed", format!("tombstone {id} never changes"), format!("`{tok}`: before {:?} after {:?}", prev.entries.get(&id), cur.entries.get(&id)));
                }
                continue;
            }
            match (ps, cs) {
                ('A', 'L') => {
                    let created = matches!(op, Op::Cp(i) | Op::Cg(i, _) | Op::Cc(i, _) if *i == id) && ok;
                    if !created {
                        self.ev(at, "illegal-transition:A->L", format!("entry {id} only appears through its own successful create"), format!("`{tok}` -> {}", cur.result));
                    }
                    self.track.remove(&id);
                }
                ('L', 'R') => {
                    let requested = matches!(op, Op::Del(ids) if ids.contains(&id));
                    let referent = prev.entries.get(&id).and_then(|e| e.refers);
                    let cascaded = matches!(op, Op::Del(ids) if referent.map(|p| ids.contains(&p) && deleted_now.contains(&p)).unwrap_or(false));
                    if !(ok && (requested || cascaded)) {
                        self.ev(at, "illegal-transition:L->R", format!("entry {id} is recycled only by a successful delete naming it or the entry it refers to"), format!("`{tok}` -> {}", cur.result));
                    }
                    let groups: BTreeSet<u8> = prev.entries.iter().filter(|(_, g)| g.st == 'L' && g.kind == 'g' && g.member.contains(&id)).map(|(g, _)| *g).collect();
                    let broken = groups.iter().copied().filter(|g| self.d16_links.contains(&(*g, id))).collect();
                    let dependents = deleted_now.iter().copied().filter(|c| *c != id && prev.entries.get(c).and_then(|e| e.refers) == Some(id)).collect();
                    self.track.insert(
                        id,
                        Track { deleted_now: ct, groups_intact: groups, broken_at_delete: broken, dependents, referent, referent_intact: true, tomb_now: 0 },
                    );
                }
                ('R', 'L') => {
                    let by_revive = match op {
                        Op::Rev(x) if ok => *x == id || self.track.get(x).map(|t| t.dependents.contains(&id)).unwrap_or(false),
                        _ => false,
                    };
                    if !by_revive {
                        self.ev(at, "illegal-transition:R->L", format!("entry {id} leaves the recycle bin only by a successful revive of it or of the entry whose deletion took it along"), format!("`{tok}` -> {}", cur.result));
                    }
                }
                ('R', 'T') => {
                    self.tombstoned += 1;
                    if !(ok && *op == Op::PurgeRc) {
                        self.ev(at, "illegal-transition:R->T", format!("entry {id} becomes a tombstone only by the recycle-bin purge"), format!("`{tok}` -> {}", cur.result));
                    }
                    let t = self.track.entry(id).or_default();
                    t.tomb_now = ct;
                    let del = t.deleted_now;
                    if now + SLACK < del + RETENTION {
                        self.ev(
                            at,
                            "tombstone-before-retention",
                            format!("entry {id}, deleted at clock {del}, is not a tombstone before {} (retention {RETENTION} ns)", del + RETENTION),
                            format!("`{tok}` at clock {now} made it a tombstone, {} ns early", del + RETENTION - now),
                        );
                    }
                    if now < del + RETENTION + 2 * NS {
                        self.boundary_purges += 1;
                    }
                }
                ('T', 'A') => {
                    self.reaped += 1;
                    if !(ok && *op == Op::PurgeTs) {
                        self.ev(at, "illegal-transition:T->A", format!("tombstone {id} is removed only by the tombstone purge"), format!("`{tok}` -> {}", cur.result));
                    }
                    let tn = self.track.get(&id).map(|t| t.tomb_now).unwrap_or(0);
                    if now + SLACK < tn + CHANGELOG {
                        self.ev(
                            at,
                            "tombstone-removed-inside-changelog-window",
                            format!("tombstone {id}, created at clock {tn}, stays until {} (changelog window {CHANGELOG} ns)", tn + CHANGELOG),
                            format!("`{tok}` at clock {now} removed it, {} ns early", tn + CHANGELOG - now),
                        );
                    }
                    if now < tn + CHANGELOG + 2 * NS {
                        self.boundary_purges += 1;
                    }
                }
                (a, b) => {
                    let class = format!("illegal-transition:{a}->{b}");
                    self.ev(at, &class, format!("entry {id} moves live -> recycled -> tombstone -> gone (or back to live from recycled)"), format!("`{tok}` -> {}: {a} -> {b}", cur.result));
                }
            }
        }
        // ---- revive
        if let Op::Rev(x) = op {
            let ps = prev.st(*x);
            if ps == 'R' {
                let t = self.track.get(x).cloned().unwrap_or_default();
                let obliged = now + SLACK < t.deleted_now + RETENTION && t.referent_intact;
                if obliged {
                    self.revive_obliged += 1;
                    if !ok {
                        self.ev(at, "revive-refused", format!("recycled entry {x} (deleted at clock {}, inside the retention period, nothing it referred to has been deleted) can be revived by a recycle-bin administrator", t.deleted_now), format!("`{tok}` -> {}", cur.result));
                    }
                }
                if ok {
                    self.revive_ok += 1;
                    if cur.st(*x) != 'L' {
                        self.ev(at, "revive-ok-but-not-live", format!("after a successful revive entry {x} is live"), format!("state {}", cur.st(*x)));
                    }
                    // cascade-deleted dependents come back, referring to it again
                    for c in t.dependents.iter().filter(|c| prev.st(**c) == 'R') {
                        let back = cur.st(*c) == 'L' && cur.entries.get(c).and_then(|e| e.refers) == Some(*x);
                        if back {
                            self.dependents_returned += 1;
                        } else {
                            self.ev(at, "dependent-not-revived", format!("dependent {c}, deleted together with {x}, returns with it and refers to it"), format!("after `{tok}`: {:?}", cur.entries.get(c)));
                        }
                    }
                    // direct memberships of groups that still exist, for the entry and its dependents
                    let mut returning = vec![*x];
                    returning.extend(t.dependents.iter().copied().filter(|c| prev.st(*c) == 'R'));
                    for y in returning {
                        let ty = self.track.get(&y).cloned().unwrap_or_default();
                        for g in ty.groups_intact.iter().filter(|g| cur.st(**g) == 'L') {
                            let ge = cur.entries.get(g);
                            let ye = cur.entries.get(&y);
                            let listed = ge.map(|e| e.member.contains(&y)).unwrap_or(false);
                            let derived = ye.map(|e| e.dmo.contains(g) && e.mo.contains(g)).unwrap_or(false);
                            if listed && derived {
                                self.memberships_returned += 1;
                            } else {
                                let class = if ty.broken_at_delete.contains(g) { D16 } else { "membership-not-restored" };
                                self.ev(
                                    at,
                                    class,
                                    format!("revived entry {y} is again a direct member of group {g} (it was when deleted, the group was never deleted since): member, directmemberof and memberof"),
                                    format!("after `{tok}`: member({g}) = {:?}, directmemberof({y}) = {:?}, memberof({y}) = {:?}", ge.map(|e| &e.member), ye.map(|e| &e.dmo), ye.map(|e| &e.mo)),
                                );
                            }
                        }
                    }
                }
            } else {
                if ps == 'T' {
                    self.revive_refused_tomb += 1;
                }
                if ok {
                    self.ev(at, if ps == 'T' { "tombstone-revived" } else { "revive-of-non-recycled-accepted" }, format!("revive of entry {x} in state {ps} is refused"), format!("`{tok}` -> ok"));
                }
                if prev.entries != cur.entries {
                    self.ev(at, "refused-revive-changed-state", format!("a refused revive of {x} changes nothing"), format!("`{tok}` -> {}: before {} after {}", cur.result, prev.state_line(0), cur.state_line(0)));
                }
            }
        }
        // ---- purge liveness from the stamps the implementation itself shows
        if ok && *op == Op::PurgeRc {
            for (id, e) in prev.entries.iter().filter(|(_, e)| e.st == 'R') {
                if e.lastmod + RETENTION + SLACK < ct && cur.st(*id) != 'T' {
                    self.ev(at, "expired-entry-not-tombstoned", format!("recycled entry {id}, last changed at {}, is made a tombstone by a purge at clock {ct}", e.lastmod), format!("state {}", cur.st(*id)));
                }
            }
        }
        if ok && *op == Op::PurgeTs {
            for (id, e) in prev.entries.iter().filter(|(_, e)| e.st == 'T') {
                if e.lastmod + CHANGELOG + SLACK < ct && cur.st(*id) != 'A' {
                    self.ev(at, "expired-tombstone-not-removed", format!("tombstone {id}, created at {}, is removed by a purge at clock {ct}", e.lastmod), format!("state {}", cur.st(*id)));
                }
            }
        }
        // ---- a failed operation changes nothing
        if !ok && prev.entries != cur.entries {
            self.ev(at, "failed-operation-changed-state", format!("`{tok}` -> {} leaves the entries as they were", cur.result), format!("before {} after {}", prev.state_line(0), cur.state_line(0)));
        }
        // ---- bookkeeping for later steps
        for (id, t) in self.track.iter_mut() {
            if cur.st(*id) == 'R' {
                t.groups_intact.retain(|g| cur.st(*g) == 'L');
                if let Some(p) = t.referent {
                    if cur.st(p) != 'L' {
                        t.referent_intact = false;
                    }
                }
            }
        }
        // ---- memberships are two-sided (member <-> directmemberof) among live entries
        let broken = Self::one_sided(cur);
        if let (Op::Rev(_), true) = (op, ok) {
            // links of a group that this revive brought back and that stayed one-sided
            for (g, y, fwd) in broken.iter() {
                if *fwd && prev.st(*g) == 'R' && cur.st(*g) == 'L' {
                    self.d16_links.insert((*g, *y));
                }
            }
        }
        self.d16_links.retain(|(g, y)| broken.contains(&(*g, *y, true)));
        for (g, y, fwd) in broken.iter() {
            if self.broken.contains(&(*g, *y, *fwd)) {
                continue; // reported when it appeared
            }
            let class = if *fwd && self.d16_links.contains(&(*g, *y)) { D16 } else { "membership-one-sided" };
            let (exp, obs) = if *fwd {
                (format!("{y} is listed in member({g}), so directmemberof({y}) contains {g}"), format!("after `{tok}`: directmemberof({y}) = {:?}", cur.entries.get(y).map(|e| &e.dmo)))
            } else {
                (format!("directmemberof({y}) contains {g}, so member({g}) lists {y}"), format!("after `{tok}`: member({g}) = {:?}", cur.entries.get(g).map(|e| &e.member)))
            };
            self.ev(at, class, exp, obs);
        }
        self.broken = broken;
    }
}

// ---------------------------------------------------------------------------------------------
// running one history
// ---------------------------------------------------------------------------------------------

struct World {
    srv: Server,
    next_slot: u64,
    /// every transaction so far was stamped below this clock value
    clock: u64,
    cases: u32,
}

impl World {
    fn new() -> World {
        World { srv: Server::boot(), next_slot: 0, clock: T_INIT + DAY, cases: 0 }
    }
    fn step(&self, ct: u64, base: u64, op: &Op) -> Observed {
        let r = std::panic::catch_unwind(std::panic::AssertUnwindSafe(|| self.srv.exec(ct, base, op)));
        let mut obs = Observed::default();
        obs.result = match r {
            Ok(s) => s,
            Err(_) => "panic".into(),
        };
        let o = std::panic::catch_unwind(std::panic::AssertUnwindSafe(|| self.srv.observe(base, &mut obs)));
        match o {
            Ok(Ok(())) => {}
            Ok(Err(e)) => obs.result = format!("observe-failed:{e} after {}", obs.result),
            Err(_) => obs.result = format!("observe-panicked after {}", obs.result),
        }
        obs
    }
}

#[derive(Default)]
struct CaseOut {
    events: Vec<Event>,
    ok_ops: u32,
    deletes_ok: u32,
    unsupported: bool,
    dirty: bool,
    trace: Vec<String>,
    orc: Oracle,
    results: BTreeMap<String, u32>,
    model_requests: u64,
}

fn run_history(w: &mut World, drv: Option<&mut Driver>, steps: &[Step], keep_trace: bool) -> CaseOut {
    let mut out = CaseOut::default();
    let slot = w.next_slot;
    w.next_slot += 1;
    w.cases += 1;
    let t0 = w.clock + DAY;
    let mut drv = drv;
    if let Some(d) = drv.as_deref_mut() {
        let r = d.ask(&format!("reset {t0} {}", 1 + slot % 7));
        assert_eq!(r, "ok", "driver reset");
    }
    let mut model_on = drv.is_some();
    let mut prev = Observed::default();
    let mut orc = Oracle::default();
    for (k, st) in steps.iter().enumerate() {
        let ct = t0 + st.t;
        w.clock = w.clock.max(ct + SLACK);
        let cur = w.step(ct, slot, &st.op);
        let okr = cur.result == "ok" || cur.result.starts_with("ok ");
        if okr {
            out.ok_ops += 1;
            if matches!(st.op, Op::Del(_)) {
                out.deletes_ok += 1;
            }
        }
        let opname = st.op.token().split(' ').next().unwrap_or("").to_string();
        *out.results.entry(format!("{opname}:{}", cur.result.split(' ').next().unwrap_or(""))).or_insert(0) += 1;
        if cur.result.starts_with("observe-") {
            out.events.push(Event { at: k, kind: "impl-vs-oracle", class: "harness-observe".into(), expected: "the state can be read back".into(), observed: cur.result.clone() });
            out.dirty = true;
            break;
        }
        let real_line = cur.model_line();
        if keep_trace {
            out.trace.push(format!("{} -> {}", st.token(), rel(&real_line, t0)));
        }
        if model_on {
            if let Some(d) = drv.as_deref_mut() {
                let reply = d.ask(&format!("step {ct} {}", st.op.token()));
                if reply.starts_with("unsupported") {
                    out.unsupported = true;
                    model_on = false;
                } else if reply != real_line {
                    out.events.push(Event {
                        at: k,
                        kind: "impl-vs-model",
                        class: "model-disagrees".into(),
                        expected: format!("model after `{}`: {}", st.token(), rel(&reply, t0)),
                        observed: format!("implementation: {}", rel(&real_line, t0)),
                    });
                    model_on = false; // the states have parted; the oracle goes on
                }
            }
        }
        orc.check(k, st, ct, &prev, &cur);
        prev = cur;
    }
    out.events.extend(orc.events.drain(..));
    out.events.sort_by_key(|e| e.at);
    if let Some(d) = drv.as_deref_mut() {
        out.model_requests = d.requests;
    }
    // ---- empty the slot: delete what is live (dependents first), purge twice
    if !out.dirty {
        let certs: Vec<u8> = prev.entries.iter().filter(|(_, e)| e.st == 'L' && e.kind == 'c').map(|(i, _)| *i).collect();
        let rest: Vec<u8> = prev.entries.iter().filter(|(_, e)| e.st == 'L' && e.kind != 'c').map(|(i, _)| *i).collect();
        let mut ct = w.clock + NS;
        for ids in [certs, rest] {
            if !ids.is_empty() {
                let o = w.step(ct, slot, &Op::Del(ids));
                if o.result != "ok" {
                    out.dirty = true;
                }
                ct += NS;
            }
        }
        ct += RETENTION + NS;
        let o = w.step(ct, slot, &Op::PurgeRc);
        out.dirty |= !o.result.starts_with("ok");
        ct += CHANGELOG + NS;
        let o = w.step(ct, slot, &Op::PurgeTs);
        out.dirty |= !o.result.starts_with("ok") || !o.entries.is_empty();
        w.clock = ct + SLACK;
    }
    out.orc = orc;
    out
}

/// clock values relative to the history's base, for reports
fn rel(line: &str, t0: u64) -> String {
    line.split(' ')
        .map(|tok| {
            tok.split('/')
                .map(|p| match p.parse::<u64>() {
                    Ok(v) if v >= t0 => format!("+{}", v - t0),
                    _ => p.to_string(),
                })
                .collect::<Vec<_>>()
                .join("/")
        })
        .collect::<Vec<_>>()
        .join(" ")
}

// ---------------------------------------------------------------------------------------------
// generators
// ---------------------------------------------------------------------------------------------

const PERSONS: [u8; 4] = [1, 2, 3, 4];
const GROUPS: [u8; 4] = [5, 6, 7, 8];
const CERTS: [u8; 4] = [9, 10, 11, 12];

/// The generator's own rough bookkeeping (only to steer towards interesting histories).
#[derive(Clone, Default)]
struct Sim {
    st: BTreeMap<u8, char>,
    t_del: BTreeMap<u8, u64>,
    t_tomb: BTreeMap<u8, u64>,
    refers: BTreeMap<u8, u8>,
    casc: BTreeMap<u8, u8>,
    members: BTreeMap<u8, BTreeSet<u8>>,
}

impl Sim {
    fn st(&self, i: u8) -> char {
        *self.st.get(&i).unwrap_or(&'A')
    }
    fn with(&self, c: char) -> Vec<u8> {
        (1..=12u8).filter(|i| self.st(*i) == c).collect()
    }
    fn live_of(&self, set: &[u8]) -> Vec<u8> {
        set.iter().copied().filter(|i| self.st(*i) == 'L').collect()
    }
    fn apply(&mut self, t: u64, op: &Op) {
        match op {
            Op::Cp(i) => {
                if self.st(*i) == 'A' {
                    self.st.insert(*i, 'L');
                }
            }
            Op::Cg(i, ms) => {
                if self.st(*i) == 'A' && ms.iter().all(|m| self.st(*m) == 'L') {
                    self.st.insert(*i, 'L');
                    self.members.insert(*i, ms.iter().copied().collect());
                }
            }
            Op::Cc(i, p) => {
                if self.st(*i) == 'A' && self.st(*p) == 'L' && !self.refers.contains_key(p) {
                    self.st.insert(*i, 'L');
                    self.refers.insert(*i, *p);
                }
            }
            Op::Add(g, m) => {
                if self.st(*g) == 'L' && self.st(*m) == 'L' {
                    self.members.entry(*g).or_default().insert(*m);
                }
            }
            Op::Rem(g, m) => {
                if self.st(*g) == 'L' {
                    self.members.entry(*g).or_default().remove(m);
                }
            }
            Op::Touch(_) => {}
            Op::Del(ids) => {
                let direct: Vec<u8> = ids.iter().copied().filter(|i| self.st(*i) == 'L').collect();
                let mut all = direct.clone();
                for (c, p) in self.refers.clone() {
                    if self.st(c) == 'L' && direct.contains(&p) && !all.contains(&c) {
                        all.push(c);
                        self.casc.insert(c, p);
                    }
                }
                for i in &all {
                    self.st.insert(*i, 'R');
                    self.t_del.insert(*i, t);
                }
                for ms in self.members.values_mut() {
                    ms.retain(|m| !all.contains(m));
                }
                // references of recycled entries to deleted ones are stripped, which restarts their clock
                for (c, p) in self.refers.clone() {
                    if all.contains(&p) && !all.contains(&c) && self.st(c) == 'R' {
                        self.refers.remove(&c);
                        self.t_del.insert(c, t);
                    }
                }
            }
            Op::Rev(x) => {
                if self.st(*x) == 'R' {
                    let mut back = vec![*x];
                    for (c, p) in self.casc.clone() {
                        if p == *x && self.st(c) == 'R' {
                            back.push(c);
                        }
                    }
                    for i in back {
                        self.st.insert(i, 'L');
                        self.casc.remove(&i);
                    }
                }
            }
            Op::PurgeRc => {
                for i in self.with('R') {
                    if self.t_del[&i] + RETENTION < t {
                        self.st.insert(i, 'T');
                        self.t_tomb.insert(i, t);
                        self.refers.remove(&i);
                        self.casc.remove(&i);
                        self.members.remove(&i);
                    }
                }
            }
            Op::PurgeTs => {
                for i in self.with('T') {
                    if self.t_tomb[&i] + CHANGELOG < t {
                        self.st.remove(&i);
                    }
                }
            }
        }
    }
}

fn pick_delta(r: &mut Rng) -> i64 {
    *r.pick(&[-(NS as i64), -1, 0, 1, 2, NS as i64, 3600 * NS as i64])
}

/// `boundary_heavy`: used when the check script raised the budget (something changed in the
/// anchored code): almost every purge and revive sits within a second of a window's end.
fn gen_history(r: &mut Rng, boundary_heavy: bool, nested: bool) -> Vec<Step> {
    let mut sim = Sim::default();
    let mut steps: Vec<Step> = vec![];
    let mut t: u64 = NS;
    let push = |steps: &mut Vec<Step>, sim: &mut Sim, t: u64, op: Op| {
        sim.apply(t, &op);
        steps.push(Step { t, op });
    };
    // ---- population
    let np = r.range(1, 4) as usize;
    for p in &PERSONS[..np] {
        push(&mut steps, &mut sim, t, Op::Cp(*p));
        t += r.range(0, 3) * NS + r.below(2);
    }
    let ng = r.range(1, 3) as usize;
    for g in &GROUPS[..ng] {
        let mut leaves = sim.live_of(&PERSONS);
        if nested {
            // acyclic nesting only (a group lists groups with a lower id): the closure and its
            // worklist are C17's subject, cycles can make apply_memberof livelock (D21)
            leaves.extend(sim.live_of(&GROUPS).into_iter().filter(|m| m < g));
        }
        let ms: Vec<u8> = leaves.into_iter().filter(|_| r.chance(1, 2)).collect();
        push(&mut steps, &mut sim, t, Op::Cg(*g, ms));
        t += r.range(0, 3) * NS + 1;
    }
    let nc = r.range(0, 3) as usize;
    for c in &CERTS[..nc] {
        let ps = sim.live_of(&PERSONS);
        let p = *r.pick(&ps);
        push(&mut steps, &mut sim, t, Op::Cc(*c, p));
        if r.chance(1, 3) {
            let gs = sim.live_of(&GROUPS);
            let g = *r.pick(&gs);
            t += 1;
            push(&mut steps, &mut sim, t, Op::Add(g, *c));
        }
        t += r.range(0, 3) * NS + 1;
    }
    // ---- history
    let len = r.range(8, 30);
    for _ in 0..len {
        // where does the clock go?
        let rec = sim.with('R');
        let tomb = sim.with('T');
        let mut anchor: Option<(char, u8)> = None;
        let jump = if boundary_heavy { 60 } else { 35 };
        let roll = r.below(100);
        if roll < jump && (!rec.is_empty() || !tomb.is_empty()) {
            let use_tomb = !tomb.is_empty() && (rec.is_empty() || r.chance(1, 2));
            let (kind, id, at) = if use_tomb {
                let i = *r.pick(&tomb);
                ('T', i, sim.t_tomb[&i] + CHANGELOG)
            } else {
                let i = *r.pick(&rec);
                ('R', i, sim.t_del[&i] + RETENTION)
            };
            let target = at as i64 + pick_delta(r);
            if target > t as i64 - 20 * NS as i64 && target > 0 {
                t = target as u64;
                anchor = Some((kind, id));
            } else {
                t += r.range(1, 1000);
            }
        } else if roll < jump + 8 {
            // the same clock reading again
        } else if roll < jump + 12 {
            t = t.saturating_sub(r.range(1, 10 * NS)).max(1);
        } else {
            t += match r.below(6) {
                0 => 1,
                1 => r.range(1, NS),
                2 => r.range(1, 600) * NS,
                3 => r.range(1, 23) * 3600 * NS,
                4 => r.range(1, 3) * DAY + r.below(NS),
                _ => r.range(1, 10) * NS,
            };
        }
        // what happens?
        let live = sim.with('L');
        let op = match anchor {
            Some(('R', id)) if r.chance(4, 5) => {
                if r.chance(3, 4) {
                    Op::PurgeRc
                } else {
                    Op::Rev(id)
                }
            }
            Some(('T', id)) if r.chance(4, 5) => match r.below(10) {
                0..=6 => Op::PurgeTs,
                7 => Op::Rev(id),
                _ => recreate(id),
            },
            _ => {
                let roll = r.below(100);
                if roll < 22 && !live.is_empty() {
                    // delete one or two live entries (never an entry together with its own dependent)
                    let a = *r.pick(&live);
                    let mut ids = vec![a];
                    if r.chance(1, 4) {
                        let b = *r.pick(&live);
                        let related = sim.refers.get(&a) == Some(&b) || sim.refers.get(&b) == Some(&a);
                        if b != a && !related {
                            ids.push(b);
                        }
                    }
                    ids.sort();
                    Op::Del(ids)
                } else if roll < 40 && !rec.is_empty() {
                    Op::Rev(*r.pick(&rec))
                } else if roll < 44 {
                    // revive of something that is not in the bin
                    Op::Rev(r.range(1, 12) as u8)
                } else if roll < 52 {
                    Op::PurgeRc
                } else if roll < 58 {
                    Op::PurgeTs
                } else if roll < 70 {
                    let gs = sim.live_of(&GROUPS);
                    let mut leaves = sim.live_of(&PERSONS);
                    leaves.extend(sim.live_of(&CERTS));
                    if gs.is_empty() || leaves.is_empty() {
                        Op::Touch(r.range(1, 12) as u8)
                    } else {
                        let g = *r.pick(&gs);
                        if nested && r.chance(1, 2) {
                            leaves = gs.iter().copied().filter(|m| *m < g).collect();
                            if leaves.is_empty() {
                                leaves = sim.live_of(&PERSONS);
                            }
                        }
                        if leaves.is_empty() {
                            leaves.push(1);
                        }
                        let m = *r.pick(&leaves);
                        if sim.members.get(&g).map(|s| s.contains(&m)).unwrap_or(false) && r.chance(2, 3) {
                            Op::Rem(g, m)
                        } else {
                            Op::Add(g, m)
                        }
                    }
                } else if roll < 80 {
                    // create something that does not exist (or, rarely, that does)
                    let id = r.range(1, 12) as u8;
                    recreate_with(r, &sim, id, nested)
                } else if roll < 88 {
                    // normal writes aimed at deleted entries
                    let pool: Vec<u8> = if !rec.is_empty() && r.chance(2, 3) { rec.clone() } else { (1..=12).collect() };
                    let i = *r.pick(&pool);
                    // never a group as member here: an arbitrary group-in-group link could close a
                    // cycle, and cycles can make apply_memberof livelock (C17 D21)
                    match r.below(4) {
                        0 => Op::Touch(i),
                        1 => Op::Del(vec![i]),
                        2 if !GROUPS.contains(&i) => Op::Add(*r.pick(&GROUPS), i),
                        3 if !GROUPS.contains(&i) => Op::Rem(*r.pick(&GROUPS), i),
                        _ => Op::Touch(i),
                    }
                } else if roll < 94 && !live.is_empty() {
                    Op::Touch(*r.pick(&live))
                } else {
                    // malformed / refused requests
                    match r.below(5) {
                        0 => Op::Cc(*r.pick(&CERTS), *r.pick(&CERTS)),
                        1 => Op::Add(*r.pick(&PERSONS), *r.pick(&PERSONS)),
                        2 => Op::Cg(*r.pick(&GROUPS), vec![r.range(1, 4) as u8, r.range(9, 12) as u8]),
                        3 => Op::Del(vec![r.range(1, 12) as u8, 13]),
                        _ => Op::Rev(13),
                    }
                }
            }
        };
        push(&mut steps, &mut sim, t, op);
    }
    steps
}

fn recreate(id: u8) -> Op {
    if PERSONS.contains(&id) {
        Op::Cp(id)
    } else if GROUPS.contains(&id) {
        Op::Cg(id, vec![])
    } else {
        Op::Cc(id, 1)
    }
}

fn recreate_with(r: &mut Rng, sim: &Sim, id: u8, nested: bool) -> Op {
    if PERSONS.contains(&id) {
        Op::Cp(id)
    } else if GROUPS.contains(&id) {
        let mut leaves = sim.live_of(&PERSONS);
        leaves.extend(sim.live_of(&CERTS));
        if nested {
            leaves.extend(sim.live_of(&GROUPS).into_iter().filter(|m| *m < id));
        }
        Op::Cg(id, leaves.into_iter().filter(|_| r.chance(1, 3)).collect())
    } else {
        let ps = sim.live_of(&PERSONS);
        Op::Cc(id, if ps.is_empty() { 1 } else { *r.pick(&ps) })
    }
}

/// Scripted sweep of both window ends: one delete, purges at `retention + d1`, a revive attempt,
/// tombstone purges at `changelog + d2`, re-creation.
fn sweep_cases(thorough: bool) -> Vec<Vec<Step>> {
    let ds: Vec<i64> = if thorough {
        vec![-(NS as i64), -2, -1, 0, 1, 2, NS as i64]
    } else {
        vec![-(NS as i64), -1, 0, 1, NS as i64]
    };
    let mut out = vec![];
    for d1 in &ds {
        for d2 in &ds {
            for variant in 0..3u8 {
                let s = |t: u64, op: &str| Step { t, op: Op::parse(op) };
                let mut v = vec![s(NS, "cp 1"), s(2 * NS, "cp 2"), s(3 * NS, "cg 5 1,2"), s(4 * NS, "cc 9 1")];
                let del = 10 * NS;
                match variant {
                    0 => v.push(s(del, "del 1")),
                    1 => v.push(s(del, "del 5")),
                    _ => v.push(s(del, "del 1,2")),
                }
                let x = if variant == 1 { 5 } else { 1 };
                let t1 = (del + RETENTION) as i64 + d1;
                v.push(s((t1 - 1) as u64, &format!("touch {x}")));
                v.push(s(t1 as u64, "purgerc"));
                v.push(s(t1 as u64 + 1, &format!("rev {x}")));
                // whatever is left goes one second after the end of the window
                let t2 = del + RETENTION + 2 * NS;
                v.push(s(t2, &format!("del {x}")));
                v.push(s(t2 + RETENTION + NS, "purgerc"));
                let tomb = t2 + RETENTION + NS;
                let t3 = (tomb + CHANGELOG) as i64 + d2;
                v.push(s(t3 as u64, "purgets"));
                v.push(s(t3 as u64 + 1, &format!("rev {x}")));
                v.push(s(t3 as u64 + 2, &recreate(x).token()));
                v.push(s(t3 as u64 + 2 * NS + CHANGELOG, "purgets"));
                v.push(s(t3 as u64 + 3 * NS + CHANGELOG, &recreate(x).token()));
                out.push(v);
            }
        }
    }
    out
}

/// Recorded witnesses (name, history): the known finding and regression cases found while building.
fn corpus() -> Vec<(&'static str, Vec<Step>)> {
    let p = |s: &str| -> Vec<Step> { s.split(';').map(Step::parse).collect() };
    let s = NS;
    vec![
        // D16: a revived group's members do not regain directmemberof / memberof
        ("d16-group-revive", p(&format!("{} cp 1;{} cg 5 1;{} del 5;{} rev 5", s, 2 * s, 3 * s, 4 * s))),
        // ... and the member then loses the group for good when it is deleted and revived itself
        ("d16-then-member-revive", p(&format!("{} cp 1;{} cg 5 1;{} del 5;{} rev 5;{} del 1;{} rev 1", s, 2 * s, 3 * s, 4 * s, 5 * s, 6 * s))),
        // a revive of another person recomputes every live person: the one-sided link heals
        ("d16-healed-by-person-revive", p(&format!("{} cp 1;{} cp 2;{} cg 5 1;{} del 5;{} rev 5;{} del 2;{} rev 2", s, 2 * s, 3 * s, 4 * s, 5 * s, 6 * s, 7 * s))),
        // dependents: cascade, revive of the dependent alone is refused, revive of the person returns both
        ("cascade-and-return", p(&format!("{} cp 1;{} cg 5 1;{} cc 9 1;{} add 5 9;{} del 1;{} rev 9;{} rev 1", s, 2 * s, 3 * s, 4 * s, 5 * s, 6 * s, 7 * s))),
        // a dependent deleted on its own loses `refers` when its person is deleted and cannot come back
        ("direct-deleted-dependent", p(&format!("{} cp 1;{} cc 9 1;{} del 9;{} del 1;{} rev 9;{} rev 1;{} rev 9", s, 2 * s, 3 * s, 4 * s, 5 * s, 6 * s, 7 * s))),
        // deleting a member of a recycled group restarts the group's retention clock
        (
            "refint-restarts-clock",
            p(&format!("{} cp 1;{} cg 5 1;{} del 5;{} del 1;{} purgerc;{} purgerc;{} rev 5", s, 2 * s, 3 * s, 3 * s + 3 * DAY, 3 * s + RETENTION + 1, 3 * s + 3 * DAY + RETENTION + 1, 3 * s + 3 * DAY + RETENTION + 2)),
        ),
        // same clock reading for every transaction (Lamport stamps)
        ("same-clock", p(&format!("{0} cp 1;{0} cg 5 1;{0} del 1;{0} rev 1;{0} del 1;{1} purgerc;{1} purgerc;{2} purgets;{2} cp 1", s, s + RETENTION + 2, s + RETENTION + CHANGELOG + 4))),
    ]
}

// ---------------------------------------------------------------------------------------------
// streams
// ---------------------------------------------------------------------------------------------

fn steps_json(steps: &[Step]) -> J {
    J::Array(steps.iter().map(|s| J::String(s.token())).collect())
}

struct Ctx {
    world: Option<World>,
    minimised: BTreeMap<String, u32>,
    model_failures: u32,
}

impl Ctx {
    fn world(&mut self) -> &mut World {
        let fresh = match &self.world {
            None => true,
            Some(w) => w.cases >= 150 || w.clock > u64::MAX / 4,
        };
        if fresh {
            self.world = Some(World::new());
        }
        self.world.as_mut().unwrap()
    }
}

fn run_case(ctx: &mut Ctx, drv: &mut Driver, rep: &mut Report, stream: &str, steps: &[Step], sample: bool) {
    let out = run_history(ctx.world(), Some(drv), steps, sample);
    if out.dirty {
        ctx.world = None;
        rep.count("server-replaced-after-unclean-slot");
    }
    rep.count(&format!("stream:{stream}"));
    rep.count_n("transactions", steps.len() as u64);
    rep.count_n("transactions-ok", out.ok_ops as u64);
    for (k, v) in &out.results {
        rep.count_n(&format!("result:{k}"), *v as u64);
    }
    let o = &out.orc;
    rep.count_n("revive-ok", o.revive_ok as u64);
    rep.count_n("revive-obliged-by-oracle", o.revive_obliged as u64);
    rep.count_n("revive-of-tombstone-refused", o.revive_refused_tomb as u64);
    rep.count_n("dependents-returned", o.dependents_returned as u64);
    rep.count_n("memberships-returned", o.memberships_returned as u64);
    rep.count_n("became-tombstone", o.tombstoned as u64);
    rep.count_n("tombstone-removed", o.reaped as u64);
    rep.count_n("purge-within-2s-of-window-end", o.boundary_purges as u64);
    if out.unsupported {
        rep.count("model-out-of-scope(nested-groups):oracle-only-from-there");
    }
    let nontrivial = out.ok_ops >= 6 && out.deletes_ok >= 1 && (o.revive_ok >= 1 || o.tombstoned >= 1);
    let key = steps.iter().map(|s| s.token()).collect::<Vec<_>>().join(";");
    rep.case(if nontrivial { Some(key) } else { None });
    if sample && nontrivial {
        rep.sample(json!({"stream": stream, "steps": steps_json(steps), "trace": out.trace}));
    }
    for ev in &out.events {
        rep.count(&format!("event:{}:{}", ev.kind, ev.class));
        if ev.kind == "impl-vs-model" {
            ctx.model_failures += 1;
            if ctx.model_failures > 6 {
                continue; // a handful is enough; the oracle keeps running on every case
            }
        }
        let seen = ctx.minimised.entry(format!("{}|{}", ev.kind, ev.class)).or_insert(0);
        *seen += 1;
        if *seen > 2 {
            continue;
        }
        let upto = steps[..=ev.at].to_vec();
        let (kind, class) = (ev.kind, ev.class.clone());
        let mut budget = 60u32;
        let min_steps = shrink_list(upto.clone(), |cand| {
            if budget == 0 || cand.is_empty() {
                return false;
            }
            budget -= 1;
            let o = run_history(ctx.world(), Some(drv), cand, false);
            if o.dirty {
                ctx.world = None;
            }
            o.events.iter().any(|e| e.kind == kind && e.class == class)
        });
        let o = run_history(ctx.world(), Some(drv), &min_steps, false);
        if o.dirty {
            ctx.world = None;
        }
        let e2 = o.events.iter().find(|e| e.kind == kind && e.class == class).cloned().unwrap_or_else(|| ev.clone());
        rep.fail(Failure {
            kind: e2.kind.into(),
            class: e2.class.clone(),
            input: json!({"steps": steps_json(&min_steps), "from": steps_json(&upto), "stream": stream}),
            expected: e2.expected.clone(),
            observed: e2.observed.clone(),
        });
    }
}

enum Job {
    Corpus,
    Sweep { part: usize, parts: usize },
    Random { from: u64, to: u64 },
}

fn run_job(args: &Args, job: &Job) -> Report {
    let mut rep = Report::new("job", "");
    let mut drv = Driver::spawn(&args.driver);
    let mut ctx = Ctx { world: None, minimised: BTreeMap::new(), model_failures: 0 };
    match job {
        Job::Corpus => {
            for (i, (_name, steps)) in corpus().into_iter().enumerate() {
                run_case(&mut ctx, &mut drv, &mut rep, "corpus", &steps, i < 2);
            }
        }
        Job::Sweep { part, parts } => {
            for (i, steps) in sweep_cases(args.thorough()).into_iter().enumerate() {
                if i % parts == *part {
                    run_case(&mut ctx, &mut drv, &mut rep, "sweep", &steps, i == 0);
                }
            }
            rep.exhaustive = true;
        }
        Job::Random { from, to } => {
            for c in *from..*to {
                let mut r = Rng::for_case(args.seed, c);
                let heavy = args.budget > 1 && c % 4 != 0;
                // every tenth history nests groups (acyclic): outside the model, oracle only
                let nested = c % 10 == 9;
                let steps = gen_history(&mut r, heavy, nested);
                let stream = match (nested, heavy) {
                    (true, _) => "random-nested-groups(oracle-only)",
                    (false, true) => "random-boundary-heavy",
                    (false, false) => "random",
                };
                run_case(&mut ctx, &mut drv, &mut rep, stream, &steps, c == *from);
            }
        }
    }
    rep.model_requests = drv.requests;
    rep
}

fn main() {
    if std::env::var_os("RUST_LOG").is_none() {
        std::env::set_var("RUST_LOG", "off");
    }
    // the debug assertion of delete.rs is an expected reply (`panic`), not something to print
    std::panic::set_hook(Box::new(|_| {}));
    let raw: Vec<String> = std::env::args().collect();
    if raw.len() >= 3 && raw[1] == "--script" {
        let mut w = World::new();
        let steps: Vec<Step> = raw[2].split(';').map(Step::parse).collect();
        let mut drv = raw.get(3).map(|p| Driver::spawn(p));
        let out = run_history(&mut w, drv.as_mut(), &steps, true);
        for l in &out.trace {
            println!("{l}");
        }
        for e in &out.events {
            println!("EVENT at {} {} {}: expected {} / observed {}", e.at, e.kind, e.class, e.expected, e.observed);
        }
        println!("dirty={} unsupported={}", out.dirty, out.unsupported);
        return;
    }
    let args = Args::parse();
    let mut rep = Report::new(
        "recycle",
        "histories of create (person / group with members / client certificate referring to a person) / member add / remove / normal modify / \
         delete / revive by admin / purge_recycled / purge_tombstones on a real server with an explicit clock (repeats, regressions, jumps to \
         within 1 ns / 1 s of the end of either window), one write transaction per step; after every step correspondence with the Lean model \
         and the oracle; non-trivial = at least 6 successful transactions, a successful delete and a successful revive or an entry that became \
         a tombstone; distinct = distinct step list",
    );
    if let Some(path) = &args.replay {
        let v: J = serde_json::from_str(&std::fs::read_to_string(path).unwrap()).unwrap();
        let steps: Vec<Step> = v["input"]["steps"].as_array().unwrap().iter().map(|s| Step::parse(s.as_str().unwrap())).collect();
        let mut drv = Driver::spawn(&args.driver);
        let mut ctx = Ctx { world: None, minimised: BTreeMap::new(), model_failures: 0 };
        run_case(&mut ctx, &mut drv, &mut rep, "replay", &steps, true);
        rep.model_requests = drv.requests;
        rep.write(&args.out);
        println!("c26 replay: {} failures", rep.failures.len());
        std::process::exit(0);
    }
    let only = args.extra.get("only").cloned();
    let want = |name: &str| only.as_deref().map(|o| o == name).unwrap_or(true);
    let mut jobs: Vec<Job> = vec![];
    if want("corpus") {
        jobs.push(Job::Corpus);
    }
    if want("sweep") {
        let parts = if args.thorough() { 3 } else { 2 };
        for part in 0..parts {
            jobs.push(Job::Sweep { part, parts });
        }
    }
    if want("random") {
        let n = args.cases(360, 9000);
        let parts = if args.thorough() { 8 } else { 5 };
        for k in 0..parts {
            jobs.push(Job::Random { from: n * k / parts, to: n * (k + 1) / parts });
        }
    }
    let results: Vec<Report> = std::thread::scope(|sc| {
        let handles: Vec<_> = jobs
            .iter()
            .map(|job| {
                let a = &args;
                sc.spawn(move || run_job(a, job))
            })
            .collect();
        handles.into_iter().map(|h| h.join().expect("job panicked")).collect()
    });
    let mut all: Vec<Failure> = vec![];
    for r in results {
        rep.evaluations += r.evaluations;
        rep.nontrivial_keys.extend(r.nontrivial_keys);
        for (k, v) in r.histogram {
            *rep.histogram.entry(k).or_insert(0) += v;
        }
        for s in r.samples {
            rep.sample(s);
        }
        all.extend(r.failures);
        rep.notes.extend(r.notes);
        rep.exhaustive |= r.exhaustive;
        rep.model_requests += r.model_requests;
    }
    // anything outside the known class first; at most 4 witnesses of the known one
    let (known, unknown): (Vec<Failure>, Vec<Failure>) = all.into_iter().partition(|f| f.class == D16);
    for f in unknown {
        rep.fail(f);
    }
    for (i, f) in known.into_iter().enumerate() {
        if i < 4 {
            rep.fail(f);
        } else {
            rep.count("known-class-witnesses-not-listed");
        }
    }
    rep.write(&args.out);
    println!("c26: {} cases, {} distinct non-trivial, {} failures", rep.evaluations, rep.nontrivial_keys.len(), rep.failures.len());
    std::process::exit(0);
}
