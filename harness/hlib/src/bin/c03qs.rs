//! C03 — indexes and name lookups always mirror the stored entries (query-server level, oracle only).
//!
//! Histories of committed query-server write transactions on one migrated server or on a replicating pair
//! (`setup_pair_test`, B refreshed from A): create persons / groups / OAuth2 resource servers, rename,
//! mail (multi-valued) and member edits, claim-map edits, delete (recycle), revive, purge_recycled
//! (→ tombstones), purge_tombstones, batch_modify (several renames in one transaction), reindex,
//! incremental replication in both directions (including concurrent creates of the same uuid / name,
//! i.e. conflict resolution). After every commit, on every server:
//!
//!   oracle : the stored entries are read back by an unindexed backend scan; EVERY index table the backend
//!            has (the server's own schema: > 100 tables) is rebuilt from them — per entry through the value
//!            set's public `generate_idx_*_keys`, i.e. independently of `Entry::idx_diff` / `entry_index`,
//!            the code under test — and compared with the raw table dump, row by row; the table set must
//!            equal the index metadata; `name2uuid`, `uuid2spn`, `uuid2rdn` are looked up for every name /
//!            uuid any stored entry has (or had earlier in the history) and compared with what a scan of
//!            the entries that are neither recycled nor tombstones gives; `name_to_uuid` of the query
//!            server must agree; `verify()` / `verify_indexes()` of the backend must be empty.
//! Known findings D35 / D36 are reproduced here through the public write path (corpus cases `d35-qs`,
//! `d36-qs`); their class is assigned only if the failing table and the last operation have the shape.
#![allow(dead_code)]
use hlib::*;
use kanidmd_lib::be::{BackendTransaction, Limits};
use kanidmd_lib::entry::{Entry, EntryCommitted, EntryInit, EntryNew, EntrySealed};
use kanidmd_lib::event::ReviveRecycledEvent;
use kanidmd_lib::filter::{f_eq, FilterValidResolved};
use kanidmd_lib::prelude::*;
use kanidmd_lib::repl::proto::ConsumerState;
use kanidmd_lib::testkit::{setup_pair_test, setup_test, TestConfiguration};
use kanidmd_lib::valueset::ValueSetT;
use kanidmd_lib::verif_hooks::{c01, c23};
use serde_json::{json, Value as Json};
use std::collections::{BTreeMap, BTreeSet};
use std::sync::Arc;

type Stored = Arc<Entry<EntrySealed, EntryCommitted>>;

fn nat_uuid(n: u64) -> Uuid {
    Uuid::from_u128(0x2000_0000_0000_0000_0000_0000_0000_0000u128 + n as u128)
}

#[derive(Clone, Debug, PartialEq)]
enum Op {
    Person { srv: usize, n: u64, name: String, gid: Option<u32>, mail: Vec<String> },
    Group { srv: usize, n: u64, name: String, members: Vec<u64> },
    Rs { srv: usize, n: u64, name: String },
    Rename { srv: usize, n: u64, name: String },
    Mail { srv: usize, n: u64, mail: Vec<String> },
    Members { srv: usize, n: u64, members: Vec<u64> },
    Claim { srv: usize, n: u64, claim: String, group: u64, add: bool },
    Delete { srv: usize, n: u64 },
    Revive { srv: usize, n: u64 },
    PurgeRecycled { srv: usize },
    PurgeTombstones { srv: usize },
    Reindex { srv: usize },
    /// several renames in ONE write transaction (`internal_batch_modify`)
    Batch { srv: usize, items: Vec<(u64, String)> },
    Repl { from: usize, to: usize },
}

impl Op {
    fn to_json(&self) -> Json {
        match self {
            Op::Person { srv, n, name, gid, mail } => json!({"op":"person","srv":srv,"n":n,"name":name,"gid":gid,"mail":mail}),
            Op::Group { srv, n, name, members } => json!({"op":"group","srv":srv,"n":n,"name":name,"members":members}),
            Op::Rs { srv, n, name } => json!({"op":"rs","srv":srv,"n":n,"name":name}),
            Op::Rename { srv, n, name } => json!({"op":"rename","srv":srv,"n":n,"name":name}),
            Op::Mail { srv, n, mail } => json!({"op":"mail","srv":srv,"n":n,"mail":mail}),
            Op::Members { srv, n, members } => json!({"op":"members","srv":srv,"n":n,"members":members}),
            Op::Claim { srv, n, claim, group, add } => json!({"op":"claim","srv":srv,"n":n,"claim":claim,"group":group,"add":add}),
            Op::Delete { srv, n } => json!({"op":"delete","srv":srv,"n":n}),
            Op::Revive { srv, n } => json!({"op":"revive","srv":srv,"n":n}),
            Op::PurgeRecycled { srv } => json!({"op":"purge_recycled","srv":srv}),
            Op::PurgeTombstones { srv } => json!({"op":"purge_tombstones","srv":srv}),
            Op::Reindex { srv } => json!({"op":"reindex","srv":srv}),
            Op::Batch { srv, items } => json!({"op":"batch","srv":srv,"items":items.iter().map(|(n, s)| json!([n, s])).collect::<Vec<_>>()}),
            Op::Repl { from, to } => json!({"op":"repl","from":from,"to":to}),
        }
    }
    fn from_json(j: &Json) -> Op {
        let srv = j["srv"].as_u64().unwrap_or(0) as usize;
        let n = j["n"].as_u64().unwrap_or(0);
        let name = j["name"].as_str().unwrap_or("").to_string();
        let strs = |v: &Json| -> Vec<String> { v.as_array().map(|a| a.iter().map(|x| x.as_str().unwrap().to_string()).collect()).unwrap_or_default() };
        let nums = |v: &Json| -> Vec<u64> { v.as_array().map(|a| a.iter().map(|x| x.as_u64().unwrap()).collect()).unwrap_or_default() };
        match j["op"].as_str().unwrap() {
            "person" => Op::Person { srv, n, name, gid: j["gid"].as_u64().map(|x| x as u32), mail: strs(&j["mail"]) },
            "group" => Op::Group { srv, n, name, members: nums(&j["members"]) },
            "rs" => Op::Rs { srv, n, name },
            "rename" => Op::Rename { srv, n, name },
            "mail" => Op::Mail { srv, n, mail: strs(&j["mail"]) },
            "members" => Op::Members { srv, n, members: nums(&j["members"]) },
            "claim" => Op::Claim { srv, n, claim: j["claim"].as_str().unwrap().into(), group: j["group"].as_u64().unwrap(), add: j["add"].as_bool().unwrap() },
            "delete" => Op::Delete { srv, n },
            "revive" => Op::Revive { srv, n },
            "purge_recycled" => Op::PurgeRecycled { srv },
            "purge_tombstones" => Op::PurgeTombstones { srv },
            "reindex" => Op::Reindex { srv },
            "batch" => Op::Batch { srv, items: j["items"].as_array().unwrap().iter().map(|x| (x[0].as_u64().unwrap(), x[1].as_str().unwrap().to_string())).collect() },
            _ => Op::Repl { from: j["from"].as_u64().unwrap() as usize, to: j["to"].as_u64().unwrap() as usize },
        }
    }
}

#[derive(Clone, Debug)]
struct History {
    pair: bool,
    ops: Vec<Op>,
}
impl History {
    fn to_json(&self) -> Json {
        json!({"pair": self.pair, "ops": self.ops.iter().map(|o| o.to_json()).collect::<Vec<_>>()})
    }
    fn from_json(j: &Json) -> History {
        History { pair: j["pair"].as_bool().unwrap_or(false), ops: j["ops"].as_array().unwrap().iter().map(Op::from_json).collect() }
    }
}

#[derive(Debug, Clone)]
struct Fail {
    what: String,
    at: usize,
    srv: usize,
    expected: String,
    observed: String,
}

struct World {
    qs: Vec<QueryServer>,
    ct: Duration,
    all: Filter<FilterValidResolved>,
    /// every lookup name / uuid seen so far, per server
    names: BTreeSet<String>,
    uuids: BTreeSet<Uuid>,
}

fn day() -> Duration {
    Duration::from_secs(86400)
}

fn new_world(rt: &tokio::runtime::Runtime, pair: bool) -> World {
    let mut ct = duration_from_epoch_now();
    let qs = if pair {
        let (a, b) = rt.block_on(setup_pair_test(TestConfiguration::default()));
        {
            ct += Duration::from_secs(1);
            let mut a_r = rt.block_on(a.read()).expect("read a");
            let mut b_w = rt.block_on(b.write(ct)).expect("write b");
            let ctx = a_r.supplier_provide_refresh().expect("refresh ctx");
            b_w.consumer_apply_refresh(ctx).expect("apply refresh");
            b_w.commit().expect("commit refresh");
        }
        vec![a, b]
    } else {
        vec![rt.block_on(setup_test(TestConfiguration::default()))]
    };
    let all = {
        let mut rd = rt.block_on(qs[0].read()).expect("read");
        let ident = c23::ident_internal(0).expect("internal identity");
        // no index metadata: every term unindexed, i.e. a full scan of id2entry
        Filter::new(FC::Pres(Attribute::Class)).validate(rd.get_schema()).expect("validate").resolve(&ident, None, None).expect("resolve")
    };
    World { qs, ct, all, names: BTreeSet::new(), uuids: BTreeSet::new() }
}

fn exec(w: &mut World, rt: &tokio::runtime::Runtime, op: &Op) -> Result<(), String> {
    w.ct += Duration::from_secs(2);
    let e = |x: OperationError| format!("{x:?}");
    match op {
        Op::Repl { from, to } => {
            if *from >= w.qs.len() || *to >= w.qs.len() || from == to {
                return Err("no such server".into());
            }
            let mut from_r = rt.block_on(w.qs[*from].read()).map_err(e)?;
            let mut to_w = rt.block_on(w.qs[*to].write(w.ct)).map_err(e)?;
            let state = to_w.consumer_get_state().map_err(e)?;
            let changes = from_r.supplier_provide_changes(state).map_err(e)?;
            match to_w.consumer_apply_changes(changes).map_err(e)? {
                ConsumerState::Ok => to_w.commit().map_err(e),
                ConsumerState::RefreshRequired => {
                    // the consumer lags behind the supplier's changelog: full refresh (backend `refresh` path)
                    drop(to_w);
                    let mut to_w = rt.block_on(w.qs[*to].write(w.ct)).map_err(e)?;
                    let ctx = from_r.supplier_provide_refresh().map_err(e)?;
                    to_w.consumer_apply_refresh(ctx).map_err(e)?;
                    to_w.commit().map_err(e)
                }
            }
        }
        _ => {
            let srv = match op {
                Op::Person { srv, .. } | Op::Group { srv, .. } | Op::Rs { srv, .. } | Op::Rename { srv, .. } | Op::Mail { srv, .. } | Op::Members { srv, .. } | Op::Claim { srv, .. } | Op::Delete { srv, .. } | Op::Revive { srv, .. } | Op::PurgeRecycled { srv } | Op::PurgeTombstones { srv } | Op::Reindex { srv } | Op::Batch { srv, .. } => *srv,
                Op::Repl { .. } => 0,
            };
            if srv >= w.qs.len() {
                return Err("no such server".into());
            }
            if matches!(op, Op::PurgeRecycled { .. } | Op::PurgeTombstones { .. }) {
                w.ct += day() * 8;
            }
            let mut wr = rt.block_on(w.qs[srv].write(w.ct)).map_err(e)?;
            let mails = |mail: &Vec<String>| -> Vec<Value> { mail.iter().enumerate().map(|(i, m)| Value::EmailAddress(m.clone(), i == 0)).collect() };
            match op {
                Op::Person { n, name, gid, mail, .. } => {
                    let mut en: Entry<EntryInit, EntryNew> = Entry::new();
                    for c in ["object", "account", "person"] {
                        en.add_ava(Attribute::Class, Value::new_iutf8(c));
                    }
                    en.add_ava(Attribute::Uuid, Value::Uuid(nat_uuid(*n)));
                    en.add_ava(Attribute::Name, Value::new_iname(name));
                    en.add_ava(Attribute::DisplayName, Value::new_utf8s(&format!("Person {name}")));
                    if let Some(g) = gid {
                        en.add_ava(Attribute::Class, Value::new_iutf8("posixaccount"));
                        en.add_ava(Attribute::GidNumber, Value::Uint32(*g));
                    }
                    for v in mails(mail) {
                        en.add_ava(Attribute::Mail, v);
                    }
                    wr.internal_create(vec![en]).map_err(e)?;
                }
                Op::Group { n, name, members, .. } => {
                    let mut en: Entry<EntryInit, EntryNew> = Entry::new();
                    for c in ["object", "group"] {
                        en.add_ava(Attribute::Class, Value::new_iutf8(c));
                    }
                    en.add_ava(Attribute::Uuid, Value::Uuid(nat_uuid(*n)));
                    en.add_ava(Attribute::Name, Value::new_iname(name));
                    for m in members {
                        en.add_ava(Attribute::Member, Value::Refer(nat_uuid(*m)));
                    }
                    wr.internal_create(vec![en]).map_err(e)?;
                }
                Op::Rs { n, name, .. } => {
                    let mut en: Entry<EntryInit, EntryNew> = Entry::new();
                    for c in ["object", "account", "oauth2_resource_server", "oauth2_resource_server_basic"] {
                        en.add_ava(Attribute::Class, Value::new_iutf8(c));
                    }
                    en.add_ava(Attribute::Uuid, Value::Uuid(nat_uuid(*n)));
                    en.add_ava(Attribute::Name, Value::new_iname(name));
                    en.add_ava(Attribute::DisplayName, Value::new_utf8s(name));
                    en.add_ava(Attribute::OAuth2RsOriginLanding, Value::new_url_s(&format!("https://{name}.example.com")).unwrap());
                    wr.internal_create(vec![en]).map_err(e)?;
                }
                Op::Rename { n, name, .. } => {
                    let ml = ModifyList::new_list(vec![Modify::Purged(Attribute::Name), Modify::Present(Attribute::Name, Value::new_iname(name))]);
                    wr.internal_modify_uuid(nat_uuid(*n), &ml).map_err(e)?;
                }
                Op::Mail { n, mail, .. } => {
                    let mut v = vec![Modify::Purged(Attribute::Mail)];
                    for m in mails(mail) {
                        v.push(Modify::Present(Attribute::Mail, m));
                    }
                    wr.internal_modify_uuid(nat_uuid(*n), &ModifyList::new_list(v)).map_err(e)?;
                }
                Op::Members { n, members, .. } => {
                    let mut v = vec![Modify::Purged(Attribute::Member)];
                    for m in members {
                        v.push(Modify::Present(Attribute::Member, Value::Refer(nat_uuid(*m))));
                    }
                    wr.internal_modify_uuid(nat_uuid(*n), &ModifyList::new_list(v)).map_err(e)?;
                }
                Op::Claim { n, claim, group, add, .. } => {
                    let m = if *add {
                        Modify::Present(Attribute::OAuth2RsClaimMap, Value::OauthClaimValue(claim.clone(), nat_uuid(*group), BTreeSet::from(["v".to_string()])))
                    } else {
                        Modify::Removed(Attribute::OAuth2RsClaimMap, PartialValue::OauthClaim(claim.clone(), nat_uuid(*group)))
                    };
                    wr.internal_modify_uuid(nat_uuid(*n), &ModifyList::new_list(vec![m])).map_err(e)?;
                }
                Op::Delete { n, .. } => wr.internal_delete_uuid(nat_uuid(*n)).map_err(e)?,
                Op::Revive { n, .. } => {
                    let admin = wr.internal_search_uuid(UUID_ADMIN).map_err(e)?;
                    let ident = Identity::from_impersonate_entry_readwrite(admin);
                    let f = Filter::new(f_eq(Attribute::Uuid, PartialValue::Uuid(nat_uuid(*n))));
                    let re = ReviveRecycledEvent::from_parts(ident, &f, &wr).map_err(e)?;
                    wr.revive_recycled(&re).map_err(e)?;
                }
                Op::PurgeRecycled { .. } => {
                    wr.purge_recycled().map_err(e)?;
                }
                Op::PurgeTombstones { .. } => {
                    wr.purge_tombstones().map_err(e)?;
                }
                Op::Reindex { .. } => wr.reindex(false).map_err(e)?,
                Op::Batch { items, .. } => {
                    let it = items.iter().map(|(n, name)| (nat_uuid(*n), ModifyList::new_list(vec![Modify::Purged(Attribute::Name), Modify::Present(Attribute::Name, Value::new_iname(name))])));
                    wr.internal_batch_modify(it).map_err(e)?;
                }
                Op::Repl { .. } => unreachable!(),
            }
            wr.commit().map_err(e)
        }
    }
}

fn is_masked(e: &Stored) -> bool {
    e.attribute_equality(Attribute::Class, &PartialValue::new_iutf8("tombstone")) || e.attribute_equality(Attribute::Class, &PartialValue::new_iutf8("recycled"))
}

fn proto(e: &Stored, a: Attribute) -> Vec<String> {
    e.get_ava_set(a).map(|vs| vs.to_proto_string_clone_iter().collect()).unwrap_or_default()
}

fn name_value_text(v: &Value) -> String {
    match v {
        Value::Spn(n, d) => format!("spn:{n}@{d}"),
        Value::Iname(s) => format!("name:{s}"),
        Value::Uuid(u) => format!("uuid:{u}"),
        o => format!("?{o:?}"),
    }
}

/// ORACLE on one server
fn check_server(w: &mut World, rt: &tokio::runtime::Runtime, srv: usize, at: usize) -> Result<usize, Fail> {
    let fail = |what: &str, expected: String, observed: String| Fail { what: what.into(), at, srv, expected, observed };
    let mut rd = rt.block_on(w.qs[srv].read()).map_err(|e| fail("infra", "read txn".into(), format!("{e:?}")))?;
    let meta: BTreeSet<String> = c01::idxmeta_dump(rd.get_be_txn())
        .into_iter()
        .map(|(a, t, _)| format!("idx_{}_{}", match t { IndexType::Equality => "eq", IndexType::SubString => "sub", IndexType::Presence => "pres", IndexType::Ordering => "ord" }, a.as_str()))
        .collect();
    let all = w.all.clone();
    let be = rd.get_be_txn();
    let mut stored: Vec<Stored> = be.search(&Limits::unlimited(), &all).map_err(|e| fail("infra", "scan".into(), format!("{e:?}")))?;
    stored.sort_by_key(|e| e.get_id());
    let dump = c01::dump_indexes(be).map_err(|e| fail("infra", "dump".into(), format!("{e:?}")))?;
    let tabs: BTreeSet<String> = dump.iter().map(|(n, _)| n.clone()).collect();
    if tabs != meta {
        return Err(fail("tables", format!("the index metadata: {:?}", meta.difference(&tabs).collect::<Vec<_>>()), format!("extra tables: {:?}", tabs.difference(&meta).collect::<Vec<_>>())));
    }
    let mut rows_checked = 0usize;
    for (name, rows) in dump {
        let (it, attr) = if let Some(a) = name.strip_prefix("idx_eq_") {
            ('e', a)
        } else if let Some(a) = name.strip_prefix("idx_sub_") {
            ('s', a)
        } else if let Some(a) = name.strip_prefix("idx_pres_") {
            ('p', a)
        } else if let Some(a) = name.strip_prefix("idx_ord_") {
            ('o', a)
        } else {
            continue;
        };
        let attr = Attribute::from(attr);
        let mut want: BTreeMap<String, BTreeSet<u64>> = BTreeMap::new();
        for e in &stored {
            if let Some(vs) = e.get_ava_set(&attr) {
                let keys: Vec<String> = match it {
                    'e' => vs.generate_idx_eq_keys(),
                    's' => vs.generate_idx_sub_keys(),
                    'p' => vec!["_".to_string()],
                    _ => vs.generate_idx_ord_keys(),
                };
                for k in keys {
                    want.entry(k).or_default().insert(e.get_id());
                }
            }
        }
        let got: BTreeMap<String, BTreeSet<u64>> = rows.into_iter().filter(|(_, ids)| !ids.is_empty()).map(|(k, ids)| (k, ids.into_iter().collect())).collect();
        rows_checked += got.len();
        if got != want {
            let keys: BTreeSet<&String> = got.keys().chain(want.keys()).collect();
            let k = keys.into_iter().find(|k| got.get(*k) != want.get(*k)).unwrap();
            return Err(fail(&format!("T:{name}"), format!("key {k}: {:?} (rebuilt from the stored entries)", want.get(k)), format!("key {k}: {:?}", got.get(k))));
        }
    }
    // names
    let mut want_n2u: BTreeMap<String, BTreeSet<Uuid>> = BTreeMap::new();
    let mut want_spn: BTreeMap<Uuid, (String, String)> = BTreeMap::new();
    for e in &stored {
        w.uuids.insert(e.get_uuid());
        let mut names = vec![];
        for a in [Attribute::Spn, Attribute::Name, Attribute::GidNumber] {
            names.extend(proto(e, a));
        }
        for n in &names {
            w.names.insert(n.clone());
        }
        if is_masked(e) {
            continue;
        }
        for n in names {
            want_n2u.entry(n).or_default().insert(e.get_uuid());
        }
        let spn = proto(e, Attribute::Spn);
        let nm = proto(e, Attribute::Name);
        let v = if spn.len() == 1 {
            (format!("spn:{}", spn[0]), format!("spn={}", spn[0]))
        } else if nm.len() == 1 {
            (format!("name:{}", nm[0]), format!("name={}", nm[0]))
        } else {
            (format!("uuid:{}", e.get_uuid()), format!("uuid={}", e.get_uuid().as_hyphenated()))
        };
        want_spn.insert(e.get_uuid(), v);
    }
    let names: Vec<String> = w.names.iter().cloned().collect();
    if std::env::var("C03_TRACE").is_ok() {
        let mut line = format!("TRACE after op {at} server {srv}:");
        for n in &names {
            if !n.contains('@') {
                line += &format!(" {n}->{:?}", rd.get_be_txn().name2uuid(n).ok().flatten().map(|u| u.as_u128() & 0xff));
            }
        }
        eprintln!("{line}");
    }
    for n in names {
        let got = rd.get_be_txn().name2uuid(&n).map_err(|e| fail("infra", "name2uuid".into(), format!("{e:?}")))?;
        let want = want_n2u.get(&n);
        let ok = match (got, want) {
            (None, None) => true,
            (Some(u), Some(s)) => s.len() == 1 && s.contains(&u),
            _ => false,
        };
        if !ok {
            return Err(fail("N", format!("name2uuid({n}) = what a scan finds: {want:?}"), format!("{got:?}")));
        }
        // the query server's resolver answers the same
        let qs_got = rd.name_to_uuid(&n).ok();
        if qs_got != got && Uuid::parse_str(&n).is_err() {
            return Err(fail("N", format!("name_to_uuid({n}) = name2uuid = {got:?}"), format!("{qs_got:?}")));
        }
    }
    let uuids: Vec<Uuid> = w.uuids.iter().cloned().collect();
    for u in uuids {
        let got = rd.get_be_txn().uuid2spn(u).map_err(|e| fail("infra", "uuid2spn".into(), format!("{e:?}")))?.map(|v| name_value_text(&v));
        let want = want_spn.get(&u).map(|x| x.0.clone());
        if got != want {
            return Err(fail("S", format!("uuid2spn({u}) = {want:?}"), format!("{got:?}")));
        }
        let got = rd.get_be_txn().uuid2rdn(u).map_err(|e| fail("infra", "uuid2rdn".into(), format!("{e:?}")))?;
        let want = want_spn.get(&u).map(|x| x.1.clone());
        if got != want {
            return Err(fail("R", format!("uuid2rdn({u}) = {want:?}"), format!("{got:?}")));
        }
    }
    let v1 = rd.get_be_txn().verify();
    let v2 = rd.get_be_txn().verify_indexes();
    if !v1.is_empty() || !v2.is_empty() {
        return Err(fail("verify", "verify() and verify_indexes() report nothing".into(), format!("{v1:?} {v2:?}")));
    }
    Ok(rows_checked)
}

#[derive(Default)]
struct Stats {
    commits: u64,
    failed: BTreeMap<String, u64>,
    rows: u64,
    kinds: BTreeSet<&'static str>,
}

fn kind_of(op: &Op) -> &'static str {
    match op {
        Op::Person { .. } | Op::Group { .. } | Op::Rs { .. } => "create",
        Op::Rename { .. } => "rename",
        Op::Mail { .. } | Op::Members { .. } | Op::Claim { .. } => "multi",
        Op::Delete { .. } => "delete",
        Op::Revive { .. } => "revive",
        Op::PurgeRecycled { .. } | Op::PurgeTombstones { .. } => "purge",
        Op::Reindex { .. } => "reindex",
        Op::Batch { .. } => "batch",
        Op::Repl { .. } => "repl",
    }
}


fn run_history(rt: &tokio::runtime::Runtime, h: &History) -> Result<Stats, Fail> {
    let mut w = new_world(rt, h.pair);
    let mut st = Stats::default();
    for srv in 0..w.qs.len() {
        st.rows += check_server(&mut w, rt, srv, 0)? as u64;
    }
    for (i, op) in h.ops.iter().enumerate() {
        let r = std::panic::catch_unwind(std::panic::AssertUnwindSafe(|| exec(&mut w, rt, op)));
        let r = match r {
            Ok(r) => r,
            Err(_) => {
                // the implementation panicked inside the operation (e.g. batch_modify selects tombstones with filter_all and
                // `EntryChangeState::change_ava` is `unreachable!()` for them): not an index question; the world is lost
                *st.failed.entry(format!("{}:PANIC", kind_of(op))).or_default() += 1;
                return Ok(st);
            }
        };
        match r {
            Ok(()) => {
                st.commits += 1;
                st.kinds.insert(kind_of(op));
            }
            Err(e) => {
                if std::env::var("C03_TRACE").is_ok() { eprintln!("TRACE op {i} refused: {e}"); }
                *st.failed.entry(format!("{}:{}", kind_of(op), e.chars().take(40).collect::<String>())).or_default() += 1;
                continue;
            }
        }
        for srv in 0..w.qs.len() {
            st.rows += check_server(&mut w, rt, srv, i)? as u64;
        }
    }
    Ok(st)
}

// ---------------------------------------------------------------------------------------------

const NAMES: [&str; 8] = ["qann", "qanna", "qhanna", "qbob", "qbobby", "qrob", "qrobin", "qzed"];
const MAILS: [&str; 4] = ["Ann@Example.com", "bob@example.com", "rob@ex.org", "a@b.c"];

fn gen_history(rng: &mut Rng, nops: usize, pair: bool) -> History {
    // population bookkeeping is only a bias: operations that do not apply fail and are skipped
    let nsrv = if pair { 2 } else { 1 };
    let mut persons: Vec<u64> = vec![];
    let mut groups: Vec<u64> = vec![];
    let mut rss: Vec<u64> = vec![];
    let mut used_names: BTreeMap<u64, String> = BTreeMap::new();
    let mut claims: BTreeMap<u64, BTreeSet<(String, u64)>> = BTreeMap::new();
    let mut next = 1u64;
    let mut ops = vec![];
    let mut deleted: BTreeSet<u64> = BTreeSet::new();
    // a name is never given to a second entry inside one replication window (D36 otherwise); on a single server names
    // are re-used freely across transactions
    let ever: std::cell::RefCell<BTreeSet<String>> = std::cell::RefCell::new(BTreeSet::new());
    let fresh_name = |rng: &mut Rng, used: &BTreeMap<u64, String>| -> String {
        for _ in 0..40 {
            let n = format!("{}{}", rng.pick(&NAMES), rng.below(if pair { 9 } else { 3 }));
            if !used.values().any(|x| *x == n) && !(pair && ever.borrow().contains(&n)) {
                ever.borrow_mut().insert(n.clone());
                return n;
            }
        }
        let n = format!("qx{}", rng.below(100000));
        ever.borrow_mut().insert(n.clone());
        n
    };
    while ops.len() < nops {
        let srv = rng.below(nsrv) as usize;
        let r = rng.below(100);
        if persons.len() + groups.len() < 2 || r < 15 {
            let n = next;
            next += 1;
            let name = fresh_name(rng, &used_names);
            used_names.insert(n, name.clone());
            match rng.below(5) {
                0 | 1 => {
                    groups.push(n);
                    let members = persons.iter().filter(|_| rng.chance(1, 2)).cloned().collect();
                    ops.push(Op::Group { srv, n, name, members });
                }
                2 if rss.len() < 2 => {
                    rss.push(n);
                    ops.push(Op::Rs { srv, n, name });
                }
                _ => {
                    persons.push(n);
                    let mail = (0..rng.below(3)).map(|i| format!("{i}{}", rng.pick(&MAILS))).collect();
                    ops.push(Op::Person { srv, n, name, gid: if rng.chance(1, 3) { Some(3000 + n as u32) } else { None }, mail });
                }
            }
            if pair && rng.chance(1, 8) {
                // the same uuid (and maybe name) created concurrently on the other server: conflict on replication
                let name2 = if rng.chance(1, 2) { used_names[&n].clone() } else { fresh_name(rng, &used_names) };
                ops.push(Op::Person { srv: 1 - srv, n, name: name2, gid: None, mail: vec![] });
            }
            continue;
        }
        let any: Vec<u64> = persons.iter().chain(groups.iter()).chain(rss.iter()).cloned().collect();
        let n = *rng.pick(&any);
        if r < 35 {
            let name = fresh_name(rng, &used_names);
            used_names.insert(n, name.clone());
            ops.push(Op::Rename { srv, n, name });
        } else if r < 45 {
            if let Some(p) = persons.first().map(|_| *rng.pick(&persons)) {
                let mail = (0..rng.below(4)).map(|i| format!("{i}{}", rng.pick(&MAILS))).collect();
                ops.push(Op::Mail { srv, n: p, mail });
            }
        } else if r < 53 {
            if !groups.is_empty() {
                let g = *rng.pick(&groups);
                let members = any.iter().filter(|x| **x != g && rng.chance(1, 3)).cloned().collect();
                ops.push(Op::Members { srv, n: g, members });
            }
        } else if r < 63 {
            if !rss.is_empty() && !groups.is_empty() {
                let rs = *rng.pick(&rss);
                let set = claims.entry(rs).or_default();
                if !set.is_empty() && rng.chance(1, 2) {
                    let (c, g) = set.iter().next().cloned().unwrap();
                    set.remove(&(c.clone(), g));
                    ops.push(Op::Claim { srv, n: rs, claim: c, group: g, add: false });
                } else {
                    let g = *rng.pick(&groups);
                    // disciplined: a group is mapped by at most one claim of a resource server (D35 otherwise)
                    if !set.iter().any(|(_, g2)| *g2 == g) {
                        let c = format!("c{}", rng.below(3));
                        set.insert((c.clone(), g));
                        ops.push(Op::Claim { srv, n: rs, claim: c, group: g, add: true });
                    }
                }
            }
        } else if r < 72 {
            deleted.insert(n);
            ops.push(Op::Delete { srv, n });
        } else if r < 80 {
            ops.push(Op::Revive { srv, n });
        } else if r < 84 {
            ops.push(Op::PurgeRecycled { srv });
        } else if r < 87 {
            ops.push(Op::PurgeTombstones { srv });
        } else if r < 90 {
            ops.push(Op::Reindex { srv });
        } else if r < 94 {
            // several renames in one transaction, to fresh names only (no name changes hands inside the batch: D36 otherwise)
            let k = (rng.range(2, 3) as usize).min(any.len());
            let mut items = vec![];
            let mut picked = BTreeSet::new();
            for _ in 0..k {
                let m = *rng.pick(&any);
                // batch_modify selects its targets with filter_all: a tombstone among them panics (`unreachable!()` in
                // `change_ava`); entries that were ever deleted stay out of batches
                if !deleted.contains(&m) && picked.insert(m) {
                    let name = fresh_name(rng, &used_names);
                    used_names.insert(m, name.clone());
                    items.push((m, name));
                }
            }
            ops.push(Op::Batch { srv, items });
        } else if pair {
            let from = rng.below(2) as usize;
            ops.push(Op::Repl { from, to: 1 - from });
        }
    }
    if pair {
        ops.push(Op::Repl { from: 0, to: 1 });
        ops.push(Op::Repl { from: 1, to: 0 });
        ops.push(Op::Repl { from: 0, to: 1 });
    }
    History { pair, ops }
}

fn corpus() -> Vec<(&'static str, History)> {
    let p = |n: u64, name: &str| Op::Person { srv: 0, n, name: name.into(), gid: None, mail: vec![] };
    vec![
        // D35 through the public write path: `kanidm system oauth2 update-claim-map` twice with the same group,
        // then `delete-claim-map` of one of them
        (
            "d35-qs",
            History {
                pair: false,
                ops: vec![
                    Op::Group { srv: 0, n: 1, name: "qgroup".into(), members: vec![] },
                    Op::Rs { srv: 0, n: 2, name: "qrs".into() },
                    Op::Claim { srv: 0, n: 2, claim: "ca".into(), group: 1, add: true },
                    Op::Claim { srv: 0, n: 2, claim: "cb".into(), group: 1, add: true },
                    Op::Claim { srv: 0, n: 2, claim: "cb".into(), group: 1, add: false },
                ],
            },
        ),
        // D36 is NOT reachable through batch_modify: attrunique refuses the swap (it compares the candidates with the
        // stored entries); the case documents that and must pass
        ("d36-qs", History { pair: false, ops: vec![p(1, "qann"), p(2, "qbob"), Op::Batch { srv: 0, items: vec![(1, "qbob".into()), (2, "qann".into())] }] }),
        // D36 through replication: on A, qbob (smaller id) and qann exist; A renames qann -> qzed, then qbob -> qann (two valid
        // transactions); B applies both in ONE incremental batch in id order: qbob's entry takes `qann` first, then the former
        // qann's entry releases `qann` => name2uuid(qann) = None on B
        (
            "d36-repl",
            History {
                pair: true,
                ops: vec![
                    p(1, "qbob"),
                    p(2, "qann"),
                    Op::Repl { from: 0, to: 1 },
                    Op::Rename { srv: 0, n: 2, name: "qzed".into() },
                    Op::Rename { srv: 0, n: 1, name: "qann".into() },
                    Op::Repl { from: 0, to: 1 },
                ],
            },
        ),
        // the same hand-over with the releasing entry first in id order: passes
        (
            "handover-repl-pass",
            History {
                pair: true,
                ops: vec![
                    p(2, "qann"),
                    p(1, "qbob"),
                    Op::Repl { from: 0, to: 1 },
                    Op::Rename { srv: 0, n: 2, name: "qzed".into() },
                    Op::Rename { srv: 0, n: 1, name: "qann".into() },
                    Op::Repl { from: 0, to: 1 },
                ],
            },
        ),
        // passing: lifecycle with recycle / revive / purge / reindex
        (
            "lifecycle-qs",
            History {
                pair: false,
                ops: vec![
                    Op::Person { srv: 0, n: 1, name: "qann".into(), gid: Some(3001), mail: vec!["Ann@Example.com".into(), "a@b.c".into()] },
                    Op::Group { srv: 0, n: 2, name: "qgroup".into(), members: vec![1] },
                    Op::Rename { srv: 0, n: 1, name: "qanna".into() },
                    Op::Mail { srv: 0, n: 1, mail: vec!["a@b.c".into()] },
                    Op::Delete { srv: 0, n: 1 },
                    Op::Revive { srv: 0, n: 1 },
                    Op::Delete { srv: 0, n: 1 },
                    Op::PurgeRecycled { srv: 0 },
                    Op::Reindex { srv: 0 },
                    Op::PurgeTombstones { srv: 0 },
                ],
            },
        ),
    ]
}

/// does the history's last operation have the shape of a known finding?
fn classify(h: &History, f: &Fail) -> String {
    let last = h.ops.get(f.at);
    // D35: an equality row of the claim-map table is wrong after a claim-map edit of a resource server that maps
    // one group under two claims
    if f.what == "T:idx_eq_oauth2_rs_claim_map" {
        if let Some(Op::Claim { n, .. }) = last {
            let mut set: BTreeSet<(String, u64)> = BTreeSet::new();
            let mut dup = false;
            for op in &h.ops[..f.at] {
                if let Op::Claim { n: n2, claim, group, add, .. } = op {
                    if n2 == n {
                        if *add {
                            set.insert((claim.clone(), *group));
                        } else {
                            set.remove(&(claim.clone(), *group));
                        }
                        let groups: Vec<u64> = set.iter().map(|x| x.1).collect();
                        dup = groups.len() != groups.iter().collect::<BTreeSet<_>>().len();
                    }
                }
            }
            if dup {
                return "C03-F1:dup-eq-keys-merge".into();
            }
        }
    }
    // D36: a name lookup is wrong after one transaction / one replication batch in which a name changed hands
    if f.what == "N" || f.what == "verify" {
        let mut owner: BTreeMap<String, u64> = BTreeMap::new();
        let mut since_repl: Vec<(u64, String)> = vec![];
        let mut handoff_in_repl = false;
        for (i, op) in h.ops.iter().enumerate() {
            if i > f.at {
                break;
            }
            match op {
                Op::Person { n, name, .. } | Op::Group { n, name, .. } | Op::Rs { n, name, .. } => {
                    owner.insert(name.clone(), *n);
                }
                Op::Rename { n, name, .. } => {
                    // a name released earlier in the same replication window and now taken by another entry
                    if let Some(prev) = since_repl.iter().find(|(m, _)| m != n && owner.get(name) == Some(m)) {
                        let _ = prev;
                        handoff_in_repl = true;
                    }
                    let old: Vec<String> = owner.iter().filter(|(_, o)| *o == n).map(|(k, _)| k.clone()).collect();
                    if let Some(o) = owner.get(name) {
                        if o != n && since_repl.iter().any(|(m, _)| m == o) {
                            handoff_in_repl = true;
                        }
                    }
                    for o in &old {
                        since_repl.push((*n, o.clone()));
                    }
                    owner.insert(name.clone(), *n);
                }
                Op::Repl { .. } => {
                    if i < f.at {
                        since_repl.clear();
                        handoff_in_repl = false;
                    }
                }
                _ => {}
            }
        }
        match last {
            Some(Op::Batch { items, .. }) => {
                // some item takes a name another item of the batch holds
                let mut holds: BTreeMap<u64, String> = BTreeMap::new();
                for op in &h.ops[..f.at] {
                    match op {
                        Op::Person { n, name, .. } | Op::Group { n, name, .. } | Op::Rs { n, name, .. } | Op::Rename { n, name, .. } => {
                            holds.insert(*n, name.clone());
                        }
                        Op::Batch { items, .. } => {
                            for (n, name) in items {
                                holds.insert(*n, name.clone());
                            }
                        }
                        _ => {}
                    }
                }
                if items.iter().any(|(n, name)| items.iter().any(|(m, _)| m != n && holds.get(m) == Some(name))) {
                    return "C03-F2:batch-name-handoff".into();
                }
            }
            Some(Op::Repl { .. }) if handoff_in_repl || {
                // a name released by one entry and taken by another since the previous replication of this direction
                let mut rel: BTreeSet<String> = BTreeSet::new();
                let mut hand = false;
                let mut holds: BTreeMap<u64, String> = BTreeMap::new();
                let start = h.ops[..f.at].iter().rposition(|o| matches!(o, Op::Repl { .. })).map(|x| x + 1).unwrap_or(0);
                for (i, op) in h.ops[..f.at].iter().enumerate() {
                    match op {
                        Op::Person { n, name, .. } | Op::Group { n, name, .. } | Op::Rs { n, name, .. } => {
                            holds.insert(*n, name.clone());
                        }
                        Op::Rename { n, name, .. } => {
                            if i >= start {
                                if rel.contains(name) {
                                    hand = true;
                                }
                                if let Some(old) = holds.get(n) {
                                    rel.insert(old.clone());
                                }
                            }
                            holds.insert(*n, name.clone());
                        }
                        _ => {}
                    }
                }
                hand
            } =>
            {
                return "C03-F2:batch-name-handoff".into();
            }
            _ => {}
        }
    }
    "unclassified".into()
}

fn shrink(rt: &tokio::runtime::Runtime, h: &History) -> History {
    let pair = h.pair;
    let ops = shrink_list(h.ops.clone(), |cand| run_history(rt, &History { pair, ops: cand.to_vec() }).is_err());
    History { pair, ops }
}

fn main() {
    let args = Args::parse();
    let rt = tokio::runtime::Builder::new_current_thread().enable_all().build().unwrap();
    let mut rep = Report::new(
        "qs-index",
        "histories of committed query-server write transactions (create person/group/OAuth2 RS, rename, mail / member / claim-map edits, \
         delete, revive, purge_recycled, purge_tombstones, batch_modify, reindex) on a migrated server or a replicating pair (incremental \
         replication both ways, concurrent creates of one uuid); after every commit on every server ALL index tables of the server's schema \
         (raw dump) are compared with a rebuild from an unindexed scan through the value sets' public key generators, the table set with \
         the index metadata, name2uuid / uuid2spn / uuid2rdn / name_to_uuid with a scan of the live entries, and verify() must be empty. \
         non-trivial = >= 8 commits AND >= 4 operation kinds AND (rename or revive) AND a multi-valued edit; distinct = distinct history",
    );
    if let Some(path) = &args.replay {
        let j: Json = serde_json::from_str(&std::fs::read_to_string(path).expect("replay file")).expect("json");
        let input = if j["input"].is_null() { j.clone() } else { j["input"].clone() };
        let h = History::from_json(&input["history"]);
        rep.case(None);
        if let Err(f) = run_history(&rt, &h) {
            let class = classify(&h, &f);
            rep.fail(Failure { kind: "impl-vs-oracle".into(), class, input: input.clone(), expected: f.expected, observed: f.observed });
        }
        rep.write(&args.out);
        println!("c03qs: replay, {} failures", rep.failures.len());
        return;
    }
    let mut handle = |rep: &mut Report, tag: String, h: &History, shrinkable: bool| -> bool {
        match run_history(&rt, h) {
            Ok(st) => {
                let nt = st.commits >= 8 && st.kinds.len() >= 4 && (st.kinds.contains("rename") || st.kinds.contains("revive")) && st.kinds.contains("multi");
                rep.case(if nt { Some(tag) } else { None });
                rep.count_n("commits", st.commits);
                rep.count_n("index-rows-compared", st.rows);
                for (k, v) in &st.failed {
                    rep.count_n(&format!("refused:{k}"), *v);
                }
                for k in &st.kinds {
                    rep.count(&format!("kind:{k}"));
                }
                false
            }
            Err(f) => {
                rep.case(None);
                let small = if shrinkable { shrink(&rt, h) } else { h.clone() };
                let f2 = run_history(&rt, &small).err().unwrap_or(f);
                let class = classify(&small, &f2);
                rep.count(&format!("failure:{class}"));
                rep.fail(Failure {
                    kind: if f2.what == "infra" { "impl-vs-model".into() } else { "impl-vs-oracle".into() },
                    class: class.clone(),
                    input: json!({"case": tag, "history": small.to_json(), "at_op": f2.at, "server": f2.srv, "table": f2.what}),
                    expected: f2.expected,
                    observed: f2.observed,
                });
                class == "unclassified"
            }
        }
    };
    for (tag, h) in corpus() {
        rep.count("stratum:corpus");
        handle(&mut rep, format!("corpus:{tag}"), &h, true);
    }
    let n = args.cases(4, 120);
    for i in 0..n {
        let mut rng = Rng::for_case(args.seed, 1000 + i);
        let pair = i % 3 == 2;
        let nops = rng.range(20, if args.thorough() { 60 } else { 30 }) as usize;
        let h = gen_history(&mut rng, nops, pair);
        rep.count(if pair { "stratum:pair" } else { "stratum:single" });
        if handle(&mut rep, format!("{}:{i}", args.seed), &h, true) {
            break;
        }
    }
    rep.write(&args.out);
    println!("c03qs: {} cases, {} distinct non-trivial, {} failures", rep.evaluations, rep.nontrivial_keys.len(), rep.failures.len());
}
