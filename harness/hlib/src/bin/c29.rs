//! C29 — TOTP accepts exactly the current and previous code.
//!
//! Three parties per case, same inputs:
//!   * implementation: the real `Totp::verify` / `Totp::do_totp_duration_from_epoch`
//!     (`kanidmd_lib::credential::totp`, public API; tokens built by `Totp::new`, through
//!     `TryFrom<ProtoTotp>` or through `TryFrom<DbTotpV1>` (hook `verif_hooks::c29`)), panics
//!     caught (`p`); the raw HMAC of `TotpAlgo::digest` (hook) for both counters;
//!   * model: `km_c29` (`verifyMany` / `doTotp` / `ofProto` of KanidmModel/Totp.lean), compared
//!     reply for reply (`impl-vs-model`);
//!   * oracle: RFC 6238 written in this file from the RFCs only (own SHA-1/SHA-256/SHA-512
//!     (FIPS 180-4), own HMAC (RFC 2104, long keys hashed first), RFC 4226 §5.4 truncation
//!     expression), self-tested against RFC 2202 / 4231 / 4226 / 6238 vectors at start-up and
//!     cross-checked case by case against Python's `hmac`/`hashlib` (OpenSSL). The statement:
//!     for step > 0 and secs >= step, accept <=> chal is the code of counter secs/step or of
//!     the counter before (`impl-vs-oracle`).
//!
//! Streams in one report (histogram keys are prefixed): `corpus` (RFC vectors, kanidm's unit
//! test vectors, D7 witnesses: 65/65/129-byte secrets and the block-size boundaries), `rand`
//! (in-domain random cases), `edge` (out of the statement's domain — step 0, secs < step —
//! correspondence only: both sides must panic / accept alike), `badproto` (digits other than
//! 6/8 must be refused by `TryFrom<ProtoTotp>`).
use hlib::*;
use kanidm_proto::internal::{TotpAlgo as ProtoAlgo, TotpSecret};
use kanidmd_lib::credential::totp::{Totp, TotpAlgo, TotpDigits};
use kanidmd_lib::verif_hooks::c29 as hook;
use serde_json::{json, Value};
use std::io::{BufRead, BufReader, Write};
use std::process::{Child, ChildStdin, ChildStdout, Command, Stdio};
use std::time::Duration;

// ---------------------------------------------------------------------------------------
// Oracle: RFC 6238 from the standards (no code shared with kanidm, RustCrypto or the model)
// ---------------------------------------------------------------------------------------
mod rfc {
    fn pad(msg: &[u8], block: usize, lenbytes: usize) -> Vec<u8> {
        let mut m = msg.to_vec();
        m.push(0x80);
        while (m.len() + lenbytes) % block != 0 {
            m.push(0);
        }
        let bits = (msg.len() as u128) * 8;
        let be = bits.to_be_bytes();
        m.extend_from_slice(&be[16 - lenbytes..]);
        m
    }

    pub fn sha1(msg: &[u8]) -> Vec<u8> {
        let mut h: [u32; 5] = [0x67452301, 0xEFCDAB89, 0x98BADCFE, 0x10325476, 0xC3D2E1F0];
        for chunk in pad(msg, 64, 8).chunks(64) {
            let mut w = [0u32; 80];
            for i in 0..16 {
                w[i] = u32::from_be_bytes([chunk[4 * i], chunk[4 * i + 1], chunk[4 * i + 2], chunk[4 * i + 3]]);
            }
            for i in 16..80 {
                w[i] = (w[i - 3] ^ w[i - 8] ^ w[i - 14] ^ w[i - 16]).rotate_left(1);
            }
            let (mut a, mut b, mut c, mut d, mut e) = (h[0], h[1], h[2], h[3], h[4]);
            for (i, wi) in w.iter().enumerate() {
                let (f, k) = match i / 20 {
                    0 => ((b & c) | (!b & d), 0x5A827999u32),
                    1 => (b ^ c ^ d, 0x6ED9EBA1),
                    2 => ((b & c) | (b & d) | (c & d), 0x8F1BBCDC),
                    _ => (b ^ c ^ d, 0xCA62C1D6),
                };
                let t = a.rotate_left(5).wrapping_add(f).wrapping_add(e).wrapping_add(k).wrapping_add(*wi);
                e = d;
                d = c;
                c = b.rotate_left(30);
                b = a;
                a = t;
            }
            for (x, y) in h.iter_mut().zip([a, b, c, d, e]) {
                *x = x.wrapping_add(y);
            }
        }
        h.iter().flat_map(|x| x.to_be_bytes()).collect()
    }

    fn is_prime(n: u64) -> bool {
        n >= 2 && (2..).take_while(|d| d * d <= n).all(|d| n % d != 0)
    }

    /// floor(frac(p^(1/root)) * 2^bits), by integer bisection on x^root <= p * 2^(bits*root).
    fn frac_root(p: u64, root: u32, bits: u32) -> u64 {
        // x = floor(p^(1/root) * 2^bits); compare x^root with p << (bits*root) in 256-bit
        // arithmetic done with u128 limbs (x < 2^(bits+3) <= 2^67 for bits=64: use (hi, lo)).
        fn mul(a: &[u64], b: &[u64]) -> Vec<u64> {
            let mut r = vec![0u64; a.len() + b.len()];
            for (i, x) in a.iter().enumerate() {
                let mut carry = 0u128;
                for (j, y) in b.iter().enumerate() {
                    let cur = r[i + j] as u128 + (*x as u128) * (*y as u128) + carry;
                    r[i + j] = cur as u64;
                    carry = cur >> 64;
                }
                let mut k = i + b.len();
                while carry > 0 {
                    let cur = r[k] as u128 + carry;
                    r[k] = cur as u64;
                    carry = cur >> 64;
                    k += 1;
                }
            }
            r
        }
        fn le(a: &[u64], b: &[u64]) -> bool {
            let n = a.len().max(b.len());
            for i in (0..n).rev() {
                let x = a.get(i).copied().unwrap_or(0);
                let y = b.get(i).copied().unwrap_or(0);
                if x != y {
                    return x < y;
                }
            }
            true
        }
        // target = p << (bits*root), little-endian limbs
        let shift = (bits * root) as usize;
        let mut target = vec![0u64; shift / 64 + 3];
        target[shift / 64] |= p << (shift % 64);
        if shift % 64 != 0 {
            target[shift / 64 + 1] |= p >> (64 - shift % 64);
        }
        // bisection over x in [0, 2^(bits+4))
        let mut lo: u128 = 0;
        let mut hi: u128 = 1u128 << (bits + 4);
        while hi - lo > 1 {
            let mid = lo + (hi - lo) / 2;
            let m = [mid as u64, (mid >> 64) as u64];
            let mut pw = m.to_vec();
            for _ in 1..root {
                pw = mul(&pw, &m);
            }
            if le(&pw, &target) {
                lo = mid;
            } else {
                hi = mid;
            }
        }
        // lo = floor(p^(1/root) * 2^bits); keep the fractional bits
        if bits == 64 {
            lo as u64
        } else {
            (lo & ((1u128 << bits) - 1)) as u64
        }
    }

    /// FIPS 180-4 §4.2.2/§4.2.3 and §5.3: constants are the fractional parts of the cube /
    /// square roots of the first primes — derived here, not typed in.
    fn constants(bits: u32, nk: usize) -> &'static (Vec<u64>, Vec<u64>) {
        static C32: std::sync::OnceLock<(Vec<u64>, Vec<u64>)> = std::sync::OnceLock::new();
        static C64: std::sync::OnceLock<(Vec<u64>, Vec<u64>)> = std::sync::OnceLock::new();
        let cell = if bits == 32 { &C32 } else { &C64 };
        cell.get_or_init(|| derive_constants(bits, nk))
    }

    fn derive_constants(bits: u32, nk: usize) -> (Vec<u64>, Vec<u64>) {
        let primes: Vec<u64> = (2u64..).filter(|n| is_prime(*n)).take(nk).collect();
        let k = primes.iter().map(|p| frac_root(*p, 3, bits)).collect();
        let h = primes.iter().take(8).map(|p| frac_root(*p, 2, bits)).collect();
        (k, h)
    }

    pub fn sha256(msg: &[u8]) -> Vec<u8> {
        let (k, h0) = constants(32, 64);
        let mut h: Vec<u32> = h0.iter().map(|x| *x as u32).collect();
        for chunk in pad(msg, 64, 8).chunks(64) {
            let mut w = [0u32; 64];
            for i in 0..16 {
                w[i] = u32::from_be_bytes([chunk[4 * i], chunk[4 * i + 1], chunk[4 * i + 2], chunk[4 * i + 3]]);
            }
            for i in 16..64 {
                let s0 = w[i - 15].rotate_right(7) ^ w[i - 15].rotate_right(18) ^ (w[i - 15] >> 3);
                let s1 = w[i - 2].rotate_right(17) ^ w[i - 2].rotate_right(19) ^ (w[i - 2] >> 10);
                w[i] = w[i - 16].wrapping_add(s0).wrapping_add(w[i - 7]).wrapping_add(s1);
            }
            let mut v: Vec<u32> = h.clone();
            for i in 0..64 {
                let s1 = v[4].rotate_right(6) ^ v[4].rotate_right(11) ^ v[4].rotate_right(25);
                let ch = (v[4] & v[5]) ^ (!v[4] & v[6]);
                let t1 = v[7].wrapping_add(s1).wrapping_add(ch).wrapping_add(k[i] as u32).wrapping_add(w[i]);
                let s0 = v[0].rotate_right(2) ^ v[0].rotate_right(13) ^ v[0].rotate_right(22);
                let maj = (v[0] & v[1]) ^ (v[0] & v[2]) ^ (v[1] & v[2]);
                let t2 = s0.wrapping_add(maj);
                v = vec![t1.wrapping_add(t2), v[0], v[1], v[2], v[3].wrapping_add(t1), v[4], v[5], v[6]];
            }
            for (x, y) in h.iter_mut().zip(v) {
                *x = x.wrapping_add(y);
            }
        }
        h.iter().flat_map(|x| x.to_be_bytes()).collect()
    }

    pub fn sha512(msg: &[u8]) -> Vec<u8> {
        let (k, h0) = constants(64, 80);
        let mut h: Vec<u64> = h0.clone();
        for chunk in pad(msg, 128, 16).chunks(128) {
            let mut w = [0u64; 80];
            for i in 0..16 {
                let mut b = [0u8; 8];
                b.copy_from_slice(&chunk[8 * i..8 * i + 8]);
                w[i] = u64::from_be_bytes(b);
            }
            for i in 16..80 {
                let s0 = w[i - 15].rotate_right(1) ^ w[i - 15].rotate_right(8) ^ (w[i - 15] >> 7);
                let s1 = w[i - 2].rotate_right(19) ^ w[i - 2].rotate_right(61) ^ (w[i - 2] >> 6);
                w[i] = w[i - 16].wrapping_add(s0).wrapping_add(w[i - 7]).wrapping_add(s1);
            }
            let mut v: Vec<u64> = h.clone();
            for i in 0..80 {
                let s1 = v[4].rotate_right(14) ^ v[4].rotate_right(18) ^ v[4].rotate_right(41);
                let ch = (v[4] & v[5]) ^ (!v[4] & v[6]);
                let t1 = v[7].wrapping_add(s1).wrapping_add(ch).wrapping_add(k[i]).wrapping_add(w[i]);
                let s0 = v[0].rotate_right(28) ^ v[0].rotate_right(34) ^ v[0].rotate_right(39);
                let maj = (v[0] & v[1]) ^ (v[0] & v[2]) ^ (v[1] & v[2]);
                let t2 = s0.wrapping_add(maj);
                v = vec![t1.wrapping_add(t2), v[0], v[1], v[2], v[3].wrapping_add(t1), v[4], v[5], v[6]];
            }
            for (x, y) in h.iter_mut().zip(v) {
                *x = x.wrapping_add(y);
            }
        }
        h.iter().flat_map(|x| x.to_be_bytes()).collect()
    }

    /// algo: 1, 256, 512
    pub fn hash(algo: u32, msg: &[u8]) -> Vec<u8> {
        match algo {
            1 => sha1(msg),
            256 => sha256(msg),
            _ => sha512(msg),
        }
    }
    pub fn block(algo: u32) -> usize {
        if algo == 512 {
            128
        } else {
            64
        }
    }

    /// RFC 2104.
    pub fn hmac(algo: u32, key: &[u8], text: &[u8]) -> Vec<u8> {
        let b = block(algo);
        let mut k = if key.len() > b { hash(algo, key) } else { key.to_vec() };
        k.resize(b, 0);
        let mut inner: Vec<u8> = k.iter().map(|x| x ^ 0x36).collect();
        inner.extend_from_slice(text);
        let mut outer: Vec<u8> = k.iter().map(|x| x ^ 0x5c).collect();
        outer.extend_from_slice(&hash(algo, &inner));
        hash(algo, &outer)
    }

    /// RFC 4226 §5.3 / §5.4 with an 8-byte big-endian counter.
    pub fn hotp(algo: u32, key: &[u8], counter: u64, digits: u32) -> u32 {
        let hs = hmac(algo, key, &counter.to_be_bytes());
        let offset = (hs[hs.len() - 1] & 0xf) as usize;
        let bin = (((hs[offset] & 0x7f) as u32) << 24)
            | ((hs[offset + 1] as u32) << 16)
            | ((hs[offset + 2] as u32) << 8)
            | (hs[offset + 3] as u32);
        bin % 10u32.pow(digits)
    }

    fn hex(b: &[u8]) -> String {
        b.iter().map(|x| format!("{x:02x}")).collect()
    }

    /// Known answers; a wrong oracle must never run.
    pub fn self_test() {
        assert_eq!(hex(&sha1(b"abc")), "a9993e364706816aba3e25717850c26c9cd0d89d");
        assert_eq!(hex(&sha256(b"abc")), "ba7816bf8f01cfea414140de5dae2223b00361a396177a9cb410ff61f20015ad");
        assert_eq!(
            hex(&sha512(b"abc")),
            "ddaf35a193617abacc417349ae20413112e6fa4e89a97ea20a9eeee64b55d39a2192992a274fc1a836ba3c23a3feebbd454d4423643ce80e2a9ac94fa54ca49f"
        );
        // two-block messages (FIPS 180 examples)
        assert_eq!(
            hex(&sha1(b"abcdbcdecdefdefgefghfghighijhijkijkljklmklmnlmnomnopnopq")),
            "84983e441c3bd26ebaae4aa1f95129e5e54670f1"
        );
        assert_eq!(
            hex(&sha256(b"abcdbcdecdefdefgefghfghighijhijkijkljklmklmnlmnomnopnopq")),
            "248d6a61d20638b8e5c026930c3e6039a33ce45964ff2167f6ecedd419db06c1"
        );
        // RFC 2202 case 1 and case 6 (80-byte key, longer than the block)
        assert_eq!(hex(&hmac(1, &[0x0b; 20], b"Hi There")), "b617318655057264e28bc0b6fb378c8ef146be00");
        assert_eq!(
            hex(&hmac(1, &[0xaa; 80], b"Test Using Larger Than Block-Size Key - Hash Key First")),
            "aa4ae5e15272d00e95705637ce8a3b55ed402112"
        );
        // RFC 4231 case 6 (131-byte key)
        assert_eq!(
            hex(&hmac(256, &[0xaa; 131], b"Test Using Larger Than Block-Size Key - Hash Key First")),
            "60e431591ee0b67f0d8a26aacbf5b77f8e0bc6213728c5140546040f0ee37f54"
        );
        assert_eq!(
            hex(&hmac(512, &[0xaa; 131], b"Test Using Larger Than Block-Size Key - Hash Key First")),
            "80b24263c7c1a3ebb71493c1dd7be8b49b46d1f41b4aeec1121b013783f8f3526b56d037e05f2598bd0fd2215d6a1e5295e64f73f63f0aec8b915a985d786598"
        );
        // RFC 4226 Appendix D
        let seed = b"12345678901234567890";
        let want = [755224, 287082, 359152, 969429, 338314, 254676, 287922, 162583, 399871, 520489];
        for (c, w) in want.iter().enumerate() {
            assert_eq!(hotp(1, seed, c as u64, 6), *w);
        }
        // RFC 6238 Appendix B
        let s32 = b"12345678901234567890123456789012";
        let s64 = b"1234567890123456789012345678901234567890123456789012345678901234";
        for (t, a, b, c) in [
            (59u64, 94287082, 46119246, 90693936),
            (1111111109, 7081804, 68084774, 25091201),
            (1111111111, 14050471, 67062674, 99943326),
            (1234567890, 89005924, 91819424, 93441116),
            (2000000000, 69279037, 90698825, 38618901),
            (20000000000, 65353130, 77737706, 47863826),
        ] {
            assert_eq!(hotp(1, seed, t / 30, 8), a);
            assert_eq!(hotp(256, s32, t / 30, 8), b);
            assert_eq!(hotp(512, s64, t / 30, 8), c);
        }
    }
}

// ---------------------------------------------------------------------------------------
// Second opinion on the oracle: Python's hmac/hashlib (OpenSSL)
// ---------------------------------------------------------------------------------------
const PY: &str = r#"
import sys, hmac, struct
names = {"1": "sha1", "256": "sha256", "512": "sha512"}
for line in sys.stdin:
    a, key, counter, digits = line.split()
    key = b"" if key == "-" else bytes.fromhex(key)
    hs = hmac.new(key, struct.pack(">Q", int(counter)), names[a]).digest()
    o = hs[-1] & 15
    print((struct.unpack(">I", hs[o:o+4])[0] & 0x7fffffff) % 10 ** int(digits))
    sys.stdout.flush()
"#;

struct Py {
    _child: Child,
    stdin: ChildStdin,
    stdout: BufReader<ChildStdout>,
}

impl Py {
    fn spawn() -> Option<Py> {
        let mut child = Command::new("python3")
            .args(["-c", PY])
            .stdin(Stdio::piped())
            .stdout(Stdio::piped())
            .stderr(Stdio::null())
            .spawn()
            .ok()?;
        let stdin = child.stdin.take()?;
        let stdout = BufReader::new(child.stdout.take()?);
        Some(Py { _child: child, stdin, stdout })
    }
    fn hotp(&mut self, algo: u32, key: &[u8], counter: u64, digits: u32) -> Option<u32> {
        writeln!(self.stdin, "{algo} {} {counter} {digits}", hexkey(key)).ok()?;
        self.stdin.flush().ok()?;
        let mut s = String::new();
        self.stdout.read_line(&mut s).ok()?;
        s.trim().parse().ok()
    }
}

// ---------------------------------------------------------------------------------------

fn hexkey(b: &[u8]) -> String {
    if b.is_empty() {
        "-".into()
    } else {
        b.iter().map(|x| format!("{x:02x}")).collect()
    }
}

fn unhex(s: &str) -> Vec<u8> {
    if s == "-" {
        return vec![];
    }
    (0..s.len() / 2).map(|i| u8::from_str_radix(&s[2 * i..2 * i + 2], 16).unwrap()).collect()
}

#[derive(Clone, Debug)]
struct Case {
    stream: &'static str,
    algo: u32,    // 1 | 256 | 512
    digits: u8,   // 6 | 8 (other values only with routes "proto"/"db"; 0 with "db" = field absent)
    route: &'static str, // "new" | "proto" | "db"
    step: u64,
    secs: u64,
    nanos: u32,
    key: Vec<u8>,
    chals: Vec<u32>,
}

impl Case {
    fn to_json(&self) -> Value {
        json!({"stream": self.stream, "algo": self.algo, "digits": self.digits, "route": self.route,
               "step": self.step, "secs": self.secs, "nanos": self.nanos, "key": hexkey(&self.key),
               "chals": self.chals})
    }
    fn from_json(v: &Value) -> Case {
        let stream = match v["stream"].as_str().unwrap_or("rand") {
            "corpus" => "corpus",
            "edge" => "edge",
            "badproto" => "badproto",
            _ => "rand",
        };
        Case {
            stream,
            algo: v["algo"].as_u64().unwrap() as u32,
            digits: v["digits"].as_u64().unwrap() as u8,
            route: match v["route"].as_str() {
                Some("proto") => "proto",
                Some("db") => "db",
                _ => "new",
            },
            step: v["step"].as_u64().unwrap(),
            secs: v["secs"].as_u64().unwrap(),
            nanos: v["nanos"].as_u64().unwrap_or(0) as u32,
            key: unhex(v["key"].as_str().unwrap()),
            chals: v["chals"].as_array().unwrap().iter().map(|x| x.as_u64().unwrap() as u32).collect(),
        }
    }
    /// The digit count the token ends up with (`db` route, field absent: six).
    fn eff_digits(&self) -> u8 {
        if self.route == "db" && self.digits == 0 {
            6
        } else {
            self.digits
        }
    }
    fn in_domain(&self) -> bool {
        self.step > 0 && self.secs >= self.step
    }
    fn model_lines(&self) -> (String, Option<String>) {
        let chals = if self.chals.is_empty() {
            "-".to_string()
        } else {
            self.chals.iter().map(|c| c.to_string()).collect::<Vec<_>>().join(",")
        };
        let op = match self.route {
            "proto" => "pverify",
            "db" => "dverify",
            _ => "verify",
        };
        let digits = if self.route == "db" && self.digits == 0 { "none".to_string() } else { self.digits.to_string() };
        let v = format!("{op} {} {digits} {} {} {} {chals}", self.algo, self.step, self.secs, hexkey(&self.key));
        let c = if self.eff_digits() == 6 || self.eff_digits() == 8 {
            Some(format!("code {} {} {} {} {}", self.algo, self.eff_digits(), self.step, self.secs, hexkey(&self.key)))
        } else {
            None
        };
        (v, c)
    }
}

fn quiet<T>(f: impl FnOnce() -> T) -> Option<T> {
    std::panic::catch_unwind(std::panic::AssertUnwindSafe(f)).ok()
}

fn real_algo(a: u32) -> TotpAlgo {
    match a {
        1 => TotpAlgo::Sha1,
        256 => TotpAlgo::Sha256,
        _ => TotpAlgo::Sha512,
    }
}
fn proto_algo(a: u32) -> ProtoAlgo {
    match a {
        1 => ProtoAlgo::Sha1,
        256 => ProtoAlgo::Sha256,
        _ => ProtoAlgo::Sha512,
    }
}

/// Build the real token; `None` = the conversion refused it.
fn build(c: &Case) -> Option<Totp> {
    if c.route == "proto" {
        Totp::try_from(TotpSecret {
            accountname: "a".into(),
            issuer: "i".into(),
            secret: c.key.clone(),
            algo: proto_algo(c.algo),
            step: c.step,
            digits: c.digits,
        })
        .ok()
    } else if c.route == "db" {
        hook::from_db(c.key.clone(), c.step, c.algo, if c.digits == 0 { None } else { Some(c.digits) }).ok()
    } else {
        let d = if c.digits == 6 { TotpDigits::Six } else { TotpDigits::Eight };
        Some(Totp::new(c.key.clone(), c.step, real_algo(c.algo), d))
    }
}

struct Ctx {
    /// `--simulate future|d7|mask`: replace the implementation's verdicts by those of a simulated
    /// defective implementation (built from the oracle's parts) to exercise the oracle channel
    /// and its class recognisers without touching /repo. Never set by `./check`.
    simulate: Option<String>,
    drv: Driver,
    py: Option<Py>,
    rep: Report,
    pending: Vec<Case>,
}

/// Which code of the neighbourhood (if any) a candidate is: offset of the counter.
fn which_code(c: &Case, chal: u32) -> Option<i64> {
    let counter = c.secs / c.step;
    for k in [0i64, -1, 1, -2, 2, -3, 3] {
        let cc = counter as i128 + k as i128;
        if cc < 0 || cc > u64::MAX as i128 {
            continue;
        }
        if rfc::hotp(c.algo, &c.key, cc as u64, c.eff_digits() as u32) == chal {
            return Some(k);
        }
    }
    None
}

fn classify(c: &Case, chal: u32, observed: char) -> String {
    let long = c.key.len() > rfc::block(c.algo);
    match (which_code(c, chal), observed) {
        (_, 'p') => "panic-in-domain".into(),
        (Some(0), 'r') if long => "D7:long-secret-rejected".into(),
        (Some(-1), 'r') if long => "D7:long-secret-rejected".into(),
        (Some(0), 'r') => "window:rejects-current-code".into(),
        (Some(-1), 'r') => "window:rejects-previous-code".into(),
        (Some(k), 'a') if k > 0 => "window:accepts-future-code".into(),
        (Some(_), 'a') => "window:accepts-older-code".into(),
        (None, 'a') => "accepts-non-code".into(),
        _ => "unclassified".into(),
    }
}

impl Ctx {
    fn push(&mut self, c: Case) {
        self.pending.push(c);
        if self.pending.len() >= 12 {
            self.flush();
        }
    }

    fn flush(&mut self) {
        let cases = std::mem::take(&mut self.pending);
        let mut lines = vec![];
        let mut idx = vec![];
        for c in &cases {
            let (v, code) = c.model_lines();
            let vi = lines.len();
            lines.push(v);
            let ci = code.map(|l| {
                lines.push(l);
                lines.len() - 1
            });
            let ri = if c.in_domain() && (c.eff_digits() == 6 || c.eff_digits() == 8) {
                lines.push(format!("rfc {} {} {} {} {}", c.algo, c.eff_digits(), c.step, c.secs, hexkey(&c.key)));
                Some(lines.len() - 1)
            } else {
                None
            };
            // raw HMAC for the current and the previous counter
            let hi = if c.in_domain() {
                let counter = c.secs / c.step;
                lines.push(format!("hmac {} {} {}", c.algo, hexkey(&c.key), counter));
                lines.push(format!("hmac {} {} {}", c.algo, hexkey(&c.key), counter - 1));
                Some(lines.len() - 2)
            } else {
                None
            };
            idx.push((vi, ci, ri, hi));
        }
        let replies = self.drv.ask_batch(&lines);
        for (c, (vi, ci, ri, hi)) in cases.iter().zip(idx) {
            let hm = hi.map(|i| [replies[i].as_str(), replies[i + 1].as_str()]);
            self.one(c, &lines[vi], &replies[vi], ci.map(|i| replies[i].as_str()), ri.map(|i| replies[i].as_str()), hm);
        }
    }

    fn one(
        &mut self,
        c: &Case,
        line: &str,
        model_verify: &str,
        model_code: Option<&str>,
        model_rfc: Option<&str>,
        model_hmac: Option<[&str; 2]>,
    ) {
        let rep = &mut self.rep;
        let input = c.to_json();
        rep.count(&format!("stream:{}", c.stream));
        rep.count(&format!("algo:sha{}", c.algo));
        rep.count(&format!("digits:{}", c.digits));
        rep.count(&format!("route:{}", c.route));
        let b = rfc::block(c.algo);
        rep.count(match c.key.len() {
            0 => "keylen:0",
            n if n < b => "keylen:<block",
            n if n == b => "keylen:=block",
            n if n == b + 1 => "keylen:block+1",
            _ => "keylen:>block+1",
        });
        // ---- implementation
        let tok = build(c);
        let got: String = match &tok {
            None => "err".into(),
            Some(t) => c
                .chals
                .iter()
                .map(|ch| match quiet(|| t.verify(*ch, Duration::new(c.secs, c.nanos))) {
                    Some(true) => 'a',
                    Some(false) => 'r',
                    None => 'p',
                })
                .collect(),
        };
        let got: String = match (&self.simulate, c.in_domain() && tok.is_some()) {
            (Some(kind), true) => {
                let counter = c.secs / c.step;
                let nd = c.eff_digits() as u32;
                c.chals
                    .iter()
                    .map(|ch| {
                        let code = |cc: u64| rfc::hotp(c.algo, &c.key, cc, nd);
                        let ok = match kind.as_str() {
                            "future" => *ch == code(counter) || *ch == code(counter.wrapping_add(1)),
                            "d7" => c.key.len() <= rfc::block(c.algo) && (*ch == code(counter) || *ch == code(counter - 1)),
                            _ => {
                                // offset mask 0x7 instead of 0xf
                                let trunc = |cc: u64| {
                                    let hs = rfc::hmac(c.algo, &c.key, &cc.to_be_bytes());
                                    let o = (hs[hs.len() - 1] & 0x7) as usize;
                                    (u32::from_be_bytes([hs[o], hs[o + 1], hs[o + 2], hs[o + 3]]) & 0x7fff_ffff) % 10u32.pow(nd)
                                };
                                *ch == trunc(counter) || *ch == trunc(counter - 1)
                            }
                        };
                        if ok { 'a' } else { 'r' }
                    })
                    .collect()
            }
            _ => got,
        };
        // ---- correspondence: verify
        if got != model_verify {
            rep.fail(Failure {
                kind: "impl-vs-model".into(),
                class: "verify-differs".into(),
                input: input.clone(),
                expected: format!("model: {model_verify}"),
                observed: format!("impl: {got} (request `{line}`)"),
            });
        }
        // ---- correspondence: the code itself
        let impl_code: Option<String> = tok.as_ref().map(|t| {
            match quiet(|| t.do_totp_duration_from_epoch(&Duration::new(c.secs, c.nanos))) {
                None => "panic".to_string(),
                Some(Ok(n)) => format!("ok {n}"),
                Some(Err(e)) => format!("err {e:?}"),
            }
        });
        if let (Some(ic), Some(mc)) = (&impl_code, model_code) {
            if ic != mc {
                rep.fail(Failure {
                    kind: "impl-vs-model".into(),
                    class: "code-differs".into(),
                    input: input.clone(),
                    expected: format!("model: {mc}"),
                    observed: format!("impl: {ic}"),
                });
            }
        }
        // ---- wire form keeps the fields (the token the statement speaks about)
        if let Some(t) = &tok {
            let p = t.to_proto("a", "i");
            let same_algo = matches!(
                (&p.algo, c.algo),
                (ProtoAlgo::Sha1, 1) | (ProtoAlgo::Sha256, 256) | (ProtoAlgo::Sha512, 512)
            );
            let (dk, ds, da, dd) = hook::to_db(t);
            if dk != c.key || ds != c.step || da != c.algo || dd != Some(c.eff_digits()) {
                rep.fail(Failure {
                    kind: "impl-vs-oracle".into(),
                    class: "token-fields-changed".into(),
                    input: input.clone(),
                    expected: "to_dbtotpv1 returns the secret, step, algorithm and digits the token was built from".into(),
                    observed: format!("step {ds} digits {dd:?} algo {da} secret {}", hexkey(&dk)),
                });
            }
            if p.secret != c.key || p.step != c.step || p.digits != c.eff_digits() || !same_algo {
                rep.fail(Failure {
                    kind: "impl-vs-oracle".into(),
                    class: "token-fields-changed".into(),
                    input: input.clone(),
                    expected: "to_proto returns the secret, step, algorithm and digits the token was built from".into(),
                    observed: format!("step {} digits {} algo {:?} secret {}", p.step, p.digits, p.algo, hexkey(&p.secret)),
                });
            }
        }
        // ---- oracle
        let valid_digits = c.eff_digits() == 6 || c.eff_digits() == 8;
        if !valid_digits {
            rep.case(Some(line.to_string()));
            if tok.is_some() {
                rep.fail(Failure {
                    kind: "impl-vs-oracle".into(),
                    class: "digits-not-6-or-8-accepted".into(),
                    input,
                    expected: "a token with a digit count other than 6 or 8 is refused".into(),
                    observed: format!("the {} conversion returned Ok", c.route),
                });
            }
            return;
        }
        if !c.in_domain() {
            // outside the statement: correspondence only
            rep.case(None);
            for ch in got.chars() {
                rep.count(&format!("edge-outcome:{ch}"));
            }
            return;
        }
        let counter = c.secs / c.step;
        let nd = c.eff_digits() as u32;
        let cur = rfc::hotp(c.algo, &c.key, counter, nd);
        let prev = rfc::hotp(c.algo, &c.key, counter - 1, nd);
        // raw HMAC: implementation (hook) vs model vs oracle
        if let Some(mh) = model_hmac {
            for (k, cc) in [counter, counter - 1].into_iter().enumerate() {
                let ih = match quiet(|| hook::algo_digest(real_algo(c.algo), &c.key, cc)) {
                    None => "panic".to_string(),
                    Some(Ok(h)) => hexkey(&h),
                    Some(Err(e)) => format!("err {e}"),
                };
                if ih != mh[k] {
                    rep.fail(Failure {
                        kind: "impl-vs-model".into(),
                        class: "hmac-differs".into(),
                        input: input.clone(),
                        expected: format!("model hmac(counter {cc}): {}", mh[k]),
                        observed: format!("impl: {ih}"),
                    });
                }
                let oh = hexkey(&rfc::hmac(c.algo, &c.key, &cc.to_be_bytes()));
                if ih != oh {
                    rep.fail(Failure {
                        kind: "impl-vs-oracle".into(),
                        class: if c.key.len() > b { "D7:long-secret-rejected".into() } else { "hmac-not-rfc2104".into() },
                        input: input.clone(),
                        expected: format!("HMAC-SHA{}(secret, counter {cc} as 8 big-endian bytes) = {oh}", c.algo),
                        observed: ih,
                    });
                }
                rep.count("hmac-compared");
            }
        }
        // second opinion on the oracle
        if let Some(py) = &mut self.py {
            let a = py.hotp(c.algo, &c.key, counter, nd);
            let b = py.hotp(c.algo, &c.key, counter - 1, nd);
            match (a, b) {
                (Some(a), Some(b)) => {
                    rep.count("oracle-crosscheck:python");
                    if a != cur || b != prev {
                        rep.fail(Failure {
                            kind: "impl-vs-model".into(),
                            class: "oracle-vs-python".into(),
                            input: input.clone(),
                            expected: format!("python: {a} {b}"),
                            observed: format!("harness oracle: {cur} {prev}"),
                        });
                    }
                }
                _ => rep.count("oracle-crosscheck:python-unavailable"),
            }
        }
        // the Lean specification (`Rfc.totp`) against the oracle
        if let Some(mr) = model_rfc {
            if mr != format!("{cur} {prev}") {
                rep.fail(Failure {
                    kind: "impl-vs-model".into(),
                    class: "oracle-vs-lean-spec".into(),
                    input: input.clone(),
                    expected: format!("lean Rfc.totp: {mr}"),
                    observed: format!("harness oracle: {cur} {prev}"),
                });
            }
        }
        // the code the implementation shows is the current one
        if let Some(ic) = &impl_code {
            if *ic != format!("ok {cur}") {
                rep.fail(Failure {
                    kind: "impl-vs-oracle".into(),
                    class: if c.key.len() > b { "D7:long-secret-rejected".into() } else { "code-not-rfc6238".into() },
                    input: input.clone(),
                    expected: format!("do_totp_duration_from_epoch = Ok({cur})"),
                    observed: ic.clone(),
                });
            }
        }
        let mut acc = 0;
        let mut rej = 0;
        let mut bad: Option<(u32, char, char)> = None;
        for (ch, o) in c.chals.iter().zip(got.chars()) {
            let want = if *ch == cur || *ch == prev { 'a' } else { 'r' };
            if want == 'a' {
                acc += 1
            } else {
                rej += 1
            }
            if o != want && bad.is_none() {
                bad = Some((*ch, want, o));
            }
        }
        rep.count_n("candidates:accept-expected", acc);
        rep.count_n("candidates:reject-expected", rej);
        if cur == prev {
            rep.count("codes-collide");
        }
        if let Some((ch, want, o)) = bad {
            // minimise to the single offending candidate
            let mut m = c.clone();
            m.chals = vec![ch];
            rep.fail(Failure {
                kind: "impl-vs-oracle".into(),
                class: classify(c, ch, o),
                input: m.to_json(),
                expected: format!(
                    "verify({ch}) = {} (counter {counter}: current code {cur}, previous code {prev})",
                    if want == 'a' { "accept" } else { "reject" }
                ),
                observed: match o {
                    'a' => "accept".into(),
                    'r' => "reject".into(),
                    _ => "panic".into(),
                },
            });
        }
        let nontrivial = acc >= 2 && rej >= 2;
        rep.case(if nontrivial { Some(line.to_string()) } else { None });
        if rep.evaluations % 997 == 1 {
            rep.sample(json!({"request": line, "impl": got, "model": model_verify, "current": cur, "previous": prev}));
        }
    }
}

/// Candidate codes around a case: the codes of counters c-3..c+3, each ±1, the same code with
/// a digit in front / cut to six digits, fixed extremes and random values.
fn candidates(r: &mut Rng, algo: u32, key: &[u8], step: u64, secs: u64, digits: u8) -> Vec<u32> {
    let mut v = vec![];
    if step > 0 {
        let counter = secs / step;
        for k in -3i128..=3 {
            let cc = counter as i128 + k;
            if cc < 0 || cc > u64::MAX as i128 {
                continue;
            }
            let code = rfc::hotp(algo, key, cc as u64, digits as u32);
            v.push(code);
            if (-1..=0).contains(&k) {
                v.push(code.wrapping_add(1));
                v.push(code.wrapping_sub(1));
                v.push(code.wrapping_add(10u32.pow(digits as u32)));
                v.push(code % 1_000_000);
                // the same HMAC truncated for the other digit count
                v.push(rfc::hotp(algo, key, cc as u64, if digits == 6 { 8 } else { 6 }));
            }
        }
    }
    v.push(0);
    v.push(u32::MAX);
    v.push(r.next() as u32);
    v.push((r.next() % 100_000_000) as u32);
    v.truncate(40);
    v
}

fn gen_key(r: &mut Rng, algo: u32) -> Vec<u8> {
    let b = rfc::block(algo);
    let len = match r.below(10) {
        0 => *r.pick(&[0usize, 1, 10, 16, 20, 32]),
        1 | 2 => *r.pick(&[b - 1, b, b + 1, b + 2, 2 * b - 1, 2 * b, 2 * b + 1, 200]),
        3 => *r.pick(&[63usize, 64, 65, 127, 128, 129]),
        _ => r.range(0, 200) as usize,
    };
    match r.below(8) {
        0 => vec![0u8; len],
        1 => vec![0xffu8; len],
        _ => r.bytes(len),
    }
}

fn gen_case(seed: u64, i: u64) -> Case {
    let mut r = Rng::for_case(seed, i);
    let algo = *r.pick(&[1u32, 1, 256, 256, 512]);
    let digits = *r.pick(&[6u8, 8]);
    let key = gen_key(&mut r, algo);
    let route = *r.pick(&["new", "new", "proto", "db"]);
    // a stored token may lack the digits field (then six)
    let digits = if route == "db" && digits == 6 && r.chance(1, 2) { 0 } else { digits };
    let edge = r.chance(1, 12);
    let step = if edge && r.chance(1, 3) {
        0
    } else {
        match r.below(10) {
            0 | 1 | 2 => 30,
            3 => 60,
            4 => r.range(1, 29),
            5 => r.range(31, 10_000),
            6 => *r.pick(&[1u64 << 20, 1 << 32, (1 << 32) + 1, 1 << 40, u64::MAX / 2, u64::MAX]),
            _ => r.range(30, 600),
        }
    };
    let secs = if step == 0 {
        r.next() >> r.below(64)
    } else if edge {
        // before the first full step
        if r.chance(1, 2) { step - 1 } else { r.below(step) }
    } else {
        // a counter, then a position inside its window (first, last second or anywhere)
        let maxc = u64::MAX / step;
        let counter = match r.below(9) {
            0 => 1,
            1 => r.range(1, 4.min(maxc)),
            2 => maxc,
            3 => r.range(1, maxc) >> r.below(40).min(62),
            4 => *r.pick(&[0xffu64, 0x100, 0xffff, 0x1_0000, 0xffff_ffff, 0x1_0000_0000, 0x0102_0304_0506_0708]),
            _ => r.range(1_000_000_000, 3_000_000_000) / step,
        }
        .clamp(1, maxc);
        let base = counter * step;
        let room = (u64::MAX - base).min(step - 1);
        let within = match r.below(4) {
            0 => 0,
            1 => room,
            _ => r.below(room + 1),
        };
        base + within
    };
    let nanos = if r.chance(1, 2) { 0 } else { r.below(1_000_000_000) as u32 };
    let chals = candidates(&mut r, algo, &key, step, secs, if digits == 0 { 6 } else { digits });
    Case { stream: if edge { "edge" } else { "rand" }, algo, digits, route, step, secs, nanos, key, chals }
}

fn corpus() -> Vec<Case> {
    let mut v = vec![];
    let mut r = Rng::new(29);
    let mut add = |algo: u32, digits: u8, key: Vec<u8>, step: u64, secs: u64| {
        for route in ["new", "proto", "db"] {
            let chals = candidates(&mut r, algo, &key, step, secs, digits);
            v.push(Case { stream: "corpus", algo, digits, route, step, secs, nanos: 0, key: key.clone(), chals });
        }
    };
    // RFC 6238 Appendix B
    for t in [59u64, 1111111109, 1111111111, 1234567890, 2000000000, 20000000000] {
        add(1, 8, b"12345678901234567890".to_vec(), 30, t);
        add(256, 8, b"12345678901234567890123456789012".to_vec(), 30, t);
        add(512, 8, b"1234567890123456789012345678901234567890123456789012345678901234".to_vec(), 30, t);
    }
    // kanidm's own unit-test vectors (totp.rs tests)
    add(1, 6, vec![0, 0, 0, 0], 30, 1585368920);
    add(1, 8, vec![0, 0, 0, 0], 30, 1585368920);
    add(1, 6, vec![0x00, 0xaa, 0xbb, 0xcc], 30, 1585369498);
    add(256, 6, vec![0, 0, 0, 0], 30, 1585369682);
    add(256, 6, vec![0x00, 0xaa, 0xbb, 0xcc], 30, 1585369689);
    add(512, 6, vec![0, 0, 0, 0], 30, 1585369775);
    add(512, 6, vec![0x00, 0xaa, 0xbb, 0xcc], 30, 1585369780);
    // D7 (fixed in /repo by b64a184): secrets longer than the HMAC block — 65 bytes for
    // SHA-1/SHA-256, 129 bytes for SHA-512 — and the lengths around the block size
    for digits in [6u8, 8] {
        for (algo, lens) in [(1u32, [63usize, 64, 65, 66, 128, 200]), (256, [63, 64, 65, 66, 128, 200]), (512, [127, 128, 129, 130, 192, 200])] {
            for len in lens {
                add(algo, digits, vec![0x41; len], 30, 59);
                add(algo, digits, (0..len).map(|i| (i * 7 + 3) as u8).collect(), 30, 1585369780);
            }
        }
    }
    // first second of the domain and the last representable second
    add(1, 6, b"12345678901234567890".to_vec(), 30, 30);
    add(256, 6, b"12345678901234567890".to_vec(), 30, u64::MAX);
    add(512, 8, vec![], 30, 60);
    v
}

fn main() {
    let args = Args::parse();
    rfc::self_test();
    std::panic::set_hook(Box::new(|_| {}));
    let mut ctx = Ctx {
        simulate: args.extra.get("simulate").cloned(),
        drv: Driver::spawn(&args.driver),
        py: Py::spawn(),
        rep: Report::new(
            "totp",
            "fixed corpus (RFC 6238/4226 vectors, kanidm unit-test vectors, D7 long-secret witnesses) + random tokens \
             (secret 0-200 bytes around the block size, 3 algorithms, 6/8 digits, steps 1..2^64-1 mostly >= 30, times \
             from step to 2^64-1 on window edges) each with <= 40 candidate codes (codes of counters c-3..c+3, +-1, \
             +10^digits, other digit count, extremes, random) + out-of-domain edge cases (correspondence only); \
             non-trivial = in-domain case with >= 2 candidates that must be accepted and >= 2 that must be rejected; \
             distinct = distinct request line",
        ),
        pending: vec![],
    };
    if ctx.py.is_none() {
        ctx.rep.note("python3 not available: oracle cross-check against hashlib skipped");
    }
    if let Some(path) = &args.replay {
        let v: Value = serde_json::from_str(&std::fs::read_to_string(path).unwrap()).unwrap();
        ctx.push(Case::from_json(&v["input"]));
        ctx.flush();
        ctx.rep.model_requests = ctx.drv.requests;
        ctx.rep.write(&args.out);
        println!("c29 replay: {} failures", ctx.rep.failures.len());
        return;
    }
    for c in corpus() {
        ctx.push(c);
    }
    // digits other than 6 / 8 through the wire form
    for (i, d) in [0u8, 1, 5, 7, 9, 10, 255].iter().enumerate() {
        let mut r = Rng::for_case(args.seed, 1_000_000 + i as u64);
        let algo = *r.pick(&[1u32, 256, 512]);
        if *d != 0 {
            ctx.push(Case {
                stream: "badproto",
                algo,
                digits: *d,
                route: "db",
                step: 30,
                secs: 59,
                nanos: 0,
                key: r.bytes(20),
                chals: vec![0, 1],
            });
        }
        ctx.push(Case {
            stream: "badproto",
            algo,
            digits: *d,
            route: "proto",
            step: 30,
            secs: 59,
            nanos: 0,
            key: r.bytes(20),
            chals: vec![0, 1],
        });
    }
    let n = args.cases(4_000, 100_000);
    for i in 0..n {
        ctx.push(gen_case(args.seed, i));
    }
    ctx.flush();
    ctx.rep.model_requests = ctx.drv.requests;
    ctx.rep.write(&args.out);
    println!("c29: {} cases, {} distinct non-trivial, {} failures", ctx.rep.evaluations, ctx.rep.nontrivial_keys.len(), ctx.rep.failures.len());
}
