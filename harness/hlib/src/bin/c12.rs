//! C12 — stored and replicated values read back unchanged (value level).
//!
//! One report (`value-rt`) built from four parts, every case derived from `Rng::for_case`:
//!
//!  * `tags`  (exhaustive): for every generated conversion table and every in-memory variant
//!    the driver lists, a real value carrying that variant is built, stored
//!    (`to_db_valueset_v2` + serde_json), the stored variant's serde name is read out of the
//!    JSON, the value is loaded again and the variant read back — compared with the model
//!    (`tag <pair> <variant>`). A variant the harness cannot build fails the run.
//!  * `values`: random valuesets of every `ValueSetT` struct (credentials from every password
//!    format incl. imported hashes, TOTP, backup codes, sessions, keys, certificates, images …)
//!    through storage (with and without serde) — correspondence on the stored constructor, the
//!    decoding struct and `syntax()` (`dispatch <Struct>`), oracle: equality + behaviour.
//!  * `stored`: hand-encoded stored JSON (legacy record versions, every `DbPasswordV1`
//!    variant, passkeys, CA lists, rejected constructors, malformed input) loaded, stored,
//!    loaded again — correspondence `dbctor <serde>` / `restore password …`, oracle: the
//!    second load equals the first.
//!  * regression witnesses D2 (`{crypt}$6$` password) and D20 (RS256 key set).
//!
//! The oracle is written from the property text only: the reloaded valueset must be `equal` to
//! the original (both directions), have the same syntax, size, strings, index keys and
//! re-encode to the same stored JSON, and behave identically — a password / TOTP / backup code
//! accepts exactly the same inputs before and after, a key signs verifiably the same way, and
//! (`c12_data/battery.rs`) EVERY method of the `ValueSetT` trait answers the same on the original
//! and on the reloaded value for arguments derived from the original: fields a struct keeps but
//! the encoder does not write (caches, pre-filters, a designated primary) are only visible there.
use hlib::*;
use kanidm_lib_crypto::{CryptoPolicy, Password};
use kanidm_proto::internal::{Filter as ProtoFilter, ImageType, ImageValue, UiHint};
use kanidm_proto::v1::OutboundMessage;
use kanidmd_lib::credential::totp::{Totp, TotpAlgo, TotpDigits};
use kanidmd_lib::credential::{BackupCodes, Credential};
use kanidmd_lib::prelude::*;
use kanidmd_lib::value::{
    Address, ApiToken, ApiTokenScope, AuthType, CredUpdateSessionPerms, CredentialType, IndexType,
    IntentTokenState, KeyStatus, KeyUsage, Oauth2Session, OauthClaimMapJoin, Session, SessionExtMetadata,
    SessionScope, SessionState, SyntaxType,
};
use kanidmd_lib::valueset::{self, ValueSet};
use kanidmd_lib::verif_hooks::c12 as hk;
use serde_json::{json, Value as J};
use std::collections::{BTreeMap, BTreeSet, HashSet};
use time::OffsetDateTime;

include!("../c12_data/pwvectors.rs");
include!("../c12_data/certs.rs");
include!("../c12_data/sshkeys.rs");
include!("../c12_data/passkeys.rs");

#[path = "../c12_data/battery.rs"]
mod battery;

// ------------------------------------------------------------------------------------
// small generators

fn ruuid(r: &mut Rng) -> Uuid {
    // mostly small well-ordered uuids, sometimes arbitrary bits
    if r.chance(3, 4) {
        nat_uuid(r.below(50))
    } else {
        Uuid::from_u128(((r.next() as u128) << 64) | r.next() as u128)
    }
}

const WORDS: &[&str] = &[
    "alpha", "Bravo", "charlie_1", "délta", "echo-echo", "f", "golf hotel", "日本", "x.y", "UPPER", "a'b\"c", "tab\there",
    "new\nline", "emoji🙂", "trailing ", " leading", "{brace}", "back\\slash", "0", "null",
];

fn rstring(r: &mut Rng) -> String {
    let n = r.range(1, 3);
    let mut s = String::new();
    for i in 0..n {
        if i > 0 {
            s.push_str(*r.pick(&["", " ", "-", "_"]));
        }
        s.push_str(r.pick(WORDS));
    }
    if r.chance(1, 4) {
        s.push_str(&format!("{}", r.below(100000)));
    }
    s
}

fn rname(r: &mut Rng) -> String {
    let mut s = String::new();
    for _ in 0..r.range(1, 12) {
        s.push(*r.pick(&['a', 'b', 'c', 'x', 'y', 'z', '0', '7', '_', '-']));
    }
    format!("n{s}")
}

/// A UTC timestamp; sub-second part present in 2 of 3 cases (RFC 3339 keeps nanoseconds).
fn rtime(r: &mut Rng) -> OffsetDateTime {
    let secs = *r.pick(&[0i64, 1, 932964162, 1_700_000_000, 4_102_444_800, 253_402_300_799]) + r.below(100_000) as i64 * (r.below(2) as i64);
    let secs = secs.min(253_402_300_799);
    let nanos = match r.below(3) {
        0 => 0,
        1 => r.below(1_000_000_000) as i128,
        _ => *r.pick(&[1i128, 999_999_999, 500_000_000, 123_000_000, 1000]),
    };
    OffsetDateTime::from_unix_timestamp_nanos(secs as i128 * 1_000_000_000 + nanos).expect("time in range")
}

fn rdur(r: &mut Rng) -> Duration {
    match r.below(3) {
        0 => Duration::from_secs(r.below(100_000)),
        1 => Duration::new(r.below(4_000_000_000), r.below(1_000_000_000) as u32),
        _ => Duration::new(*r.pick(&[0u64, 1, u32::MAX as u64, 1_700_000_000]), *r.pick(&[0u32, 1, 999_999_999])),
    }
}

fn rcid(r: &mut Rng) -> Cid {
    Cid { ts: rdur(r), s_uuid: ruuid(r) }
}

fn rscopes(r: &mut Rng) -> BTreeSet<String> {
    let mut s = BTreeSet::new();
    for _ in 0..r.range(1, 4) {
        s.insert(r.pick(&["openid", "email", "groups", "profile", "read", "write_all"]).to_string());
    }
    s
}

fn policy() -> CryptoPolicy {
    CryptoPolicy::danger_test_minimum()
}

// ------------------------------------------------------------------------------------
// behaviour probes: things a consumer of the value can do with it, written down as JSON

/// Password probe: which of the candidate cleartexts verify.
fn pw_probe(pw: &Password, right: &str, verify: bool) -> J {
    if !verify {
        return json!("not-probed");
    }
    let cands = [right.to_string(), format!("{right}x")];
    J::Array(
        cands
            .iter()
            .map(|c| match guard(|| pw.verify(c)) {
                Some(Ok(b)) => json!(b),
                Some(Err(e)) => json!(format!("err:{e:?}")),
                // debug assertions on parameter sizes of hand-made stored hashes
                None => json!("panic"),
            })
            .collect(),
    )
}

static QUIET: std::sync::atomic::AtomicBool = std::sync::atomic::AtomicBool::new(false);

/// Run a probe that may hit an `unreachable!()` in a trait method; `None` when it panicked.
fn guard<T>(f: impl FnOnce() -> T) -> Option<T> {
    QUIET.store(true, std::sync::atomic::Ordering::SeqCst);
    let r = std::panic::catch_unwind(std::panic::AssertUnwindSafe(f)).ok();
    QUIET.store(false, std::sync::atomic::Ordering::SeqCst);
    r
}

fn install_panic_hook() {
    let default = std::panic::take_hook();
    std::panic::set_hook(Box::new(move |info| {
        if !QUIET.load(std::sync::atomic::Ordering::SeqCst) {
            default(info);
        }
    }));
}

#[derive(Clone, Copy)]
struct Probe<'a> {
    /// run the (expensive) password verifications
    verify: bool,
    /// cleartexts known for password-bearing values: label ↦ cleartext
    cleartexts: &'a BTreeMap<String, String>,
    totp_time: Duration,
    backup_codes: &'a [String],
}

fn behaviour(vs: &ValueSet, name: &str, p: &Probe) -> J {
    // some valueset structs leave trait methods `unreachable!()`: probe each one guarded
    let mut strings: Vec<String> = guard(|| vs.to_proto_string_clone_iter().collect()).unwrap_or_else(|| vec!["<panic>".into()]);
    strings.sort();
    let mut eq = guard(|| vs.generate_idx_eq_keys()).unwrap_or_else(|| vec!["<panic>".into()]);
    eq.sort();
    let mut sub = guard(|| vs.generate_idx_sub_keys()).unwrap_or_else(|| vec!["<panic>".into()]);
    sub.sort();
    let mut ord = guard(|| vs.generate_idx_ord_keys()).unwrap_or_else(|| vec!["<panic>".into()]);
    ord.sort();
    let _ = name;
    let syntax = guard(|| format!("{:?}", vs.syntax())).unwrap_or_else(|| "unreachable".to_string());
    let mut out = json!({
        "len": vs.len(), "syntax": syntax, "strings": strings, "idx_eq": eq, "idx_sub": sub, "idx_ord": ord,
    });
    let mut extra = serde_json::Map::new();
    if let Some(m) = (name == "ValueSetCredential").then(|| vs.as_credential_map()).flatten() {
        let mut creds = vec![];
        for (tag, c) in m.iter() {
            let right = p.cleartexts.get(tag).cloned().unwrap_or_default();
            let pwp = match c.password_ref() {
                Ok(pw) => pw_probe(pw, &right, p.verify),
                Err(_) => json!("no-password"),
            };
            let mut totps = vec![];
            for l in hk::cred_totp_labels(c) {
                // a window of counters around the probe time for which a fixed code is accepted
                let t: Vec<J> = [0u32, 1, 123456, 999999, 755224]
                    .iter()
                    .map(|code| json!(hk::cred_totp_verify(c, &l, *code, p.totp_time)))
                    .collect();
                totps.push(json!({"label": l, "accepts": t}));
            }
            let bc: Vec<J> = p.backup_codes.iter().map(|b| json!(hk::cred_backup_code_verify(c, b))).collect();
            creds.push(json!({
                "tag": tag, "uuid": kanidm_proto::internal::CredentialDetail::from(c).uuid.to_string(), "timestamp": c.timestamp().unix_timestamp_nanos().to_string(),
                "detail": cred_detail(c),
                "password": pwp, "totp": totps, "backup": bc, "is_mfa": c.is_mfa(),
            }));
        }
        extra.insert("credentials".into(), J::Array(creds));
    }
    if let Some(m) = (name == "ValueSetTotpSecret").then(|| vs.as_totp_map()).flatten() {
        let mut v = vec![];
        for (l, t) in m.iter() {
            let acc: Vec<J> = [0u32, 1, 123456, 999999].iter().map(|c| json!(t.verify(*c, p.totp_time))).collect();
            v.push(json!({"label": l, "proto": format!("{:?}", t.to_proto("acct", "iss")), "accepts": acc}));
        }
        extra.insert("totp".into(), J::Array(v));
    }
    if let Some(m) = (name == "ValueSetSession").then(|| vs.as_session_map()).flatten() {
        extra.insert("sessions".into(), json!(m.iter().map(|(u, s)| format!("{u} {s:?} {:?} {:?} {:?} {:?}", s.state, s.issued_at, s.cred_id, s.ext_metadata_dbg())).collect::<Vec<_>>()));
    }
    if let Some(m) = (name == "ValueSetOauth2Session").then(|| vs.as_oauth2session_map()).flatten() {
        extra.insert("oauth2sessions".into(), json!(m.iter().map(|(u, s)| format!("{u} {s:?}")).collect::<Vec<_>>()));
    }
    if let Some(m) = (name == "ValueSetApiTokenSet").then(|| vs.as_apitoken_map()).flatten() {
        extra.insert("apitokens".into(), json!(m.iter().map(|(u, s)| format!("{u} {s:?}")).collect::<Vec<_>>()));
    }
    if let Some(m) = (name == "ValueSetIntentToken").then(|| vs.as_intenttoken_map()).flatten() {
        extra.insert("intenttokens".into(), json!(m.iter().map(|(u, s)| format!("{u} {s:?}")).collect::<Vec<_>>()));
    }
    if let Some(m) = (name == "ValueSetKeyInternal").then(|| vs.as_key_internal_map()).flatten() {
        extra.insert(
            "keys".into(),
            json!(m.iter().map(|(k, d)| format!("{k} {:?} {} {:?} {:?} {:?}", d.usage, d.valid_from, d.status, d.status_cid, d.der.as_slice())).collect::<Vec<_>>()),
        );
    }
    if let Some(m) = (name == "ValueSetApplicationPassword").then(|| vs.as_application_password_map()).flatten() {
        let mut v = vec![];
        for (app, aps) in m.iter() {
            for ap in aps {
                let (u, a, l, pw) = hk::app_password_parts(ap);
                let right = p.cleartexts.get(&l).cloned().unwrap_or_default();
                v.push(json!({"app": app.to_string(), "uuid": u.to_string(), "application": a.to_string(), "label": l, "password": pw_probe(pw, &right, p.verify)}));
            }
        }
        extra.insert("apppw".into(), J::Array(v));
    }
    if let Some(m) = (name == "ValueSetOauthClaimMap").then(|| vs.as_oauthclaim_map()).flatten() {
        extra.insert("claims".into(), json!(m.iter().map(|(k, v)| format!("{k} {v:?}")).collect::<Vec<_>>()));
    }
    if let Some(m) = (name == "ValueSetOauthScopeMap").then(|| vs.as_oauthscopemap()).flatten() {
        extra.insert("scopemap".into(), json!(m.iter().map(|(k, v)| format!("{k} {v:?}")).collect::<Vec<_>>()));
    }
    if let Some(m) = (name == "ValueSetCertificate").then(|| vs.as_certificate_set()).flatten() {
        extra.insert("certs".into(), json!(m.iter().map(|(k, c)| format!("{k:?} {:?}", c.tbs_certificate.serial_number)).collect::<Vec<_>>()));
    }
    if let Some(s) = (name == "ValueSetImage").then(|| vs.as_imageset()).flatten() {
        let mut v: Vec<String> = s.iter().map(|i| format!("{} {:?} {:?}", i.filename, i.filetype, i.contents)).collect();
        v.sort();
        extra.insert("images".into(), json!(v));
    }
    if let Some(s) = (name == "ValueSetJwsKeyEs256").then(|| vs.as_jws_key_es256_set_dbg()).flatten() {
        extra.insert("es256".into(), s);
    }
    if let Some(s) = (name == "ValueSetJwsKeyRs256").then(|| vs.as_jws_key_rs256_set_dbg()).flatten() {
        extra.insert("rs256".into(), s);
    }
    if let Some(m) = (name == "ValueSetPasskey").then(|| vs.as_passkey_map()).flatten() {
        extra.insert("passkeys".into(), json!(m.iter().map(|(u, (t, k))| format!("{u} {t} {:?} {:?}", k.cred_id(), k.get_public_key())).collect::<Vec<_>>()));
    }
    if let Some(m) = (name == "ValueSetAttestedPasskey").then(|| vs.as_attestedpasskey_map()).flatten() {
        extra.insert("attpasskeys".into(), json!(m.iter().map(|(u, (t, k))| format!("{u} {t} {:?}", k.cred_id())).collect::<Vec<_>>()));
    }
    if let Some(l) = (name == "ValueSetWebauthnAttestationCaList").then(|| vs.as_webauthn_attestation_ca_list()).flatten() {
        extra.insert("calist".into(), json!(serde_json::to_string(l).unwrap_or_default()));
    }
    if let Some(j) = (name == "ValueSetJson").then(|| vs.as_json_object()).flatten() {
        extra.insert("json".into(), j.clone());
    }
    if let Some(m) = (name == "ValueSetMessage").then(|| vs.as_message()).flatten() {
        extra.insert("message".into(), json!(format!("{m:?}")));
    }
    if let Some(s) = (name == "ValueSetSha256").then(|| vs.as_s256_set()).flatten() {
        extra.insert("s256".into(), json!(s.iter().map(|x| format!("{x:?}")).collect::<Vec<_>>()));
    }
    out["extra"] = J::Object(extra);
    out
}

fn cred_detail(c: &Credential) -> String {
    use kanidm_proto::internal::CredentialDetailType as T;
    match kanidm_proto::internal::CredentialDetail::from(c).type_ {
        T::Password => "Password".into(),
        T::GeneratedPassword => "GeneratedPassword".into(),
        T::Passkey(mut l) => {
            l.sort();
            format!("Passkey {l:?}")
        }
        T::PasswordMfa(mut t, mut w, n) => {
            t.sort();
            w.sort();
            format!("PasswordMfa {t:?} {w:?} {n}")
        }
    }
}

// helper traits so that `behaviour` reads uniformly
trait SessDbg {
    fn ext_metadata_dbg(&self) -> String;
}
impl SessDbg for Session {
    fn ext_metadata_dbg(&self) -> String {
        format!("{:?}", self.ext_metadata)
    }
}
trait JwsDbg {
    fn as_jws_key_es256_set_dbg(&self) -> Option<J>;
    fn as_jws_key_rs256_set_dbg(&self) -> Option<J>;
}
impl JwsDbg for ValueSet {
    fn as_jws_key_es256_set_dbg(&self) -> Option<J> {
        use compact_jwt::JwsSigner;
        self.as_jws_key_es256_set().map(|s| {
            let mut v: Vec<String> = s.iter().map(|k| format!("kid={} der={:?}", k.get_kid(), k.private_key_to_der().map(|d| d.to_vec()))).collect();
            v.sort();
            json!(v)
        })
    }
    fn as_jws_key_rs256_set_dbg(&self) -> Option<J> {
        use compact_jwt::JwsSigner;
        self.as_jws_key_rs256_set().map(|s| {
            let mut v: Vec<String> = s.iter().map(|k| format!("kid={} der={:?}", k.get_kid(), k.private_key_to_der().map(|d| d.to_vec()))).collect();
            v.sort();
            json!(v)
        })
    }
}

/// Canonical form of a stored JSON document: lists of records / strings sorted (valuesets are
/// sets and some in-memory maps iterate in unspecified order), lists of numbers (byte strings)
/// left alone.
fn canon(v: &J) -> J {
    fn inner(v: &J, depth: u32) -> J {
        match v {
            J::Array(a) => {
                let mut items: Vec<J> = a.iter().map(|x| inner(x, depth + 1)).collect();
                // depth 1 = the set itself (any element type); deeper: only lists of non-numbers
                if depth <= 1 || !items.iter().all(|x| x.is_number()) {
                    items.sort_by_key(|x| x.to_string());
                }
                J::Array(items)
            }
            J::Object(o) => J::Object(o.iter().map(|(k, v)| (k.clone(), inner(v, depth + 1))).collect()),
            other => other.clone(),
        }
    }
    // free-form JSON objects and messages are stored verbatim: order inside them is data
    if let J::Object(o) = v {
        if o.len() == 1 && (o.contains_key("JO") || o.contains_key("MS")) {
            return v.clone();
        }
    }
    inner(v, 0)
}

fn struct_name(vs: &ValueSet) -> String {
    let d = format!("{vs:?}");
    d.split(|c: char| !(c.is_alphanumeric() || c == '_')).next().unwrap_or("").to_string()
}

// ------------------------------------------------------------------------------------
// value builders: one per `ValueSetT` struct

struct Built {
    /// probe password verification (false for hand-made stored hashes: garbage parameters)
    verify: bool,
    vs: ValueSet,
    cleartexts: BTreeMap<String, String>,
    backup_codes: Vec<String>,
    note: String,
}

impl Built {
    fn plain(vs: ValueSet) -> Built {
        Built { verify: true, vs, cleartexts: BTreeMap::new(), backup_codes: vec![], note: String::new() }
    }
}

fn from_values(vals: Vec<Value>) -> ValueSet {
    valueset::from_value_iter(vals.into_iter()).expect("from_value_iter")
}

/// A password of the requested `Kdf` variant (or any) with a known cleartext.
fn rpassword(r: &mut Rng, want: Option<&str>) -> (Password, String, String) {
    let native = ["PBKDF2-native", "ARGON2ID-native"];
    let pick_native = match want {
        Some("PBKDF2") => r.chance(1, 2),
        // the imported {ARGON2} vector costs 64 MiB x 2 passes per verification
        Some("ARGON2ID") => r.chance(9, 10),
        Some(_) => false,
        None => r.chance(1, 4),
    };
    if pick_native {
        let clear = rstring(r);
        let kind = match want {
            Some("PBKDF2") => native[0],
            Some("ARGON2ID") => native[1],
            _ => *r.pick(&native),
        };
        let pw = if kind == native[0] {
            Password::new_pbkdf2(&policy(), &clear).expect("pbkdf2")
        } else {
            Password::new_argon2id(&policy(), &clear).expect("argon2id")
        };
        return (pw, clear, kind.to_string());
    }
    let cands: Vec<&(&str, &str, &str)> = PW_VECTORS.iter().filter(|(k, _, _)| want.map(|w| w == *k).unwrap_or(true)).collect();
    let (k, s, c) = **r.pick(&cands);
    let pw = Password::try_from(s).unwrap_or_else(|e| panic!("import vector {s}: {e:?}"));
    (pw, c.to_string(), k.to_string())
}

fn rtotp(r: &mut Rng, algo: Option<&str>) -> Totp {
    let a = match algo.unwrap_or(*r.pick(&["Sha1", "Sha256", "Sha512"])) {
        "Sha1" => TotpAlgo::Sha1,
        "Sha256" => TotpAlgo::Sha256,
        _ => TotpAlgo::Sha512,
    };
    let n = *r.pick(&[1usize, 16, 20, 32, 64, 65, 129]);
    Totp::new(r.bytes(n), *r.pick(&[30u64, 60, 1]), a, if r.chance(1, 2) { TotpDigits::Six } else { TotpDigits::Eight })
}

/// `kind`: "Password" | "GeneratedPassword" | "PasswordMfa"
fn rcredential(r: &mut Rng, kind: &str, kdf: Option<&str>, totp_algo: Option<&str>) -> (Credential, String, Vec<String>, String) {
    let (pw, clear, k) = rpassword(r, kdf);
    let ts = rtime(r);
    let mut c = hk::cred_from_password(pw, kind == "GeneratedPassword", ts);
    let mut codes = vec![];
    if kind == "PasswordMfa" {
        for i in 0..r.range(1, 3) {
            c = hk::cred_append_totp(&c, format!("totp{i}"), rtotp(r, totp_algo), rtime(r));
        }
        if r.chance(1, 2) {
            let set: HashSet<String> = (0..r.range(1, 8)).map(|_| format!("{:05}-{:05}", r.below(100000), r.below(100000))).collect();
            codes = set.iter().cloned().collect();
            codes.sort();
            c = hk::cred_update_backup_code(&c, BackupCodes::new(set.into_iter().collect()), rtime(r)).expect("backup codes");
        }
    }
    (c, clear, codes, k)
}

fn rsession(r: &mut Rng, state: Option<&str>, by: Option<&str>, scope: Option<&str>, ty: Option<&str>, ext: Option<&str>) -> Session {
    let state = match state.unwrap_or(*r.pick(&["ExpiresAt", "NeverExpires", "RevokedAt"])) {
        "ExpiresAt" => SessionState::ExpiresAt(rtime(r)),
        "NeverExpires" => SessionState::NeverExpires,
        _ => SessionState::RevokedAt(rcid(r)),
    };
    let issued_by = match by.unwrap_or(*r.pick(&["Internal", "User", "Synch"])) {
        "Internal" => IdentityId::Internal(ruuid(r)),
        "User" => IdentityId::User(ruuid(r)),
        _ => IdentityId::Synch(ruuid(r)),
    };
    let scope = match scope.unwrap_or(*r.pick(&["ReadOnly", "ReadWrite", "PrivilegeCapable", "Synchronise"])) {
        "ReadOnly" => SessionScope::ReadOnly,
        "ReadWrite" => SessionScope::ReadWrite,
        "PrivilegeCapable" => SessionScope::PrivilegeCapable,
        _ => SessionScope::Synchronise,
    };
    let type_ = match ty.unwrap_or(*r.pick(&AUTH_TYPES)) {
        "Anonymous" => AuthType::Anonymous,
        "Password" => AuthType::Password,
        "GeneratedPassword" => AuthType::GeneratedPassword,
        "PasswordTotp" => AuthType::PasswordTotp,
        "PasswordBackupCode" => AuthType::PasswordBackupCode,
        "PasswordSecurityKey" => AuthType::PasswordSecurityKey,
        "Passkey" => AuthType::Passkey,
        "AttestedPasskey" => AuthType::AttestedPasskey,
        _ => AuthType::OAuth2Trust,
    };
    let ext_metadata = match ext.unwrap_or(*r.pick(&["None", "OAuth2"])) {
        "None" => SessionExtMetadata::None,
        _ => SessionExtMetadata::OAuth2 {
            access_expires_at: rdur(r),
            access_token: rstring(r),
            refresh_token: if r.chance(1, 2) { Some(rstring(r)) } else { None },
        },
    };
    Session { label: rstring(r), state, issued_at: rtime(r), issued_by, cred_id: ruuid(r), scope, type_, ext_metadata }
}

const AUTH_TYPES: [&str; 9] = [
    "Anonymous", "Password", "GeneratedPassword", "PasswordTotp", "PasswordBackupCode", "PasswordSecurityKey", "Passkey",
    "AttestedPasskey", "OAuth2Trust",
];

fn rintent(r: &mut Rng, state: Option<&str>) -> IntentTokenState {
    let perms = CredUpdateSessionPerms {
        ext_cred_portal_can_view: r.chance(1, 2),
        primary_can_edit: r.chance(1, 2),
        passkeys_can_edit: r.chance(1, 2),
        attested_passkeys_can_edit: r.chance(1, 2),
        unixcred_can_edit: r.chance(1, 2),
        sshpubkey_can_edit: r.chance(1, 2),
    };
    match state.unwrap_or(*r.pick(&["Valid", "InProgress", "Consumed"])) {
        "Valid" => IntentTokenState::Valid { max_ttl: rdur(r), perms },
        "InProgress" => IntentTokenState::InProgress { max_ttl: rdur(r), perms, session_id: ruuid(r), session_ttl: rdur(r) },
        _ => IntentTokenState::Consumed { max_ttl: rdur(r) },
    }
}

fn rfilter(r: &mut Rng, depth: u32) -> ProtoFilter {
    match if depth == 0 { r.below(3) } else { r.below(6) } {
        0 => ProtoFilter::Eq(rname(r), rstring(r)),
        1 => ProtoFilter::Pres(rname(r)),
        2 => ProtoFilter::Cnt(rname(r), rstring(r)),
        3 => ProtoFilter::And((0..r.range(1, 3)).map(|_| rfilter(r, depth - 1)).collect()),
        4 => ProtoFilter::Or((0..r.range(1, 3)).map(|_| rfilter(r, depth - 1)).collect()),
        _ => ProtoFilter::AndNot(Box::new(rfilter(r, depth - 1))),
    }
}

fn rjson(r: &mut Rng, depth: u32) -> J {
    match if depth == 0 { r.below(4) } else { r.below(6) } {
        0 => json!(rstring(r)),
        1 => json!(r.below(1_000_000) as i64 - 500_000),
        2 => json!(r.chance(1, 2)),
        3 => J::Null,
        4 => J::Array((0..r.below(4)).map(|_| rjson(r, depth - 1)).collect()),
        _ => J::Object((0..r.below(4)).map(|_| (rname(r), rjson(r, depth - 1))).collect()),
    }
}

const ALL_STRUCTS_HINT: &str = "every name the driver lists for valueset-dispatch must have a builder";

/// Build a random valueset of struct `name`. `None` = the harness has no builder (fails the run).
fn build(name: &str, r: &mut Rng) -> Option<Built> {
    let n = r.range(1, 4) as usize;
    let many = |r: &mut Rng, f: &mut dyn FnMut(&mut Rng) -> Value| -> ValueSet {
        let vals: Vec<Value> = (0..n).map(|_| f(r)).collect();
        from_values(vals)
    };
    let b = match name {
        "ValueSetUtf8" => Built::plain(many(r, &mut |r| Value::new_utf8(rstring(r)))),
        "ValueSetIutf8" => Built::plain(many(r, &mut |r| Value::new_iutf8(&rstring(r)))),
        "ValueSetIname" => Built::plain(many(r, &mut |r| Value::new_iname(&rname(r)))),
        "ValueSetUuid" => Built::plain(many(r, &mut |r| Value::Uuid(ruuid(r)))),
        "ValueSetRefer" => Built::plain(many(r, &mut |r| Value::Refer(ruuid(r)))),
        "ValueSetBool" => Built::plain(many(r, &mut |r| Value::Bool(r.chance(1, 2)))),
        "ValueSetUint32" => Built::plain(many(r, &mut |r| Value::Uint32(*r.pick(&[0u32, 1, u32::MAX, 65536]) ^ (r.below(1000) as u32)))),
        "ValueSetInt64" => Built::plain(many(r, &mut |r| Value::Int64(*r.pick(&[0i64, -1, i64::MIN, i64::MAX, 1 << 53, -(1 << 53) - 1]) ^ (r.below(1000) as i64)))),
        "ValueSetUint64" => Built::plain(many(r, &mut |r| Value::Uint64(*r.pick(&[0u64, 1, u64::MAX, 1 << 53, (1 << 53) + 1]) ^ r.below(1000)))),
        "ValueSetSyntax" => Built::plain(many(r, &mut |r| Value::Syntax(SyntaxType::try_from(r.below(47) as u16).expect("syntax id")))),
        "ValueSetIndex" => Built::plain(many(r, &mut |r| {
            Value::Index(*r.pick(&[IndexType::Equality, IndexType::Presence, IndexType::SubString, IndexType::Ordering]))
        })),
        "ValueSetSecret" => Built::plain(many(r, &mut |r| Value::SecretValue(rstring(r)))),
        "ValueSetRestricted" => Built::plain(many(r, &mut |r| Value::RestrictedString(rstring(r)))),
        "ValueSetSpn" => Built::plain(many(r, &mut |r| Value::Spn(rname(r), format!("{}.example.com", rname(r))))),
        "ValueSetCid" => Built::plain(many(r, &mut |r| Value::Cid(rcid(r)))),
        "ValueSetJsonFilter" => Built::plain(many(r, &mut |r| Value::JsonFilt(rfilter(r, 2)))),
        "ValueSetNsUniqueId" => Built::plain(many(r, &mut |r| {
            Value::Nsuniqueid(format!("{:08x}-{:08x}-{:08x}-{:08x}", r.next() as u32, r.next() as u32, r.next() as u32, r.next() as u32))
        })),
        "ValueSetUrl" => Built::plain(many(r, &mut |r| {
            let u = format!("https://{}.example.com:{}/{}?q={}#f", rname(r), r.range(1, 65535), rname(r), r.below(100));
            Value::new_url_s(&u).expect("url")
        })),
        "ValueSetDateTime" => Built::plain(many(r, &mut |r| Value::new_datetime(rtime(r)))),
        "ValueSetPrivateBinary" => Built::plain(many(r, &mut |r| {
            let n = *r.pick(&[0usize, 1, 32, 300]);
            Value::PrivateBinary(r.bytes(n))
        })),
        "ValueSetPublicBinary" => Built::plain(many(r, &mut |r| {
            let n = *r.pick(&[0usize, 1, 32, 300]);
            Value::PublicBinary(rname(r), r.bytes(n))
        })),
        "ValueSetOauthScope" => Built::plain(many(r, &mut |r| Value::OauthScope(r.pick(&["openid", "email", "groups", "x_y"]).to_string()))),
        "ValueSetOauthScopeMap" => Built::plain(many(r, &mut |r| Value::OauthScopeMap(ruuid(r), rscopes(r)))),
        "ValueSetOauthClaimMap" => {
            let mut vals = vec![];
            for _ in 0..n {
                let claim = rname(r);
                let join = *r.pick(&[OauthClaimMapJoin::CommaSeparatedValue, OauthClaimMapJoin::SpaceSeparatedValue, OauthClaimMapJoin::JsonArray]);
                vals.push(Value::OauthClaimMap(claim.clone(), join));
                for _ in 0..r.range(1, 3) {
                    vals.push(Value::OauthClaimValue(claim.clone(), ruuid(r), rscopes(r)));
                }
            }
            Built::plain(from_values(vals))
        }
        "ValueSetAddress" => Built::plain(many(r, &mut |r| {
            Value::Address(Address {
                formatted: rstring(r),
                street_address: rstring(r),
                locality: rstring(r),
                region: rstring(r),
                postal_code: format!("{}", r.below(100000)),
                country: r.pick(&["AU", "DE", "JP"]).to_string(),
            })
        })),
        "ValueSetEmailAddress" => Built::plain(many(r, &mut |r| Value::EmailAddress(format!("{}@{}.example.com", rname(r), rname(r)), r.chance(1, 3)))),
        "ValueSetSshKey" => {
            let mut vals = vec![];
            let mut keys: Vec<&str> = SSH_KEYS.to_vec();
            r.shuffle(&mut keys);
            for (i, k) in keys.iter().take(n).enumerate() {
                vals.push(Value::new_sshkey_str(&format!("{}{i}", rname(r)), k).expect("ssh key"));
            }
            Built::plain(from_values(vals))
        }
        "ValueSetUiHint" => Built::plain(many(r, &mut |r| {
            Value::UiHint(*r.pick(&[UiHint::ExperimentalFeatures, UiHint::PosixAccount, UiHint::CredentialUpdate, UiHint::SynchronisedAccount]))
        })),
        "ValueSetAuditLogString" => Built::plain(many(r, &mut |r| Value::AuditLogString(rcid(r), rstring(r)))),
        "ValueSetHexString" => Built::plain(many(r, &mut |r| {
            let n = r.range(1, 40) as usize;
            Value::HexString(r.bytes(n).iter().map(|b| format!("{b:02x}")).collect())
        })),
        "ValueSetCredentialType" => Built::plain(many(r, &mut |r| {
            Value::CredentialType(*r.pick(&[
                CredentialType::Any, CredentialType::External, CredentialType::Mfa, CredentialType::Passkey,
                CredentialType::AttestedPasskey, CredentialType::AttestedResidentkey, CredentialType::Invalid,
            ]))
        })),
        "ValueSetIntentToken" => Built::plain(many(r, &mut |r| Value::IntentToken(format!("{}", ruuid(r)), rintent(r, None)))),
        "ValueSetSession" => Built::plain(many(r, &mut |r| Value::Session(ruuid(r), rsession(r, None, None, None, None, None)))),
        "ValueSetOauth2Session" => Built::plain(many(r, &mut |r| {
            let state = match r.below(3) {
                0 => SessionState::ExpiresAt(rtime(r)),
                1 => SessionState::NeverExpires,
                _ => SessionState::RevokedAt(rcid(r)),
            };
            Value::Oauth2Session(ruuid(r), Oauth2Session { parent: if r.chance(3, 4) { Some(ruuid(r)) } else { None }, state, issued_at: rtime(r), rs_uuid: ruuid(r) })
        })),
        "ValueSetApiTokenSet" => Built::plain(many(r, &mut |r| Value::ApiToken(ruuid(r), rapitoken(r, None, None)))),
        "ValueSetTotpSecret" => Built::plain(many(r, &mut |r| Value::TotpSecret(rname(r), rtotp(r, None)))),
        "ValueSetCredential" => {
            let mut vals = vec![];
            let mut cleartexts = BTreeMap::new();
            let mut codes = vec![];
            let mut note = String::new();
            for i in 0..r.range(1, 2) {
                let kind = *r.pick(&["Password", "GeneratedPassword", "PasswordMfa"]);
                let (c, clear, bc, k) = rcredential(r, kind, None, None);
                let tag = format!("{}{i}", rname(r));
                cleartexts.insert(tag.clone(), clear);
                codes.extend(bc);
                note.push_str(&format!("{kind}/{k} "));
                vals.push(Value::Cred(tag, c));
            }
            Built { verify: true, vs: from_values(vals), cleartexts, backup_codes: codes, note }
        }
        "ValueSetApplicationPassword" => {
            let mut vals = vec![];
            let mut cleartexts = BTreeMap::new();
            let mut note = String::new();
            for i in 0..n {
                let (pw, clear, k) = rpassword(r, None);
                let label = format!("{}{i}", rname(r));
                cleartexts.insert(label.clone(), clear);
                note.push_str(&format!("{k} "));
                vals.push(Value::ApplicationPassword(hk::app_password(ruuid(r), nat_uuid(r.below(2)), label, pw)));
            }
            Built { verify: true, vs: from_values(vals), cleartexts, backup_codes: vec![], note }
        }
        "ValueSetJwsKeyEs256" => Built::plain(many(r, &mut |_| Value::JwsKeyEs256(compact_jwt::JwsEs256Signer::generate_es256().expect("es256 key")))),
        "ValueSetJwsKeyRs256" => {
            // RSA key generation is slow: a small pool
            let k = rs256_pool(r.below(3) as usize);
            Built::plain(from_values(vec![Value::JwsKeyRs256(k)]))
        }
        "ValueSetKeyInternal" => {
            // `insert_checked` is not implemented for this struct: build the whole map at once
            let keys: Vec<_> = (0..n)
                .map(|_| {
                    let dn = *r.pick(&[1usize, 32, 121]);
                    (
                        format!("{:012x}", r.next() & 0xffff_ffff_ffff).as_str().into(),
                        valueset::KeyInternalData {
                            usage: *r.pick(&[KeyUsage::JwsEs256, KeyUsage::JwsHs256, KeyUsage::JwsRs256, KeyUsage::JweA128GCM, KeyUsage::HkdfS256]),
                            valid_from: r.below(4_000_000_000),
                            status: *r.pick(&[KeyStatus::Valid, KeyStatus::Retained, KeyStatus::Revoked]),
                            status_cid: rcid(r),
                            der: r.bytes(dn).into(),
                        },
                    )
                })
                .collect();
            Built::plain(valueset::ValueSetKeyInternal::from_key_iter(keys.into_iter()).expect("key internal"))
        }
        "ValueSetCertificate" => {
            let mut pems: Vec<&str> = CERT_PEMS.to_vec();
            r.shuffle(&mut pems);
            let vals: Vec<Value> = pems.iter().take(n).map(|p| Value::new_certificate_s(p).expect("certificate")).collect();
            Built::plain(from_values(vals))
        }
        "ValueSetImage" => Built::plain(many(r, &mut |r| {
            let n = *r.pick(&[0usize, 1, 64, 2000]);
            Value::Image(ImageValue {
                filename: format!("{}.{}", rname(r), r.pick(&["png", "jpg", "svg"])),
                filetype: r.pick(&[ImageType::Png, ImageType::Jpg, ImageType::Gif, ImageType::Svg, ImageType::Webp]).clone(),
                contents: r.bytes(n),
            })
        })),
        "ValueSetJson" => Built::plain(valueset::ValueSetJson::new(rjson(r, 3))),
        "ValueSetMessage" => {
            let m = if r.chance(1, 3) {
                OutboundMessage::TestMessageV1 { display_name: rstring(r) }
            } else {
                OutboundMessage::CredentialResetV1 { display_name: rstring(r), intent_id: rstring(r), expiry_time: rtime(r) }
            };
            Built::plain(valueset::ValueSetMessage::new(m))
        }
        "ValueSetSha256" => {
            let mut vs: ValueSet = valueset::ValueSetSha256::new(sha_out(r).into());
            for _ in 1..n {
                vs.insert_checked(Value::Sha256(sha_out(r).into())).expect("sha256 insert");
            }
            Built::plain(vs)
        }
        "ValueSetPasskey" => {
            let mut vals = vec![];
            for (i, p) in PASSKEY_JSON.iter().take(n).enumerate() {
                vals.push(Value::Passkey(ruuid(r), format!("{}{i}", rstring(r)), serde_json::from_str(p).expect("passkey fixture")));
            }
            Built::plain(from_values(vals))
        }
        "ValueSetAttestedPasskey" => {
            let mut vals = vec![];
            for (i, p) in ATTESTED_PASSKEY_JSON.iter().take(n).enumerate() {
                vals.push(Value::AttestedPasskey(ruuid(r), format!("{}{i}", rstring(r)), serde_json::from_str(p).expect("attested passkey fixture")));
            }
            Built::plain(from_values(vals))
        }
        "ValueSetWebauthnAttestationCaList" => {
            let l = serde_json::from_str(CA_LIST_JSON[r.below(CA_LIST_JSON.len() as u64) as usize]).expect("ca list fixture");
            Built::plain(from_values(vec![Value::WebauthnAttestationCaList(l)]))
        }
        _ => return None,
    };
    Some(b)
}

fn sha_out(r: &mut Rng) -> [u8; 32] {
    let b = r.bytes(32);
    let mut a = [0u8; 32];
    a.copy_from_slice(&b);
    a
}

fn rapitoken(r: &mut Rng, by: Option<&str>, scope: Option<&str>) -> ApiToken {
    let issued_by = match by.unwrap_or(*r.pick(&["Internal", "User", "Synch"])) {
        "Internal" => IdentityId::Internal(ruuid(r)),
        "User" => IdentityId::User(ruuid(r)),
        _ => IdentityId::Synch(ruuid(r)),
    };
    let scope = match scope.unwrap_or(*r.pick(&["ReadOnly", "ReadWrite", "Synchronise"])) {
        "ReadOnly" => ApiTokenScope::ReadOnly,
        "ReadWrite" => ApiTokenScope::ReadWrite,
        _ => ApiTokenScope::Synchronise,
    };
    ApiToken { label: rstring(r), expiry: if r.chance(1, 2) { Some(rtime(r)) } else { None }, issued_at: rtime(r), issued_by, scope }
}

fn rs256_pool(i: usize) -> compact_jwt::crypto::JwsRs256Signer {
    use std::sync::OnceLock;
    static POOL: OnceLock<Vec<Vec<u8>>> = OnceLock::new();
    let pool = POOL.get_or_init(|| {
        (0..3)
            .map(|_| compact_jwt::crypto::JwsRs256Signer::generate_rs256().expect("rs256 key").private_key_to_der().expect("rs256 der").to_vec())
            .collect()
    });
    compact_jwt::crypto::JwsRs256Signer::from_rs256_der(&pool[i % pool.len()]).expect("rs256 from der")
}

// ------------------------------------------------------------------------------------
// the round trip of one value + oracle + correspondence

struct Ctx {
    drv: Driver,
    rep: Report,
}

fn top_key(j: &J) -> String {
    match j {
        J::Object(o) if o.len() == 1 => o.keys().next().cloned().unwrap_or_default(),
        J::String(s) => s.clone(),
        _ => "?".into(),
    }
}

impl Ctx {
    /// At most three failures per class reach the (bounded) report, so that a frequent known
    /// finding can never crowd out a different failure.
    fn room(&mut self, class: &str) -> bool {
        let k = format!("failures:{class}");
        self.rep.count(&k);
        self.rep.histogram.get(&k).cloned().unwrap_or(0) <= 3
    }
    fn oracle_fail(&mut self, class: &str, input: J, expected: String, observed: String) {
        if !self.room(class) {
            return;
        }
        self.rep.fail(Failure { kind: "impl-vs-oracle".into(), class: class.into(), input, expected, observed });
    }
    fn model_fail(&mut self, class: &str, input: J, expected: String, observed: String) {
        if !self.room(class) {
            return;
        }
        self.rep.fail(Failure { kind: "impl-vs-model".into(), class: class.into(), input, expected, observed });
    }

    /// The behaviour battery: `reloaded` must answer every question like `orig` does.
    fn same_behaviour(&mut self, name: &str, how: &str, orig: &ValueSet, reloaded: &ValueSet, args: &battery::ProbeArgs, want: &[battery::Answer], input: &J) {
        let got = battery::battery(reloaded, args, None);
        self.rep.count_n("battery:answers-compared", got.len() as u64);
        if let Some((k, method, arg, a, b)) = battery::first_difference(want, &got) {
            // an answer that depends on the iteration order of a hash set is not a difference
            if battery::construction_dependent(orig, args, k, &a, &b, 64) {
                self.rep.count(&format!("battery:construction-dependent:{name}:{method}"));
                // look past it: compare the rest with this question masked
                let mut w2 = want.to_vec();
                let mut g2 = got.clone();
                let mut guard_n = 0;
                while let Some((k2, m2, a2, x2, y2)) = battery::first_difference(&w2, &g2) {
                    if guard_n < 256 && battery::construction_dependent(orig, args, k2, &x2, &y2, 64) {
                        self.rep.count(&format!("battery:construction-dependent:{name}:{m2}"));
                        w2[k2].2.clear();
                        g2[k2].2.clear();
                        guard_n += 1;
                        continue;
                    }
                    let mut inp = input.clone();
                    inp["probe"] = json!({"method": m2, "argument": clip(&a2), "reloaded_via": how});
                    self.oracle_fail(&format!("behaviour-differs:{name}:{m2}"), inp, clip(&format!("{m2}({a2}) = {x2}")), clip(&format!("{m2}({a2}) = {y2}")));
                    break;
                }
                return;
            }
            let mut inp = input.clone();
            inp["probe"] = json!({"method": method, "argument": clip(&arg), "reloaded_via": how});
            self.oracle_fail(&format!("behaviour-differs:{name}:{method}"), inp, clip(&format!("{method}({arg}) = {a}")), clip(&format!("{method}({arg}) = {b}")));
        }
    }

    /// Store + load `b.vs` and judge it. Returns the stored JSON. `other`: a second value set of the
    /// same struct (argument of `merge`, `repl_merge_valueset`, source of values to insert).
    fn roundtrip(&mut self, name: &str, b: &Built, other: &ValueSet, input: J) -> Option<J> {
        let probe = Probe { verify: b.verify, cleartexts: &b.cleartexts, totp_time: Duration::from_secs(1_700_000_000), backup_codes: &b.backup_codes };
        let before = behaviour(&b.vs, name, &probe);
        let s1 = match hk::vs_to_db_json(&b.vs) {
            Ok(s) => s,
            Err(e) => {
                self.oracle_fail("store-failed", input, "a stored form".into(), e);
                return None;
            }
        };
        let j1: J = serde_json::from_str(&s1).expect("stored form is JSON");
        let back = match hk::vs_from_db_json(&s1) {
            Ok(v) => v,
            Err(e) => {
                self.oracle_fail(&format!("load-failed:{name}"), input, "the stored value loads".into(), format!("{e}; stored {}", clip(&s1)));
                return Some(j1);
            }
        };
        // --- oracle: equivalent value
        let after = behaviour(&back, name, &probe);
        // `equal` is the value's own notion of equality; a few structs leave it unimplemented
        // (`debug_assert!(false); false`): use it only where it is reflexive on the original
        let reflexive = guard(|| b.vs.equal(&b.vs.clone())) == Some(true);
        if !reflexive {
            self.rep.count(&format!("equal-not-reflexive:{name}"));
        }
        let eq1 = !reflexive || guard(|| b.vs.equal(&back)) == Some(true);
        let eq2 = !reflexive || guard(|| back.equal(&b.vs)) == Some(true);
        let j2: J = hk::vs_to_db_json(&back).ok().and_then(|s| serde_json::from_str(&s).ok()).unwrap_or(J::Null);
        let mut recognised = false;
        if !(eq1 && eq2) && name == "ValueSetMessage" && canon(&j1) == canon(&j2) && message_differs_only_subsecond(&b.vs, &back) {
            // recognised: `expiry_time` is stored in whole seconds
            recognised = true;
            self.oracle_fail("message-expiry-subsecond-lost", input.clone(), clip(&format!("{:?}", b.vs)), clip(&format!("{back:?} stored {s1}")));
        } else if !(eq1 && eq2) {
            self.oracle_fail(&format!("not-equal:{name}"), input.clone(), "reloaded valueset equal to the original".into(), format!("equal={eq1}/{eq2} stored {}", clip(&s1)));
        } else if before != after {
            self.oracle_fail(&format!("behaviour-differs:{name}"), input.clone(), clip(&before.to_string()), clip(&after.to_string()));
        } else if canon(&j1) != canon(&j2) {
            self.oracle_fail(&format!("restored-form-differs:{name}"), input.clone(), clip(&canon(&j1).to_string()), clip(&canon(&j2).to_string()));
        }
        // --- oracle: identical behaviour on the whole `ValueSetT` surface
        let tb = std::time::Instant::now();
        let pargs = battery::ProbeArgs::derive(&b.vs, other);
        let want = battery::battery(&b.vs, &pargs, None);
        self.rep.count_n("battery:questions", want.len() as u64);
        // sanity: the battery is a function of the value — a clone of the original answers alike
        let nth = self.rep.histogram.get(&format!("battery:{name}")).cloned().unwrap_or(0);
        self.rep.count(&format!("battery:{name}"));
        if nth < 4 || nth % 16 == 0 {
            let again = battery::battery(&b.vs.clone(), &pargs, None);
            self.rep.count("battery:self-checks");
            if let Some((_, method, arg, x, y)) = battery::first_difference(&want, &again) {
                self.model_fail(&format!("battery-unstable:{name}:{method}"), input.clone(), clip(&format!("{method}({arg}) = {x}")), clip(&format!("on a clone: {y}")));
            }
        }
        // (a value already recognised as a known finding is a different value: nothing to add)
        if !recognised {
            self.same_behaviour(name, "to_db_valueset_v2+serde_json+from_db_valueset_v2", &b.vs, &back, &pargs, &want, &input);
        }
        self.rep.count_n(&format!("ms-battery:{name}"), tb.elapsed().as_millis() as u64);
        // correspondence on the message expiry's time codec (D24)
        if let (true, Some(OutboundMessage::CredentialResetV1 { expiry_time: e0, .. }), Some(OutboundMessage::CredentialResetV1 { expiry_time: e1, .. })) =
            (name == "ValueSetMessage", guard(|| b.vs.as_message().cloned()).flatten(), guard(|| back.as_message().cloned()).flatten())
        {
            if e0.unix_timestamp_nanos() >= 0 {
                let model = self.drv.ask(&format!("msgexp {}", e0.unix_timestamp_nanos()));
                let got = e1.unix_timestamp_nanos().to_string();
                self.rep.count(if e0 == e1 { "message-expiry:exact" } else { "message-expiry:truncated" });
                if model != got {
                    self.model_fail("message-expiry-codec", input.clone(), model, got);
                }
            }
        }
        // the same without serde in between (what replication does in-process)
        match hk::vs_direct_roundtrip(&b.vs) {
            Ok(d) => {
                let deq = !reflexive || (guard(|| b.vs.equal(&d)) == Some(true) && guard(|| d.equal(&b.vs)) == Some(true));
                let cheap = Probe { verify: false, ..probe };
                let _ = &cheap;
                let same = if b.cleartexts.is_empty() { behaviour(&d, name, &probe) == before } else { behaviour(&d, name, &cheap) == behaviour(&b.vs, name, &cheap) };
                if !deq || !same {
                    self.oracle_fail(&format!("direct-not-equal:{name}"), input.clone(), "to_db_valueset_v2 → from_db_valueset_v2 is the identity".into(), "differs".into());
                }
                // the decoder is the same function with and without serde: every fourth case
                if nth % 4 == 0 && !recognised {
                    self.same_behaviour(name, "to_db_valueset_v2+from_db_valueset_v2 (no serde)", &b.vs, &d, &pargs, &want, &input);
                }
            }
            Err(e) => self.oracle_fail(&format!("direct-load-failed:{name}"), input.clone(), "loads".into(), e),
        }
        // --- correspondence: stored constructor, decoding struct, syntax
        let model = self.drv.ask(&format!("dispatch {name}"));
        let after_name = struct_name(&back);
        let syn = match before["syntax"].as_str() {
            Some("unreachable") => "none".to_string(),
            Some(s) => syntax_id(s),
            None => "?".into(),
        };
        let got = format!("ok {} {} {}", top_key(&j1), after_name, syn);
        let want = {
            let t: Vec<&str> = model.split(' ').collect();
            if t.len() == 5 { format!("ok {} {} {}", t[2], t[3], t[4]) } else { model.clone() }
        };
        if got != want {
            self.model_fail(&format!("dispatch:{name}"), input, want, got);
        }
        Some(j1)
    }
}

fn message_differs_only_subsecond(a: &ValueSet, b: &ValueSet) -> bool {
    match (a.as_message(), b.as_message()) {
        (
            Some(OutboundMessage::CredentialResetV1 { display_name: d1, intent_id: i1, expiry_time: e1 }),
            Some(OutboundMessage::CredentialResetV1 { display_name: d2, intent_id: i2, expiry_time: e2 }),
        ) => d1 == d2 && i1 == i2 && e1 != e2 && e1.unix_timestamp() == e2.unix_timestamp() && e2.nanosecond() == 0,
        _ => false,
    }
}

fn clip(s: &str) -> String {
    if s.len() > 600 {
        let mut e = 600;
        while !s.is_char_boundary(e) {
            e -= 1;
        }
        format!("{}…", &s[..e])
    } else {
        s.to_string()
    }
}

fn syntax_id(debug_name: &str) -> String {
    for i in 0..200u16 {
        if let Ok(s) = SyntaxType::try_from(i) {
            if format!("{s:?}") == debug_name {
                return i.to_string();
            }
        }
    }
    "?".into()
}

// ------------------------------------------------------------------------------------
// part: tags (exhaustive over the generated tables)

/// Walk a JSON document and collect every string / single-key-object key that equals one of
/// `names` at a position described by `path` (a list of object keys; `*` = every array item /
/// every map value).
fn at_path<'a>(j: &'a J, path: &[&str], out: &mut Vec<&'a J>) {
    if path.is_empty() {
        out.push(j);
        return;
    }
    match (path[0], j) {
        ("*", J::Array(a)) => a.iter().for_each(|x| at_path(x, &path[1..], out)),
        ("*", J::Object(o)) => o.values().for_each(|x| at_path(x, &path[1..], out)),
        (k, J::Object(o)) => {
            if let Some(x) = o.get(k) {
                at_path(x, &path[1..], out)
            }
        }
        (k, J::Array(a)) => {
            if let Ok(i) = k.parse::<usize>() {
                if let Some(x) = a.get(i) {
                    at_path(x, &path[1..], out)
                }
            }
        }
        _ => {}
    }
}

/// serde's externally tagged enum: `"Name"` or `{"Name": …}`; internally tagged: field `type_`.
fn enum_tag(j: &J) -> String {
    match j {
        J::String(s) => s.clone(),
        J::Object(o) => {
            if let Some(J::String(t)) = o.get("type_") {
                t.clone()
            } else if o.len() == 1 {
                o.keys().next().cloned().unwrap_or_default()
            } else {
                "?".into()
            }
        }
        _ => "?".into(),
    }
}

fn variant_word(debug: &str) -> String {
    debug.split(|c: char| !(c.is_alphanumeric() || c == '_')).next().unwrap_or("").to_string()
}

struct TagCase {
    vs: ValueSet,
    /// where the stored variant sits in the stored JSON
    path: Vec<&'static str>,
    /// reads the in-memory variant back out of a loaded valueset
    read: Box<dyn Fn(&ValueSet) -> String>,
}

fn tag_case(pair: &str, variant: &str, r: &mut Rng) -> Option<TagCase> {
    let one_session = |s: Session| from_values(vec![Value::Session(nat_uuid(1), s)]);
    let sess = |vs: &ValueSet| vs.as_session_map().and_then(|m| m.values().next().cloned());
    let c = match pair {
        "password" => {
            if variant == "TPM_ARGON2ID" {
                return None; // only reachable with an HSM; covered by the stored-JSON part
            }
            let (pw, _, _) = rpassword(r, Some(variant));
            let c = hk::cred_from_password(pw, false, rtime(r));
            TagCase {
                vs: from_values(vec![Value::Cred("t".into(), c)]),
                path: vec!["CR", "*", "d", "password"],
                read: Box::new(|vs| {
                    vs.as_credential_map()
                        .and_then(|m| m.values().next().and_then(|c| c.password_ref().ok().map(|p| variant_word(&format!("{:?}", p).replace("Password { material: ", "")))))
                        .unwrap_or_default()
                }),
            }
        }
        "credential-type" => {
            if variant == "Webauthn" {
                return None; // never created in memory any more; covered by the stored-JSON part (TmpWn)
            }
            let (c, _, _, _) = rcredential(r, variant, None, None);
            TagCase {
                vs: from_values(vec![Value::Cred("t".into(), c)]),
                path: vec!["CR", "*", "d"],
                read: Box::new(|vs| {
                    vs.as_credential_map()
                        .and_then(|m| m.values().next().map(|c| variant_word(&format!("{:?}", kanidm_proto::internal::CredentialDetail::from(c).type_))))
                        .unwrap_or_default()
                }),
            }
        }
        "totp-algo" => TagCase {
            vs: from_values(vec![Value::TotpSecret("l".into(), rtotp(r, Some(variant)))]),
            path: vec!["TO", "*", "1", "a"],
            read: Box::new(|vs| vs.as_totp_map().and_then(|m| m.values().next().map(|t| variant_word(&format!("{:?}", t.to_proto("a", "i").algo)))).unwrap_or_default()),
        },
        "session-state" => TagCase {
            vs: one_session(rsession(r, Some(variant), None, None, None, None)),
            path: vec!["AS", "*", "V4", "e"],
            read: Box::new(move |vs| sess(vs).map(|s| variant_word(&format!("{:?}", s.state))).unwrap_or_default()),
        },
        "session-issued-by" => TagCase {
            vs: one_session(rsession(r, None, Some(variant), None, None, None)),
            path: vec!["AS", "*", "V4", "b"],
            read: Box::new(move |vs| sess(vs).map(|s| variant_word(&format!("{:?}", s.issued_by))).unwrap_or_default()),
        },
        "session-scope" => TagCase {
            vs: one_session(rsession(r, None, None, Some(variant), None, None)),
            path: vec!["AS", "*", "V4", "s"],
            read: Box::new(move |vs| sess(vs).map(|s| variant_word(&format!("{:?}", s.scope))).unwrap_or_default()),
        },
        "session-auth-type" => TagCase {
            vs: one_session(rsession(r, None, None, None, Some(variant), None)),
            path: vec!["AS", "*", "V4", "t"],
            read: Box::new(move |vs| sess(vs).map(|s| variant_word(&format!("{:?}", s.type_))).unwrap_or_default()),
        },
        "session-ext-metadata" => TagCase {
            vs: one_session(rsession(r, None, None, None, None, Some(variant))),
            path: vec!["AS", "*", "V4", "x"],
            read: Box::new(move |vs| sess(vs).map(|s| variant_word(&format!("{:?}", s.ext_metadata))).unwrap_or_default()),
        },
        "session-version" => TagCase {
            vs: one_session(rsession(r, None, None, None, None, None)),
            path: vec!["AS", "*"],
            read: Box::new(move |vs| if sess(vs).is_some() { "current".into() } else { "dropped".into() }),
        },
        "oauth2session-state" | "oauth2session-version" => {
            let state = match if pair == "oauth2session-state" { variant } else { "NeverExpires" } {
                "ExpiresAt" => SessionState::ExpiresAt(rtime(r)),
                "NeverExpires" => SessionState::NeverExpires,
                _ => SessionState::RevokedAt(rcid(r)),
            };
            let vs = from_values(vec![Value::Oauth2Session(nat_uuid(1), Oauth2Session { parent: Some(nat_uuid(2)), state, issued_at: rtime(r), rs_uuid: nat_uuid(3) })]);
            if pair == "oauth2session-state" {
                TagCase {
                    vs,
                    path: vec!["OZ", "*", "V3", "e"],
                    read: Box::new(|vs| vs.as_oauth2session_map().and_then(|m| m.values().next().map(|s| variant_word(&format!("{:?}", s.state)))).unwrap_or_default()),
                }
            } else {
                TagCase {
                    vs,
                    path: vec!["OZ", "*"],
                    read: Box::new(|vs| if vs.as_oauth2session_map().map(|m| m.len() == 1).unwrap_or(false) { "current".into() } else { "dropped".into() }),
                }
            }
        }
        "apitoken-issued-by" => TagCase {
            vs: from_values(vec![Value::ApiToken(nat_uuid(1), rapitoken(r, Some(variant), None))]),
            path: vec!["AT", "*", "V1", "b"],
            read: Box::new(|vs| vs.as_apitoken_map().and_then(|m| m.values().next().map(|s| variant_word(&format!("{:?}", s.issued_by)))).unwrap_or_default()),
        },
        "apitoken-scope" => TagCase {
            vs: from_values(vec![Value::ApiToken(nat_uuid(1), rapitoken(r, None, Some(variant)))]),
            path: vec!["AT", "*", "V1", "s"],
            read: Box::new(|vs| vs.as_apitoken_map().and_then(|m| m.values().next().map(|s| variant_word(&format!("{:?}", s.scope)))).unwrap_or_default()),
        },
        "intent-token-state" => TagCase {
            vs: from_values(vec![Value::IntentToken("tok".into(), rintent(r, Some(variant)))]),
            path: vec!["IT", "*", "1"],
            read: Box::new(|vs| vs.as_intenttoken_map().and_then(|m| m.values().next().map(|s| variant_word(&format!("{s:?}")))).unwrap_or_default()),
        },
        "key-usage" | "key-status" => {
            let usage = match if pair == "key-usage" { variant } else { "JwsEs256" } {
                "JwsEs256" => KeyUsage::JwsEs256,
                "JwsHs256" => KeyUsage::JwsHs256,
                "JwsRs256" => KeyUsage::JwsRs256,
                "JweA128GCM" => KeyUsage::JweA128GCM,
                "HkdfS256" => KeyUsage::HkdfS256,
                _ => return None,
            };
            let status = match if pair == "key-status" { variant } else { "Valid" } {
                "Valid" => KeyStatus::Valid,
                "Retained" => KeyStatus::Retained,
                "Revoked" => KeyStatus::Revoked,
                _ => return None,
            };
            let vs = from_values(vec![Value::KeyInternal { id: "abcdef012345".into(), usage, valid_from: 7, status, status_cid: rcid(r), der: r.bytes(16).into() }]);
            let usage_pair = pair == "key-usage";
            TagCase {
                vs,
                path: if usage_pair { vec!["KI", "*", "V1", "usage"] } else { vec!["KI", "*", "V1", "status"] },
                read: Box::new(move |vs| {
                    vs.as_key_internal_map()
                        .and_then(|m| m.values().next().map(|d| if usage_pair { format!("{:?}", d.usage) } else { format!("{:?}", d.status) }))
                        .unwrap_or_default()
                }),
            }
        }
        "oauth-claim-join" => {
            let join = match variant {
                "CommaSeparatedValue" => OauthClaimMapJoin::CommaSeparatedValue,
                "SpaceSeparatedValue" => OauthClaimMapJoin::SpaceSeparatedValue,
                "JsonArray" => OauthClaimMapJoin::JsonArray,
                _ => return None,
            };
            TagCase {
                vs: from_values(vec![Value::OauthClaimMap("claim".into(), join), Value::OauthClaimValue("claim".into(), nat_uuid(1), rscopes(r))]),
                path: vec!["OC", "*", "V1", "j"],
                read: Box::new(|vs| vs.as_oauthclaim_map().and_then(|m| m.values().next().map(|c| format!("{c:?}").split("join: ").nth(1).map(variant_word).unwrap_or_default())).unwrap_or_default()),
            }
        }
        _ => return None,
    };
    Some(c)
}

/// Pairs that live at entry level (change state, replication state): exercised by `c12srv`.
const ENTRY_LEVEL_PAIRS: [&str; 3] = ["changestate", "repl-state", "repl-incr-state"];
/// In-memory variants that no code path creates any more / need hardware: stored-JSON part only.
const STORED_ONLY: [(&str, &str); 2] = [("password", "TPM_ARGON2ID"), ("credential-type", "Webauthn")];

fn run_tags(ctx: &mut Ctx, seed: u64) {
    let pairs = ctx.drv.ask("pairs");
    for pair in pairs.split(',').filter(|p| !p.is_empty()) {
        if pair == "valueset-dispatch" || ENTRY_LEVEL_PAIRS.contains(&pair) {
            continue;
        }
        let names = ctx.drv.ask(&format!("names {pair}"));
        for (vi, variant) in names.split(',').filter(|p| !p.is_empty()).enumerate() {
            if STORED_ONLY.contains(&(pair, variant)) {
                ctx.rep.count("tags:stored-only-variant");
                continue;
            }
            let reps = 3;
            for k in 0..reps {
                let mut r = Rng::for_case(seed, 0x7a6_0000 + (vi as u64) * 16 + k);
                let input = json!({"part": "tags", "pair": pair, "variant": variant, "k": k});
                let Some(tc) = tag_case(pair, variant, &mut r) else {
                    ctx.model_fail("unbuildable-variant", input, format!("a builder for {pair}::{variant} ({ALL_STRUCTS_HINT})"), "none".into());
                    ctx.rep.case(None);
                    break;
                };
                ctx.rep.count(&format!("tags:{pair}"));
                let model = ctx.drv.ask(&format!("tag {pair} {variant}"));
                let s1 = hk::vs_to_db_json(&tc.vs).expect("stored form");
                let j1: J = serde_json::from_str(&s1).expect("json");
                let mut hits = vec![];
                at_path(&j1, &tc.path, &mut hits);
                let stored: Vec<String> = hits.iter().map(|h| enum_tag(h)).collect();
                let stored_tag = if stored.len() == 1 { stored[0].clone() } else { format!("{stored:?}") };
                let (loaded_variant, loaded_ok) = match hk::vs_from_db_json(&s1) {
                    Ok(back) => ((tc.read)(&back), true),
                    Err(e) => (format!("load-error:{e}"), false),
                };
                let before_variant = (tc.read)(&tc.vs);
                // credential detail collapses names: map through the same reader on the original
                let got = format!("{stored_tag} {}", if loaded_ok && loaded_variant == before_variant { variant.to_string() } else { format!("{loaded_variant}≠{before_variant}") });
                let want = {
                    let t: Vec<&str> = model.split(' ').collect();
                    if t.len() == 4 { format!("{} {}", t[2], t[3]) } else { model.clone() }
                };
                ctx.rep.case(Some(format!("tag {pair} {variant}")));
                if got != want {
                    ctx.model_fail(&format!("tag:{pair}"), json!({"part": "tags", "pair": pair, "variant": variant, "k": k, "stored": clip(&s1)}), want, got.clone());
                }
                // oracle: the variant read from the reloaded value is the variant of the original
                if !loaded_ok || loaded_variant != before_variant {
                    ctx.oracle_fail(&format!("variant-changed:{pair}:{variant}"), json!({"part": "tags", "pair": pair, "variant": variant, "k": k, "stored": clip(&s1)}), before_variant, loaded_variant);
                }
            }
        }
    }
}

// ------------------------------------------------------------------------------------
// part: values

/// A second value set of struct `name` (independent random stream), or a clone of `fallback`.
fn second_set(name: &str, seed: u64, i: u64, fallback: &ValueSet) -> ValueSet {
    let mut r = Rng::for_case(seed, 0x07e4_0000_0000 + i);
    guard(|| build(name, &mut r)).flatten().map(|b| b.vs).unwrap_or_else(|| fallback.clone())
}

fn run_value_case(ctx: &mut Ctx, seed: u64, i: u64, names: &[String]) {
    let mut r = Rng::for_case(seed, i);
    let name = &names[(i % names.len() as u64) as usize];
    let input = json!({"part": "values", "seed": seed, "case": i, "struct": name});
    let Some(built) = guard(|| build(name, &mut r)) else {
        ctx.model_fail(&format!("builder-panicked:{name}"), input, format!("a value of {name}"), "panic".into());
        ctx.rep.case(None);
        return;
    };
    let Some(b) = built else {
        ctx.model_fail("unbuildable-struct", input, format!("a builder for {name}"), "none".into());
        ctx.rep.case(None);
        return;
    };
    ctx.rep.count(&format!("values:{name}"));
    let t0 = std::time::Instant::now();
    for k in b.note.split(' ').filter(|s| !s.is_empty()) {
        ctx.rep.count(&format!("kdf:{k}"));
    }
    let mut input = input;
    input["note"] = json!(b.note);
    let t1 = std::time::Instant::now();
    let other = second_set(name, seed, i, &b.vs);
    ctx.rep.count_n(&format!("ms-second-set:{name}"), t1.elapsed().as_millis() as u64);
    let stored = ctx.roundtrip(name, &b, &other, input);
    ctx.rep.count_n(&format!("ms:{name}"), t0.elapsed().as_millis() as u64);
    let key = stored.as_ref().map(|j| clip(&j.to_string())).unwrap_or_default();
    ctx.rep.case(if b.vs.len() >= 1 { Some(format!("{name} {key}")) } else { None });
    if i % 997 == 3 {
        ctx.rep.sample(json!({"struct": name, "stored": stored.map(|j| clip(&j.to_string()))}));
    }
}

/// One credential of each `Kdf` variant at a time (the floor: every variant ≥ 20 per run).
fn run_password_case(ctx: &mut Ctx, seed: u64, i: u64, kdfs: &[String]) {
    let mut r = Rng::for_case(seed, 0x9a55_0000 + i);
    let mem: Vec<&String> = kdfs.iter().filter(|k| *k != "TPM_ARGON2ID").collect();
    let kdf = mem[(i % mem.len() as u64) as usize];
    let input = json!({"part": "passwords", "seed": seed, "case": i, "kdf": kdf});
    let kind = *r.pick(&["Password", "GeneratedPassword", "PasswordMfa"]);
    let Some((c, clear, codes, k)) = guard(|| rcredential(&mut r, kind, Some(kdf), None)) else {
        ctx.model_fail(&format!("builder-panicked:password:{kdf}"), input, "a credential".into(), "panic".into());
        ctx.rep.case(None);
        return;
    };
    ctx.rep.count(&format!("kdf:{k}"));
    let mut cleartexts = BTreeMap::new();
    cleartexts.insert("pw".to_string(), clear);
    let b = Built { verify: true, vs: from_values(vec![Value::Cred("pw".into(), c)]), cleartexts, backup_codes: codes, note: k };
    // (a second credential set would double the hashing; the `values` part merges real second sets)
    let other = b.vs.clone();
    let stored = ctx.roundtrip("ValueSetCredential", &b, &other, input);
    ctx.rep.case(Some(format!("password {kdf} {}", stored.map(|j| clip(&j.to_string())).unwrap_or_default())));
}

// ------------------------------------------------------------------------------------
// part: stored JSON (legacy versions, every password variant, rejected / malformed input)

fn b64u(b: &[u8]) -> String {
    const T: &[u8; 64] = b"ABCDEFGHIJKLMNOPQRSTUVWXYZabcdefghijklmnopqrstuvwxyz0123456789-_";
    let mut s = String::new();
    for ch in b.chunks(3) {
        let n = (ch[0] as u32) << 16 | (*ch.get(1).unwrap_or(&0) as u32) << 8 | *ch.get(2).unwrap_or(&0) as u32;
        s.push(T[(n >> 18) as usize & 63] as char);
        s.push(T[(n >> 12) as usize & 63] as char);
        if ch.len() > 1 {
            s.push(T[(n >> 6) as usize & 63] as char);
        }
        if ch.len() > 2 {
            s.push(T[n as usize & 63] as char);
        }
    }
    s
}

/// A stored password of the given `DbPasswordV1` variant with recognisable field atoms.
/// Returns (json, [(slot name, atom)]).
fn stored_password(variant: &str, r: &mut Rng) -> (J, Vec<J>) {
    let bytes = |r: &mut Rng| -> Vec<u8> { let n = r.range(1, 40) as usize; r.bytes(n) };
    let num = |r: &mut Rng| -> u32 { r.range(1, 100000) as u32 }; // never hashed: see `verify: false`
    match variant {
        "TPM_ARGON2ID" | "ARGON2ID" => {
            let (m, t, p, v, s, k) = (num(r), num(r), num(r), num(r), bytes(r), bytes(r));
            (json!({variant: {"m": m, "t": t, "p": p, "v": v, "s": b64u(&s), "k": b64u(&k)}}), vec![json!(m), json!(t), json!(p), json!(v), json!(b64u(&s)), json!(b64u(&k))])
        }
        "PBKDF2" | "PBKDF2_SHA1" | "PBKDF2_SHA512" => {
            let (c, s, h) = (num(r), bytes(r), bytes(r));
            (json!({variant: [c, s, h]}), vec![json!(c), json!(s), json!(h)])
        }
        "SHA1" | "SHA256" | "SHA512" | "NT_MD4" => {
            let h = bytes(r);
            (json!({variant: h}), vec![json!(h)])
        }
        "SSHA1" | "SSHA256" | "SSHA512" => {
            let (s, h) = (bytes(r), bytes(r));
            (json!({variant: [s, h]}), vec![json!(s), json!(h)])
        }
        "CRYPT_MD5" => {
            let (s, h) = (bytes(r), bytes(r));
            (json!({variant: {"s": b64u(&s), "h": b64u(&h)}}), vec![json!(b64u(&s)), json!(b64u(&h))])
        }
        _ => {
            let h = format!("$x${}", rname(r));
            (json!({variant: {"h": h}}), vec![json!(h)])
        }
    }
}

/// Fields of a stored password document in slot order.
fn password_fields(j: &J) -> (String, Vec<J>) {
    let variant = enum_tag(j);
    let body = &j[&variant];
    let fields = match body {
        J::Object(o) => {
            let order: &[&str] = if o.contains_key("m") { &["m", "t", "p", "v", "s", "k"] } else if o.contains_key("s") { &["s", "h"] } else { &["h"] };
            order.iter().map(|k| o.get(*k).cloned().unwrap_or(J::Null)).collect()
        }
        J::Array(a) if a.iter().all(|x| x.is_number()) && !matches!(variant.as_str(), "PBKDF2" | "PBKDF2_SHA1" | "PBKDF2_SHA512" | "SSHA1" | "SSHA256" | "SSHA512") => vec![body.clone()],
        J::Array(a) => a.clone(),
        other => vec![other.clone()],
    };
    (variant, fields)
}

fn run_stored_password(ctx: &mut Ctx, seed: u64, i: u64, variants: &[String]) {
    let mut r = Rng::for_case(seed, 0x5700_0000 + i);
    let variant = &variants[(i % variants.len() as u64) as usize];
    let (pwj, atoms) = stored_password(variant, &mut r);
    // `DbCred.timestamp` uses the time crate's own serde form
    let ts = serde_json::to_value(rtime(&mut r)).expect("timestamp json");
    let kind = *r.pick(&["V2Pw", "V2GPw"]);
    let doc = json!({"CR": [{"t": "tag", "d": {"type_": kind, "password": pwj, "uuid": nat_uuid(5).to_string(), "timestamp": ts}}]});
    let input = json!({"part": "stored-password", "seed": seed, "case": i, "stored": doc});
    ctx.rep.count(&format!("stored-kdf:{variant}"));
    let s0 = doc.to_string();
    // model: stored → memory → stored over interned atoms
    let ids: Vec<String> = (0..atoms.len()).map(|k| (100 + k).to_string()).collect();
    let model = ctx.drv.ask(&format!("restore password {variant} {}", ids.join(",")));
    let got = match hk::vs_from_db_json(&s0) {
        Err(e) => format!("reject {e}"),
        Ok(vs1) => {
            let s1 = hk::vs_to_db_json(&vs1).expect("restore");
            let j1: J = serde_json::from_str(&s1).expect("json");
            let mut hits = vec![];
            at_path(&j1, &["CR", "*", "d", "password"], &mut hits);
            let (v1, f1) = hits.first().map(|h| password_fields(h)).unwrap_or_default();
            let back: Vec<String> = f1
                .iter()
                .map(|f| atoms.iter().position(|a| a == f).map(|k| (100 + k).to_string()).unwrap_or_else(|| format!("?{f}")))
                .collect();
            // oracle: loading the restored form gives an equal value with equal behaviour
            match hk::vs_from_db_json(&s1) {
                Ok(vs2) => {
                    let p = Probe { verify: false, cleartexts: &BTreeMap::new(), totp_time: Duration::from_secs(0), backup_codes: &[] };
                    if !(guard(|| vs1.equal(&vs2) && vs2.equal(&vs1)) == Some(true)) || behaviour(&vs1, "ValueSetCredential", &p) != behaviour(&vs2, "ValueSetCredential", &p) {
                        ctx.oracle_fail(&format!("stored-password-unstable:{variant}"), input.clone(), "second load equals first".into(), clip(&s1));
                    }
                    if canon(&j1) != canon(&doc) {
                        ctx.oracle_fail(&format!("stored-password-rewritten:{variant}"), input.clone(), clip(&canon(&doc).to_string()), clip(&canon(&j1).to_string()));
                    }
                }
                Err(e) => ctx.oracle_fail(&format!("stored-password-reload-failed:{variant}"), input.clone(), "loads".into(), e),
            }
            format!("ok {v1} {}", back.join(","))
        }
    };
    ctx.rep.case(Some(format!("stored-password {variant} {}", atoms.len())));
    if got != model {
        ctx.model_fail(&format!("restore:{variant}"), input, model, got);
    }
}

/// Hand-written stored documents: legacy versions, accepted and rejected constructors.
fn stored_documents(r: &mut Rng) -> Vec<(String, J)> {
    let u = |n: u64| nat_uuid(n).to_string();
    let t = "2023-05-06T07:08:09.123456789Z";
    let mut v = vec![
        ("session-v1-dropped".to_string(), json!({"AS": [{"V1": {"u": u(1), "l": "x", "e": null, "i": t, "b": {"v1u": u(2)}, "d": "r"}}]})),
        ("session-v4".to_string(), json!({"AS": [{"V4": {"u": u(1), "l": "lbl", "e": {"ea": t}, "i": t, "b": "v1i", "c": u(3), "s": "i", "t": "pt", "x": "None"}}]})),
        ("oauth2session-v1".to_string(), json!({"OZ": [{"V1": {"u": u(1), "p": u(2), "e": t, "i": t, "r": u(3)}}]})),
        ("oauth2session-v2".to_string(), json!({"OZ": [{"V2": {"u": u(1), "p": u(2), "e": "nv", "i": t, "r": u(3)}}]})),
        ("oauth2session-v3-noparent".to_string(), json!({"OZ": [{"V3": {"u": u(1), "p": null, "e": {"ra": {"s": u(9), "t": {"secs": 5, "nanos": 6}}}, "i": t, "r": u(3)}}]})),
        ("cred-tmpwn".to_string(), json!({"CR": [{"t": "wn", "d": {"type_": "TmpWn", "webauthn": [["k1", serde_json::from_str::<J>(PASSKEY_JSON[0]).expect("fixture")]], "uuid": u(4)}}]})),
        ("cred-v2pwmfa".to_string(), json!({"CR": [{"t": "m", "d": {"type_": "V2PwMfa", "password": {"SHA512": [1, 2, 3]}, "totp": {"l": "totp", "k": [1, 2, 3, 4], "s": 30, "a": "S256", "d": 8}, "backup_code": {"code_set": ["a", "b"]}, "webauthn": [], "uuid": u(4)}}]})),
        ("cred-invalid-mfa-dropped".to_string(), json!({"CR": [{"t": "m", "d": {"type_": "V3PwMfa", "password": {"SHA512": [1, 2, 3]}, "totp": [], "backup_code": null, "webauthn": [], "uuid": u(4), "timestamp": serde_json::to_value(rtime(r)).expect("ts")}}]})),
        ("eckey-rejected".to_string(), json!({"EK": [1, 2, 3]})),
        ("unknown-constructor".to_string(), json!({"ZZ": ["x"]})),
        ("wrong-payload-type".to_string(), json!({"UI": ["not a number"]})),
        ("syntax-id-out-of-range".to_string(), json!({"SY": [9999]})),
        ("empty-set".to_string(), json!({"U8": []})),
        ("datetime".to_string(), json!({"DT": [t, "1970-01-01T00:00:00Z", "2024-02-29T23:59:59.5+10:00"]})),
        ("totp-no-digits".to_string(), json!({"TO": [["l", {"l": "totp", "k": [9, 9], "s": 30, "a": "S1"}]]})),
        ("apitoken".to_string(), json!({"AT": [{"V1": {"u": u(1), "l": "tok", "e": t, "i": t, "b": {"v2i": u(7)}, "s": "w"}}]})),
        ("email-primary".to_string(), json!({"EM": ["b@example.com", ["a@example.com", "b@example.com"]]})),
    ];
    // random primitive documents
    for _ in 0..4 {
        v.push(("utf8".to_string(), json!({"U8": (0..r.range(1, 4)).map(|_| rstring(r)).collect::<Vec<_>>()})));
        v.push(("uuid".to_string(), json!({"UU": (0..r.range(1, 4)).map(|_| ruuid(r).to_string()).collect::<Vec<_>>()})));
        v.push(("i64".to_string(), json!({"I64": [r.next() as i64, i64::MIN, i64::MAX]})));
    }
    v
}

fn run_stored_docs(ctx: &mut Ctx, seed: u64, round: u64) {
    let mut r = Rng::for_case(seed, 0x5d00_0000 + round);
    for (label, doc) in stored_documents(&mut r) {
        let input = json!({"part": "stored", "label": label, "stored": doc});
        let s0 = doc.to_string();
        let key = top_key(&doc);
        let model = ctx.drv.ask(&format!("dbctor {key}"));
        ctx.rep.count(&format!("stored:{label}"));
        let res = hk::vs_from_db_json(&s0);
        // correspondence on accept / reject and on the decoding struct
        let got = match &res {
            Ok(vs) => format!("ok {}", struct_name(vs)),
            Err(e) if e.starts_with("serde") => "serde-error".to_string(),
            Err(_) => "ok reject".to_string(),
        };
        let want = {
            let t: Vec<&str> = model.split(' ').collect();
            if t.len() == 3 { format!("ok {}", t[2]) } else if model == "unknown" { "serde-error".to_string() } else { model.clone() }
        };
        // a known constructor with a malformed payload is a serde error or a decode error, never a value
        let malformed = matches!(label.as_str(), "wrong-payload-type" | "syntax-id-out-of-range" | "cred-invalid-mfa-dropped");
        if malformed {
            if res.is_ok() {
                ctx.oracle_fail(&format!("malformed-accepted:{label}"), input.clone(), "an error".into(), got.clone());
            }
        } else if got != want {
            ctx.model_fail(&format!("dbctor:{label}"), input.clone(), want, got.clone());
        }
        ctx.rep.case(Some(format!("stored {label} {}", clip(&s0))));
        // oracle: what was loaded survives another store + load unchanged
        if let Ok(vs1) = res {
            if vs1.len() == 0 {
                continue;
            }
            let name = struct_name(&vs1);
            let mut b = Built::plain(vs1);
            b.verify = false;
            let other = second_set(&name, seed, 0x5d00_0000 + round, &b.vs);
            ctx.roundtrip(&name, &b, &other, input);
        }
    }
}

// ------------------------------------------------------------------------------------

fn regression(ctx: &mut Ctx) {
    // D2: an imported `{crypt}$6$` password must verify the same cleartexts after a reload
    let s = "{crypt}$6$aXn8azL8DXUyuMvj$9aJJC/KEUwygIpf2MTqjQa.f0MEXNg2cGFc62Fet8XpuDVDedM05CweAlxW6GWxnmHqp14CRf6zU7OQoE/bCu0";
    let pw = Password::try_from(s).expect("D2 witness parses");
    let before = pw.verify("password");
    let c = hk::cred_from_password(pw, false, OffsetDateTime::UNIX_EPOCH);
    let vs = from_values(vec![Value::Cred("d2".into(), c)]);
    let input = json!({"part": "regression", "witness": "D2", "import": s, "cleartext": "password"});
    let after = hk::vs_to_db_json(&vs).and_then(|j| hk::vs_from_db_json(&j)).ok().and_then(|v| {
        v.as_credential_map().and_then(|m| m.get("d2").and_then(|c| c.password_ref().ok().map(|p| p.verify("password"))))
    });
    ctx.rep.count("regression:D2");
    ctx.rep.case(Some("regression D2".into()));
    if !(matches!(before, Ok(true)) && matches!(after, Some(Ok(true)))) {
        ctx.oracle_fail("D2:crypt-sha512-reloaded-as-sha256", input, "verify(password) = Ok(true) before and after the reload".into(), format!("before {before:?} after {after:?}"));
    }
    // D20: an RS256 key valueset must load as RS256 keys
    let b = Built::plain(from_values(vec![Value::JwsKeyRs256(rs256_pool(0))]));
    ctx.rep.count("regression:D20");
    ctx.rep.case(Some("regression D20".into()));
    let n = ctx.rep.failures.len();
    let other = b.vs.clone();
    ctx.roundtrip("ValueSetJwsKeyRs256", &b, &other, json!({"part": "regression", "witness": "D20"}));
    for f in ctx.rep.failures.iter_mut().skip(n) {
        if f.kind == "impl-vs-oracle" {
            f.class = "D20:rs256-keys-decoded-as-es256".into();
        }
    }
}

fn main() {
    let args = Args::parse();
    install_panic_hook();
    let mut ctx = Ctx {
        drv: Driver::spawn(&args.driver),
        rep: Report::new(
            "value-rt",
            "tags: every in-memory variant of every generated conversion table x3; values: random valuesets of every ValueSetT struct \
             (round-robin) through to_db_valueset_v2+serde_json+from_db_valueset_v2 and without serde; stored: hand-encoded stored JSON incl. \
             legacy versions, every DbPasswordV1 variant, rejected and malformed input; non-trivial = a non-empty valueset / a table row; \
             distinct = distinct stored JSON (values, stored) or (pair, variant) (tags)",
        ),
    };
    let names: Vec<String> = ctx.drv.ask("names valueset-dispatch").split(',').map(|s| s.to_string()).collect();
    let kdfs: Vec<String> = ctx.drv.ask("dbnames password").split(',').map(|s| s.to_string()).collect();
    if let Some(path) = &args.replay {
        let v: J = serde_json::from_str(&std::fs::read_to_string(path).expect("replay file")).expect("replay json");
        let inp = &v["input"];
        let seed = inp["seed"].as_u64().unwrap_or(args.seed);
        match inp["part"].as_str().unwrap_or("") {
            "values" => run_value_case(&mut ctx, seed, inp["case"].as_u64().unwrap_or(0), &names),
            "passwords" => run_password_case(&mut ctx, seed, inp["case"].as_u64().unwrap_or(0), &kdfs),
            "stored-password" => run_stored_password(&mut ctx, seed, inp["case"].as_u64().unwrap_or(0), &kdfs),
            "tags" => run_tags(&mut ctx, args.seed),
            "regression" => regression(&mut ctx),
            _ => {
                // a stored document: replay it verbatim
                let doc = inp["stored"].clone();
                if let Ok(vs1) = hk::vs_from_db_json(&doc.to_string()) {
                    let name = struct_name(&vs1);
                    ctx.rep.case(Some("replay".into()));
                    let other = second_set(&name, seed, 0x5d00_0000, &vs1);
                    ctx.roundtrip(&name, &Built::plain(vs1), &other, inp.clone());
                }
            }
        }
        ctx.rep.write(&args.out);
        return;
    }
    let t = std::time::Instant::now();
    regression(&mut ctx);
    run_tags(&mut ctx, args.seed);
    ctx.rep.note(format!("tags+regression: {} ms", t.elapsed().as_millis()));
    let t = std::time::Instant::now();
    let nvalues = args.cases(40 * names.len() as u64, 400 * names.len() as u64);
    for i in 0..nvalues {
        run_value_case(&mut ctx, args.seed, i, &names);
    }
    ctx.rep.note(format!("values: {} ms", t.elapsed().as_millis()));
    let t = std::time::Instant::now();
    for i in 0..args.cases(20 * 14, 100 * 14) {
        run_password_case(&mut ctx, args.seed, i, &kdfs);
    }
    ctx.rep.note(format!("passwords: {} ms", t.elapsed().as_millis()));
    let t = std::time::Instant::now();
    let npw = args.cases(20 * kdfs.len() as u64, 300 * kdfs.len() as u64);
    for i in 0..npw {
        run_stored_password(&mut ctx, args.seed, i, &kdfs);
    }
    for round in 0..args.cases(5, 60) {
        run_stored_docs(&mut ctx, args.seed, round);
    }
    ctx.rep.note(format!("stored: {} ms", t.elapsed().as_millis()));
    // coverage floor: every struct and every Kdf variant at least 20 times
    let mut low = vec![];
    for n in &names {
        if ctx.rep.histogram.get(&format!("values:{n}")).cloned().unwrap_or(0) < 20 {
            low.push(format!("values:{n}"));
        }
    }
    for k in &kdfs {
        let mem = ctx.rep.histogram.get(&format!("kdf:{k}")).cloned().unwrap_or(0)
            + ctx.rep.histogram.get(&format!("kdf:{k}-native")).cloned().unwrap_or(0);
        let stored = ctx.rep.histogram.get(&format!("stored-kdf:{k}")).cloned().unwrap_or(0);
        if stored < 20 || (mem < 20 && k != "TPM_ARGON2ID") {
            low.push(format!("kdf:{k} (memory {mem}, stored {stored})"));
        }
    }
    // structs that keep derived state (a field rebuilt by accumulation, or more than one field): the
    // behaviour battery must have probed them, and the model's verdict on their decoder is recorded
    for q in ["accfields", "multifield"] {
        let listed = ctx.drv.ask(q);
        ctx.rep.note(format!("{q}: {listed}"));
        for item in listed.split(',').filter(|s| !s.is_empty()) {
            let st = item.split(['.', '(']).next().unwrap_or("").to_string();
            if !names.contains(&st) {
                continue; // (a struct not reachable by the values part would already have failed above)
            }
            if ctx.rep.histogram.get(&format!("battery:{st}")).cloned().unwrap_or(0) < 20 {
                low.push(format!("battery:{st} ({item})"));
            }
            let verdict = ctx.drv.ask(&format!("decoder {st}"));
            ctx.rep.count(&format!("decoder:{st}:{}", verdict.replace(' ', "/")));
            if !verdict.starts_with("ok ") {
                ctx.model_fail(&format!("decoder-drops-derived-field:{st}"), json!({"struct": st, "field": item}), "ok: every field rebuilt on every path".into(), verdict);
            }
        }
    }
    if !low.is_empty() {
        ctx.model_fail("coverage-floor", json!({"below_floor": low}), "every struct and Kdf variant ≥ 20 cases".into(), "below floor".into());
    }
    ctx.rep.model_requests = ctx.drv.requests;
    ctx.rep.write(&args.out);
    println!("c12: {} cases, {} distinct, {} failures", ctx.rep.evaluations, ctx.rep.nontrivial_keys.len(), ctx.rep.failures.len());
}
