//! C23, stream `access-search` — searches never disclose what the caller may not read.
//!
//! One *world* per case index: a freshly booted in-memory server (all built-in entries and
//! built-in access control profiles stay in place) plus random groups (nested), persons, service
//! accounts, a sync account with a synced person, OAuth2 clients with scope maps, applications
//! with linked groups, entry managers, random search ACPs *created as real ACP entries* (group and
//! entry-manager receivers, random target filters, random attribute sets, some disabled / without
//! receiver or target class), recycled and tombstoned entries. Then a batch of random queries as
//! random identities (every user × ReadOnly / ReadWrite / Synchronise scope, anonymous, admin,
//! the four internal roles, a Synch identity) through
//!   search_ext  (SearchEvent::from_message / from_internal_message / from_internal_recycle_message /
//!                new_impersonate),  search,  exists,  LDAP search,  LDAP compare.
//!
//! Correspondence: the whole database and the parsed ACP set are projected to the Lean model's
//! atoms (`km_c23`); every query result is compared with the model's (`impl-vs-model`).
//! Oracle (`impl-vs-oracle`, this file only, written from the property text): `may_read` below
//! is the reference reading of "covered by a read grant whose receiver and target both match";
//! every attribute of every returned entry, every attribute named by the filter of a query that
//! returned (or confirmed the existence of) an entry, hidden entries, sync scope and internal
//! roles are checked against it on the implementation's outputs.
use hlib::*;
use kanidm_proto::internal::{Filter as PF, SearchRequest};
use kanidmd_lib::entry::{Entry, EntryCommitted, EntryInit, EntryNew, EntryReduced, EntrySealed};
type EntrySealedCommitted = Entry<EntrySealed, EntryCommitted>;
type EntryReducedCommitted = Entry<EntryReduced, EntryCommitted>;
use kanidmd_lib::filter::{f_pres, Filter};
use kanidm_proto::internal::{ApiToken, ApiTokenPurpose};
use kanidmd_lib::idm::ldap::{LdapBoundToken, LdapResponseState, LdapServer, LdapSession};
use kanidmd_lib::idm::server::IdmServer;
use ldap3_proto::proto::{LdapFilter, LdapOp, LdapResultCode, LdapSearchScope};
use ldap3_proto::simple::{CompareRequest, SearchRequest as LSearchRequest, ServerOps};
use kanidmd_lib::prelude::*;
use kanidmd_lib::testkit::{setup_idm_test, TestConfiguration};
use kanidmd_lib::value::{PartialValue, Value};
use kanidmd_lib::verif_hooks::c23::{ident_role, ident_synch};
use serde_json::{json, Value as J};
use std::collections::{BTreeMap, BTreeSet};
use std::sync::Arc;
use std::time::Duration;

// ------------------------------------------------------------------------------------------------
// projection of the implementation's data to plain values
// ------------------------------------------------------------------------------------------------

#[derive(Clone, PartialEq, Eq, PartialOrd, Ord, Debug)]
enum V {
    S(Vec<u8>),
    N(u128),
}

fn pv_to_v(pv: &PartialValue) -> V {
    match pv {
        PartialValue::Utf8(s)
        | PartialValue::Iutf8(s)
        | PartialValue::Iname(s)
        | PartialValue::Nsuniqueid(s)
        | PartialValue::EmailAddress(s)
        | PartialValue::RestrictedString(s)
        | PartialValue::HexString(s)
        | PartialValue::OauthScope(s) => V::S(s.as_bytes().to_vec()),
        PartialValue::Uuid(u) | PartialValue::Refer(u) => V::N(u.as_u128()),
        PartialValue::Bool(b) => V::S(if *b { b"true".to_vec() } else { b"false".to_vec() }),
        PartialValue::Uint32(n) => V::N(*n as u128),
        PartialValue::Spn(a, b) => V::S(format!("{a}@{b}").into_bytes()),
        PartialValue::Url(u) => V::S(u.as_str().as_bytes().to_vec()),
        // anything else is opaque: present, never compared by a generated filter
        _ => V::S(b"?".to_vec()),
    }
}

#[derive(Clone, Debug)]
struct Ent {
    uuid: u128,
    attrs: BTreeMap<String, Vec<V>>,
}

impl Ent {
    fn vals(&self, a: &str) -> &[V] {
        self.attrs.get(a).map(|v| v.as_slice()).unwrap_or(&[])
    }
    fn has_class(&self, c: &str) -> bool {
        self.vals("class").contains(&V::S(c.as_bytes().to_vec()))
    }
    fn hidden(&self) -> bool {
        self.has_class("recycled") || self.has_class("tombstone")
    }
}

fn project(e: &EntrySealedCommitted) -> Ent {
    let mut attrs = BTreeMap::new();
    for (a, vs) in e.get_ava_iter() {
        let mut l: Vec<V> = vs.to_partialvalue_iter().map(|pv| pv_to_v(&pv)).collect();
        l.sort();
        l.dedup();
        if l.is_empty() {
            l.push(V::S(b"?".to_vec()));
        }
        attrs.insert(a.as_str().to_string(), l);
    }
    Ent { uuid: e.get_uuid().as_u128(), attrs }
}

#[derive(Clone, Debug)]
enum Fc {
    Eq(String, V),
    Cnt(String, V),
    Pres(String),
    Or(Vec<Fc>),
    And(Vec<Fc>),
    AndNot(Box<Fc>),
    SelfUuid,
}

/// ProtoFilter ↦ Fc; values are normalised by the server's own `clone_partialvalue`.
fn pf_to_fc(qs: &mut QueryServerReadTransaction, pf: &PF) -> Result<Fc, String> {
    Ok(match pf {
        PF::Eq(a, v) => Fc::Eq(a.to_lowercase(), pv_to_v(&qs.clone_partialvalue(&Attribute::from(a.to_lowercase().as_str()), v).map_err(|e| format!("{e:?}"))?)),
        PF::Cnt(a, v) => Fc::Cnt(a.to_lowercase(), pv_to_v(&qs.clone_partialvalue(&Attribute::from(a.to_lowercase().as_str()), v).map_err(|e| format!("{e:?}"))?)),
        PF::Pres(a) => Fc::Pres(a.to_lowercase()),
        PF::Or(l) => Fc::Or(l.iter().map(|f| pf_to_fc(qs, f)).collect::<Result<_, _>>()?),
        PF::And(l) => Fc::And(l.iter().map(|f| pf_to_fc(qs, f)).collect::<Result<_, _>>()?),
        PF::AndNot(f) => Fc::AndNot(Box::new(pf_to_fc(qs, f)?)),
        PF::SelfUuid => Fc::SelfUuid,
    })
}

#[derive(Clone, Debug)]
enum Recv {
    None,
    Group(Vec<u128>),
    EntryManager,
}

#[derive(Clone, Debug)]
struct Acp {
    name: String,
    receiver: Recv,
    target: Option<Fc>,
    raw_attrs: Vec<String>,
}

impl Acp {
    /// "Ability to search memberof implies the ability to read directmemberof" (documented rule).
    fn attrs(&self) -> BTreeSet<String> {
        let mut s: BTreeSet<String> = self.raw_attrs.iter().cloned().collect();
        if s.contains("memberof") {
            s.insert("directmemberof".into());
        }
        s
    }
}

// ------------------------------------------------------------------------------------------------
// identities
// ------------------------------------------------------------------------------------------------

#[derive(Clone, Debug, PartialEq)]
enum Scope {
    Ro,
    Rw,
    Sync,
}

#[derive(Clone, Debug)]
enum IdSpec {
    User(u128, Scope),
    Synch(u128),
    Internal(&'static str),
}

struct Ident {
    spec: IdSpec,
    real: Identity,
    /// the account's own entry (users only)
    ent: Option<Ent>,
}

impl Ident {
    fn uuid(&self) -> u128 {
        self.real.get_uuid().as_u128()
    }
    fn memberof(&self) -> Vec<V> {
        self.ent.as_ref().map(|e| e.vals("memberof").to_vec()).unwrap_or_default()
    }
    fn describe(&self) -> String {
        format!("{:?}", self.spec)
    }
}

// ------------------------------------------------------------------------------------------------
// the oracle: the property's own reading of "may read"
// ------------------------------------------------------------------------------------------------

fn contains_sub(hay: &[u8], needle: &[u8]) -> bool {
    needle.is_empty() || hay.windows(needle.len()).any(|w| w == needle)
}

/// Meaning of a filter on one entry, for the caller `me`.
fn eval(f: &Fc, me: u128, e: &Ent) -> bool {
    match f {
        Fc::Eq(a, v) => e.vals(a).contains(v),
        Fc::Cnt(a, v) => match v {
            V::S(n) => e.vals(a).iter().any(|x| matches!(x, V::S(h) if contains_sub(h, n))),
            V::N(_) => false,
        },
        Fc::Pres(a) => e.attrs.contains_key(a),
        Fc::Or(l) => l.iter().any(|g| eval(g, me, e)),
        Fc::And(l) => l.iter().all(|g| eval(g, me, e)),
        Fc::AndNot(g) => !eval(g, me, e),
        Fc::SelfUuid => e.uuid == me,
    }
}

fn filter_attrs(f: &Fc, out: &mut BTreeSet<String>) {
    match f {
        Fc::Eq(a, _) | Fc::Cnt(a, _) | Fc::Pres(a) => {
            out.insert(a.clone());
        }
        Fc::Or(l) | Fc::And(l) => l.iter().for_each(|g| filter_attrs(g, out)),
        Fc::AndNot(g) => filter_attrs(g, out),
        // "self" is a statement about the entry's uuid
        Fc::SelfUuid => {
            out.insert("uuid".into());
        }
    }
}

const ANON: u128 = 0x0000_0000_0000_0000_0000_ffff_ffff_ffff;

/// The read grants that cover (identity, entry): ACPs whose receiver and target both match, and
/// the three built-in visibility rules. Returns the granted attribute sets with their source.
fn grants(id: &Ident, acps: &[Acp], e: &Ent) -> Vec<(String, BTreeSet<String>)> {
    let mut out = vec![];
    let (uent, scope) = match (&id.spec, &id.ent) {
        (IdSpec::User(_, s), Some(u)) => (u, s),
        // only users hold read grants; internal roles are covered by `internal_expect`
        _ => return out,
    };
    if *scope == Scope::Sync {
        return out;
    }
    let me = id.uuid();
    let mo = id.memberof();
    for acp in acps {
        let recv_ok = match &acp.receiver {
            Recv::None => false,
            Recv::Group(gs) => gs.iter().any(|g| mo.contains(&V::N(*g))),
            Recv::EntryManager => e
                .vals("entry_managed_by")
                .iter()
                .any(|m| *m == V::N(me) || mo.contains(m)),
        };
        if !recv_ok {
            continue;
        }
        let tgt_ok = match &acp.target {
            None => false,
            Some(f) => eval(f, me, e),
        };
        if tgt_ok {
            out.push((format!("acp:{}", acp.name), acp.attrs()));
        }
    }
    let set = |l: &[&str]| l.iter().map(|s| s.to_string()).collect::<BTreeSet<String>>();
    if me != ANON {
        // OAuth2 client visibility for users holding one of its scopes
        if e.has_class("oauth2_resource_server") && e.vals("oauth2_rs_scope_map").iter().any(|g| mo.contains(g)) {
            out.push(("builtin:oauth2".into(), set(&["class", "displayname", "uuid", "name", "oauth2_rs_origin_landing", "image"])));
        }
        // application visibility for members of its linked group
        if e.has_class("application") && e.vals("linked_group").len() == 1 && mo.contains(&e.vals("linked_group")[0]) {
            out.push(("builtin:application".into(), set(&["class", "displayname", "uuid", "name", "linked_group"])));
        }
    }
    // a synchronised account sees the credential portal of the sync account it comes from
    if uent.has_class("sync_object")
        && uent.has_class("account")
        && e.has_class("sync_account")
        && uent.vals("sync_parent_uuid") == [V::N(e.uuid)]
    {
        out.push(("builtin:sync".into(), set(&["class", "uuid", "sync_credential_portal"])));
    }
    out
}

fn may_read(gr: &[(String, BTreeSet<String>)], a: &str) -> bool {
    gr.iter().any(|(_, s)| s.contains(a))
}

const MIGRATION_CLASSES: &[&str] = &[
    "object", "memberof", "domain_info", "oauth2_resource_server", "oauth2_resource_server_basic",
    "oauth2_resource_server_public", "account", "person", "posixaccount", "group", "dyngroup",
    "account_policy", "posixgroup", "service_account",
];

/// What an internal role may be given by a plain `search` (DESIGN: System everything,
/// AccountRequest only accounts, Migration only migration-class entries, MessageQueue nothing).
fn internal_may_see(role: &str, e: &Ent) -> bool {
    match role {
        "system" => true,
        "accountRequest" => e.has_class("account"),
        "migration" => e.vals("class").iter().all(|c| match c {
            V::S(b) => {
                let s = String::from_utf8_lossy(b).to_string();
                s.starts_with("key_object") || MIGRATION_CLASSES.contains(&s.as_str())
            }
            _ => false,
        }),
        _ => false,
    }
}

// ------------------------------------------------------------------------------------------------
// model encoding
// ------------------------------------------------------------------------------------------------

struct Atoms {
    map: BTreeMap<String, u64>,
    rev: BTreeMap<u64, String>,
    next: u64,
}

impl Atoms {
    fn from_driver(reply: &str) -> Atoms {
        let (tbl, free) = reply.split_once(";free=").expect("atoms reply");
        let mut map = BTreeMap::new();
        let mut rev = BTreeMap::new();
        for p in tbl.split(',') {
            let (n, a) = p.split_once('=').expect("atom");
            let a: u64 = a.parse().expect("atom nat");
            map.insert(n.to_string(), a);
            rev.insert(a, n.to_string());
        }
        Atoms { map, rev, next: free.parse().expect("free") }
    }
    fn get(&mut self, name: &str) -> u64 {
        if let Some(a) = self.map.get(name) {
            return *a;
        }
        let a = self.next;
        self.next += 1;
        self.map.insert(name.to_string(), a);
        self.rev.insert(a, name.to_string());
        a
    }
    fn name(&self, a: u64) -> String {
        self.rev.get(&a).cloned().unwrap_or_else(|| format!("#{a}"))
    }
}

fn enc_v(v: &V) -> String {
    match v {
        V::S(b) => format!("s{}", b.iter().map(|x| x.to_string()).collect::<Vec<_>>().join(".")),
        V::N(n) => format!("n{n}"),
    }
}

fn enc_ent(at: &mut Atoms, e: &Ent) -> String {
    let assoc: Vec<String> = e
        .attrs
        .iter()
        .map(|(a, vs)| format!("{}={}", at.get(a), vs.iter().map(enc_v).collect::<Vec<_>>().join("+")))
        .collect();
    format!("n{}@{}", e.uuid, if assoc.is_empty() { "-".to_string() } else { assoc.join(",") })
}

fn enc_fc(at: &mut Atoms, f: &Fc) -> String {
    match f {
        Fc::Eq(a, v) => format!("(eq {} {})", at.get(a), enc_v(v)),
        Fc::Cnt(a, v) => format!("(cnt {} {})", at.get(a), enc_v(v)),
        Fc::Pres(a) => format!("(pres {})", at.get(a)),
        Fc::Or(l) => format!("(or {})", l.iter().map(|g| enc_fc(at, g)).collect::<Vec<_>>().join(" ")),
        Fc::And(l) => format!("(and {})", l.iter().map(|g| enc_fc(at, g)).collect::<Vec<_>>().join(" ")),
        Fc::AndNot(g) => format!("(not {})", enc_fc(at, g)),
        Fc::SelfUuid => "(self)".to_string(),
    }
}

fn enc_acp(at: &mut Atoms, a: &Acp) -> String {
    let r = match &a.receiver {
        Recv::None => "none".to_string(),
        Recv::EntryManager => "em".to_string(),
        Recv::Group(gs) => format!("g:{}", gs.iter().map(|g| format!("n{g}")).collect::<Vec<_>>().join("+")),
    };
    let attrs = if a.raw_attrs.is_empty() {
        "-".to_string()
    } else {
        a.raw_attrs.iter().map(|x| at.get(x).to_string()).collect::<Vec<_>>().join(",")
    };
    let t = match &a.target {
        None => "none".to_string(),
        Some(f) => enc_fc(at, f),
    };
    format!("{r}~{attrs}~{t}")
}

// ------------------------------------------------------------------------------------------------
// world generation
// ------------------------------------------------------------------------------------------------

const BASE: u64 = 0xC23_0000;
fn gid(i: usize) -> Uuid {
    nat_uuid(BASE + 0x100 + i as u64)
}
fn uid(i: usize) -> Uuid {
    nat_uuid(BASE + 0x200 + i as u64)
}
fn oid(i: usize) -> Uuid {
    nat_uuid(BASE + 0x300 + i as u64)
}
fn appid(i: usize) -> Uuid {
    nat_uuid(BASE + 0x400 + i as u64)
}
fn acpid(i: usize) -> Uuid {
    nat_uuid(BASE + 0x500 + i as u64)
}
fn syncid() -> Uuid {
    nat_uuid(BASE + 0x600)
}
fn victimid(i: usize) -> Uuid {
    nat_uuid(BASE + 0x700 + i as u64)
}

const ATTR_POOL: &[&str] = &[
    "class", "uuid", "name", "spn", "displayname", "description", "memberof", "member", "mail",
    "entry_managed_by", "oauth2_rs_scope_map", "oauth2_rs_origin_landing", "linked_group",
    "sync_parent_uuid", "sync_credential_portal", "directmemberof", "legalname",
];
const CLASS_POOL: &[&str] = &[
    "person", "account", "group", "service_account", "oauth2_resource_server", "application",
    "sync_account", "sync_object", "object", "recycled", "tombstone", "access_control_profile",
];

struct Shape {
    ng: usize,
    nu: usize,
    no: usize,
    na: usize,
    nv: usize,
}

fn rand_ref(r: &mut Rng, sh: &Shape) -> Uuid {
    match r.below(4) {
        0 => gid(r.below(sh.ng as u64) as usize),
        1 | 2 => uid(r.below(sh.nu as u64) as usize),
        _ => {
            if r.chance(1, 2) && sh.no > 0 {
                oid(r.below(sh.no as u64) as usize)
            } else {
                victimid(r.below(sh.nv as u64) as usize)
            }
        }
    }
}

fn rand_leaf(r: &mut Rng, sh: &Shape) -> PF {
    match r.below(12) {
        0 | 1 => PF::Eq("class".into(), r.pick(CLASS_POOL).to_string()),
        2 => PF::Eq("memberof".into(), gid(r.below(sh.ng as u64) as usize).to_string()),
        3 => PF::Eq("uuid".into(), rand_ref(r, sh).to_string()),
        4 => PF::Eq(
            "name".into(),
            match r.below(3) {
                0 => format!("c23g{}", r.below(sh.ng as u64)),
                1 => format!("c23u{}", r.below(sh.nu as u64)),
                _ => "anonymous".to_string(),
            },
        ),
        5 => PF::Pres(r.pick(ATTR_POOL).to_string()),
        6 => PF::Cnt("name".into(), r.pick(&["c23", "c23u", "g1", "admin", "o"]).to_string()),
        7 => PF::Eq("entry_managed_by".into(), rand_ref(r, sh).to_string()),
        8 => PF::SelfUuid,
        9 => PF::Eq("member".into(), uid(r.below(sh.nu as u64) as usize).to_string()),
        10 => PF::Pres("class".into()),
        _ => PF::Eq("displayname".into(), format!("C23 u{}", r.below(sh.nu as u64))),
    }
}

fn rand_filter(r: &mut Rng, sh: &Shape, depth: u32, allow_empty: bool) -> PF {
    if depth == 0 || r.chance(2, 5) {
        return rand_leaf(r, sh);
    }
    match r.below(8) {
        0 | 1 | 2 => PF::And((0..r.range(1, 3)).map(|_| rand_filter(r, sh, depth - 1, allow_empty)).collect()),
        3 | 4 => PF::Or((0..r.range(1, 3)).map(|_| rand_filter(r, sh, depth - 1, allow_empty)).collect()),
        5 => PF::And(vec![rand_filter(r, sh, depth - 1, allow_empty), PF::AndNot(Box::new(rand_filter(r, sh, depth - 1, allow_empty)))]),
        6 if allow_empty && r.chance(1, 4) => {
            if r.chance(1, 2) {
                PF::And(vec![])
            } else {
                PF::Or(vec![])
            }
        }
        _ => rand_leaf(r, sh),
    }
}

fn rand_attrs(r: &mut Rng, lo: u64, hi: u64) -> Vec<String> {
    let n = r.range(lo, hi) as usize;
    let mut s = BTreeSet::new();
    for _ in 0..n {
        s.insert(r.pick(ATTR_POOL).to_string());
    }
    s.into_iter().collect()
}

struct World {
    idms: IdmServer,
    shape: Shape,
    /// every entry of the database, hidden ones included
    db: Vec<Ent>,
    acps: Vec<Acp>,
    /// uuids usable as user identities
    users: Vec<u128>,
    notes: Vec<String>,
}

fn new_entry(classes: &[EntryClass], name: &str, uuid: Uuid) -> Entry<EntryInit, EntryNew> {
    let mut e: Entry<EntryInit, EntryNew> = Entry::new();
    for c in classes {
        e.add_ava(Attribute::Class, c.to_value());
    }
    e.add_ava(Attribute::Name, Value::new_iname(name));
    e.add_ava(Attribute::Uuid, Value::Uuid(uuid));
    e
}

async fn build_world(r: &mut Rng) -> World {
    let (idms, _delayed, _audit) = setup_idm_test(TestConfiguration::default()).await;
    let sh = Shape {
        ng: r.range(3, 6) as usize,
        nu: r.range(3, 6) as usize,
        no: r.range(1, 2) as usize,
        na: r.range(1, 2) as usize,
        nv: 3,
    };
    let mut notes = vec![];
    let ct = duration_from_epoch_now();
    let mut entries = vec![];
    // sync account first
    let mut e = new_entry(&[EntryClass::Object, EntryClass::SyncAccount], "c23sync", syncid());
    e.add_ava(Attribute::SyncCredentialPortal, Value::new_url_s("https://portal.example.com/c23").unwrap());
    entries.push(e);
    // users: persons, service accounts, one synced person (the last) when nu >= 4
    for i in 0..sh.nu {
        let service = r.chance(1, 3);
        let mut e = if service {
            new_entry(&[EntryClass::Object, EntryClass::Account, EntryClass::ServiceAccount], &format!("c23u{i}"), uid(i))
        } else {
            new_entry(&[EntryClass::Object, EntryClass::Account, EntryClass::Person], &format!("c23u{i}"), uid(i))
        };
        e.add_ava(Attribute::DisplayName, Value::new_utf8s(&format!("C23 u{i}")));
        if r.chance(1, 2) {
            e.add_ava(Attribute::Description, Value::new_utf8s(&format!("c23 user {i}")));
        }
        if !service && r.chance(1, 2) {
            e.add_ava(Attribute::Mail, Value::new_email_address_primary_s(&format!("u{i}@c23.example.com")).unwrap());
        }
        if service && r.chance(2, 3) {
            e.add_ava(Attribute::EntryManagedBy, Value::Refer(if r.chance(1, 2) { gid(r.below(sh.ng as u64) as usize) } else { uid(r.below(sh.nu as u64) as usize) }));
        }
        if !service && i + 1 == sh.nu && sh.nu >= 4 {
            e.add_ava(Attribute::Class, EntryClass::SyncObject.to_value());
            e.add_ava(Attribute::SyncParentUuid, Value::Refer(syncid()));
        }
        entries.push(e);
    }
    // groups: members are users and (acyclic) lower-numbered groups
    for i in 0..sh.ng {
        let mut e = new_entry(&[EntryClass::Object, EntryClass::Group], &format!("c23g{i}"), gid(i));
        for u in 0..sh.nu {
            if r.chance(2, 5) {
                e.add_ava(Attribute::Member, Value::Refer(uid(u)));
            }
        }
        for g in 0..i {
            if r.chance(1, 4) {
                e.add_ava(Attribute::Member, Value::Refer(gid(g)));
            }
        }
        if r.chance(1, 2) {
            e.add_ava(Attribute::EntryManagedBy, Value::Refer(if r.chance(1, 2) { gid(r.below(sh.ng as u64) as usize) } else { uid(r.below(sh.nu as u64) as usize) }));
        }
        if r.chance(1, 3) {
            e.add_ava(Attribute::Description, Value::new_utf8s(&format!("c23 group {i}")));
        }
        entries.push(e);
    }
    for i in 0..sh.no {
        let mut e = new_entry(
            &[EntryClass::Object, EntryClass::Account, EntryClass::OAuth2ResourceServer, EntryClass::OAuth2ResourceServerBasic],
            &format!("c23o{i}"),
            oid(i),
        );
        e.add_ava(Attribute::DisplayName, Value::new_utf8s(&format!("C23 client {i}")));
        e.add_ava(Attribute::OAuth2RsOriginLanding, Value::new_url_s(&format!("https://o{i}.c23.example.com/")).unwrap());
        let mut any = false;
        for g in 0..sh.ng {
            if r.chance(1, 3) || (!any && g + 1 == sh.ng) {
                any = true;
                e.add_ava(Attribute::OAuth2RsScopeMap, Value::new_oauthscopemap(gid(g), ["openid".to_string()].into_iter().collect()).unwrap());
            }
        }
        if r.chance(1, 3) {
            // a scope for the dynamic group every account (the anonymous account included) is in
            e.add_ava(Attribute::OAuth2RsScopeMap, Value::new_oauthscopemap(UUID_IDM_ALL_ACCOUNTS, ["openid".to_string()].into_iter().collect()).unwrap());
        }
        if r.chance(1, 2) {
            e.add_ava(Attribute::EntryManagedBy, Value::Refer(uid(r.below(sh.nu as u64) as usize)));
        }
        entries.push(e);
    }
    for i in 0..sh.na {
        let mut e = new_entry(
            &[EntryClass::Object, EntryClass::Account, EntryClass::ServiceAccount, EntryClass::Application],
            &format!("c23app{i}"),
            appid(i),
        );
        e.add_ava(Attribute::DisplayName, Value::new_utf8s(&format!("C23 app {i}")));
        e.add_ava(Attribute::LinkedGroup, Value::Refer(if r.chance(1, 4) { UUID_IDM_ALL_ACCOUNTS } else { gid(r.below(sh.ng as u64) as usize) }));
        entries.push(e);
    }
    // victims: deleted later (recycled / tombstoned)
    for i in 0..sh.nv {
        let mut e = new_entry(&[EntryClass::Object, EntryClass::Group], &format!("c23victim{i}"), victimid(i));
        e.add_ava(Attribute::Description, Value::new_utf8s("to be deleted"));
        if r.chance(1, 2) {
            e.add_ava(Attribute::EntryManagedBy, Value::Refer(uid(r.below(sh.nu as u64) as usize)));
        }
        entries.push(e);
    }
    // ACPs
    let nacp = r.range(3, 9) as usize;
    for i in 0..nacp {
        let mut e = new_entry(&[EntryClass::Object, EntryClass::AccessControlProfile, EntryClass::AccessControlSearch], &format!("c23acp{i}"), acpid(i));
        e.add_ava(Attribute::Description, Value::new_utf8s("c23 generated"));
        match r.below(10) {
            0..=5 => {
                e.add_ava(Attribute::Class, EntryClass::AccessControlReceiverGroup.to_value());
                for _ in 0..r.range(1, 2) {
                    e.add_ava(Attribute::AcpReceiverGroup, Value::Refer(gid(r.below(sh.ng as u64) as usize)));
                }
            }
            6..=8 => {
                e.add_ava(Attribute::Class, EntryClass::AccessControlReceiverEntryManager.to_value());
            }
            _ => {} // no receiver: does nothing
        }
        if !r.chance(1, 12) {
            e.add_ava(Attribute::Class, EntryClass::AccessControlTargetScope.to_value());
            let f = if r.chance(1, 2) {
                let c = |r: &mut Rng| PF::Eq("class".into(), r.pick(&["person", "group", "account", "service_account", "oauth2_resource_server", "application", "sync_account", "object"]).to_string());
                match r.below(4) {
                    0 | 1 => c(r),
                    2 => PF::Or(vec![c(r), c(r)]),
                    _ => PF::And(vec![c(r), PF::AndNot(Box::new(rand_leaf(r, &sh)))]),
                }
            } else {
                rand_filter(r, &sh, 2, false)
            };
            e.add_ava(Attribute::AcpTargetScope, Value::JsonFilt(f));
        }
        let mut acp_attrs: BTreeSet<String> = rand_attrs(r, 1, 5).into_iter().collect();
        if r.chance(2, 3) {
            acp_attrs.insert("class".into());
        }
        if r.chance(1, 2) {
            acp_attrs.insert("name".into());
        }
        if r.chance(1, 3) {
            acp_attrs.insert("uuid".into());
        }
        for a in acp_attrs {
            e.add_ava(Attribute::AcpSearchAttr, Value::new_iutf8(&a));
        }
        if r.chance(1, 8) {
            e.add_ava(Attribute::AcpEnable, Value::new_bool(false));
        }
        entries.push(e);
    }
    {
        let mut w = idms.proxy_write(ct).await.expect("write txn");
        // one by one where the batch fails, so that a refused entry only shrinks the world
        if let Err(err) = w.qs_write.internal_create(entries.clone()) {
            drop(w);
            notes.push(format!("batch create failed ({err:?}); creating one by one"));
            for e in entries {
                let mut w = idms.proxy_write(ct).await.expect("write txn");
                match w.qs_write.internal_create(vec![e.clone()]) {
                    Ok(()) => w.commit().expect("commit"),
                    Err(err) => notes.push(format!("create refused: {err:?} for {:?}", e.get_ava_set(Attribute::Name).map(|v| v.to_proto_string_clone_iter().collect::<Vec<_>>()))),
                }
            }
        } else {
            w.commit().expect("commit world");
        }
    }
    // recycle victims 0 and 1, tombstone victim 0
    {
        let mut w = idms.proxy_write(ct + Duration::from_secs(1)).await.expect("write txn");
        let _ = w.qs_write.internal_delete_uuid(victimid(0));
        w.commit().expect("commit delete");
        let mut w = idms.proxy_write(ct + Duration::from_secs(8 * 86400)).await.expect("write txn");
        let n = w.qs_write.purge_recycled().expect("purge");
        w.commit().expect("commit purge");
        if n == 0 {
            notes.push("purge_recycled tombstoned nothing".into());
        }
        let mut w = idms.proxy_write(ct + Duration::from_secs(8 * 86400 + 1)).await.expect("write txn");
        let _ = w.qs_write.internal_delete_uuid(victimid(1));
        if sh.nu >= 3 && r.chance(1, 2) {
            let _ = w.qs_write.internal_delete_uuid(uid(0));
        }
        w.commit().expect("commit delete 2");
    }
    let mut world = World { idms, shape: sh, db: vec![], acps: vec![], users: vec![], notes };
    dump(&mut world).await;
    world
}

/// Read the whole database back and parse the search ACP set the way the property's reference
/// model sees it (enabled, visible ACP entries of class access_control_search).
async fn dump(w: &mut World) {
    let mut rd = w.idms.proxy_read().await.expect("read txn");
    let all = rd.qs_read.internal_search(Filter::new(f_pres(Attribute::Class))).expect("dump");
    w.db = all.iter().map(|e| project(e)).collect();
    w.db.sort_by_key(|e| e.uuid);
    let mut acps = vec![];
    for e in &all {
        let p = project(e);
        if !(p.has_class("access_control_profile") && p.has_class("access_control_search")) || p.hidden() {
            continue;
        }
        if p.vals("acp_enable") == [V::S(b"false".to_vec())] {
            continue;
        }
        let receiver = if p.has_class("access_control_receiver_group") {
            Recv::Group(e.get_ava_refer(Attribute::AcpReceiverGroup).map(|s| s.iter().map(|u| u.as_u128()).collect()).unwrap_or_default())
        } else if p.has_class("access_control_receiver_entry_manager") {
            Recv::EntryManager
        } else {
            Recv::None
        };
        let target = if p.has_class("access_control_target_scope") {
            let pf = e.get_ava_single_protofilter(Attribute::AcpTargetScope).expect("acp_targetscope").clone();
            Some(pf_to_fc(&mut rd.qs_read, &pf).expect("acp target"))
        } else {
            None
        };
        let raw_attrs = match p.vals("acp_search_attr") {
            l => l.iter().filter_map(|v| if let V::S(b) = v { Some(String::from_utf8_lossy(b).to_string()) } else { None }).collect(),
        };
        let name = match p.vals("name").first() {
            Some(V::S(b)) => String::from_utf8_lossy(b).to_string(),
            _ => "?".into(),
        };
        acps.push(Acp { name, receiver, target, raw_attrs });
    }
    acps.sort_by(|a, b| a.name.cmp(&b.name));
    w.acps = acps;
    w.users = (0..w.shape.nu).map(|i| uid(i).as_u128()).filter(|u| w.db.iter().any(|e| e.uuid == *u && !e.hidden())).collect();
}

// ------------------------------------------------------------------------------------------------
// queries
// ------------------------------------------------------------------------------------------------

#[derive(Clone, Debug)]
struct Query {
    id: IdSpec,
    /// ext-msg | ext-attrs | ext-recycle | ext-raw | search | exists
    kind: &'static str,
    attrs: Option<Vec<String>>,
    filter: PF,
}

fn rand_query(r: &mut Rng, w: &World) -> Query {
    let id = match r.below(28) {
        0 => IdSpec::Internal(*r.pick(&["system", "migration", "accountRequest", "messageQueue"])),
        1 => IdSpec::Synch(syncid().as_u128()),
        2 | 3 => IdSpec::User(ANON, Scope::Ro),
        4 => IdSpec::User(UUID_ADMIN.as_u128(), if r.chance(1, 2) { Scope::Ro } else { Scope::Rw }),
        _ => {
            let u = *r.pick(&w.users);
            IdSpec::User(u, match r.below(8) { 0 => Scope::Sync, 1..=4 => Scope::Ro, _ => Scope::Rw })
        }
    };
    let kind = match r.below(12) {
        0..=3 => "ext-msg",
        4..=6 => "ext-attrs",
        7 => "ext-recycle",
        8 => "ext-raw",
        9 => "search",
        _ => "exists",
    };
    let attrs = if kind == "ext-attrs" || (kind == "ext-recycle" && r.chance(1, 2)) { Some(rand_attrs(r, 1, 4)) } else { None };
    let filter = if r.chance(2, 5) {
        let c = |r: &mut Rng| PF::Eq("class".into(), r.pick(&["person", "group", "account", "service_account", "oauth2_resource_server", "application"]).to_string());
        match r.below(6) {
            0 => c(r),
            1 => PF::Pres(r.pick(&["class", "name", "uuid", "displayname", "memberof"]).to_string()),
            2 => PF::And(vec![c(r), PF::Pres(r.pick(ATTR_POOL).to_string())]),
            3 => PF::Or(vec![c(r), rand_leaf(r, &w.shape)]),
            4 => PF::And(vec![c(r), PF::AndNot(Box::new(rand_leaf(r, &w.shape)))]),
            _ => PF::Cnt("name".into(), "c23".into()),
        }
    } else {
        rand_filter(r, &w.shape, 2, true)
    };
    Query { id, kind, attrs, filter }
}

fn make_ident(rd: &mut QueryServerReadTransaction, spec: &IdSpec) -> Option<Ident> {
    match spec {
        IdSpec::Internal(role) => Some(Ident { spec: spec.clone(), real: ident_role(role)?, ent: None }),
        IdSpec::Synch(u) => Some(Ident { spec: spec.clone(), real: ident_synch(Uuid::from_u128(*u), AccessScope::Synchronise), ent: None }),
        IdSpec::User(u, scope) => {
            let entry: Arc<EntrySealedCommitted> = rd.internal_search_uuid(Uuid::from_u128(*u)).ok()?;
            let ent = project(&entry);
            let real = Identity::from_impersonate_entry_readwrite(entry).project_with_scope(match scope {
                Scope::Ro => AccessScope::ReadOnly,
                Scope::Rw => AccessScope::ReadWrite,
                Scope::Sync => AccessScope::Synchronise,
            });
            Some(Ident { spec: spec.clone(), real, ent: Some(ent) })
        }
    }
}

/// Canonical result of a query: Err(text) | rows (uuid, attribute names) | bool
#[derive(Debug, PartialEq, Clone)]
enum Out {
    Err(String),
    Rows(Vec<(u128, Vec<String>)>),
    Uuids(Vec<u128>),
    Bool(bool),
}

fn run_real(rd: &mut QueryServerReadTransaction, id: &Ident, q: &Query) -> Out {
    let ident = id.real.clone();
    let finv = match Filter::from_ro(&ident, &q.filter, rd) {
        Ok(f) => f,
        Err(e) => return Out::Err(format!("from_ro {e:?}")),
    };
    let rows = |res: Vec<EntryReducedCommitted>| {
        let mut v: Vec<(u128, Vec<String>)> = res
            .iter()
            .map(|e| {
                let mut names: Vec<String> = e.get_ava_names().map(|s| s.to_string()).collect();
                names.sort();
                (e.get_uuid().as_u128(), names)
            })
            .collect();
        v.sort();
        Out::Rows(v)
    };
    match q.kind {
        "ext-msg" | "search" => {
            let se = match SearchEvent::from_message(ident, &SearchRequest { filter: q.filter.clone() }, rd) {
                Ok(se) => se,
                Err(e) => return Out::Err(format!("event {e:?}")),
            };
            if q.kind == "search" {
                match rd.search(&se) {
                    Ok(res) => {
                        let mut v: Vec<u128> = res.iter().map(|e| e.get_uuid().as_u128()).collect();
                        v.sort();
                        Out::Uuids(v)
                    }
                    Err(e) => Out::Err(format!("search {e:?}")),
                }
            } else {
                match rd.search_ext(&se) {
                    Ok(res) => rows(res),
                    Err(e) => Out::Err(format!("search_ext {e:?}")),
                }
            }
        }
        "ext-attrs" | "ext-recycle" => {
            let attrs = q.attrs.clone();
            let se = if q.kind == "ext-attrs" {
                SearchEvent::from_internal_message(ident, &finv, attrs.as_deref(), rd)
            } else {
                SearchEvent::from_internal_recycle_message(ident, &finv, attrs.as_deref(), rd)
            };
            let se = match se {
                Ok(se) => se,
                Err(e) => return Out::Err(format!("event {e:?}")),
            };
            match rd.search_ext(&se) {
                Ok(res) => rows(res),
                Err(e) => Out::Err(format!("search_ext {e:?}")),
            }
        }
        "ext-raw" => {
            let fv = match finv.validate(rd.get_schema()) {
                Ok(f) => f,
                Err(e) => return Out::Err(format!("validate {e:?}")),
            };
            let se = SearchEvent::new_impersonate(&ident, fv.clone(), fv);
            match rd.search_ext(&se) {
                Ok(res) => rows(res),
                Err(e) => Out::Err(format!("search_ext {e:?}")),
            }
        }
        "exists" => {
            let fv = match finv.validate(rd.get_schema()) {
                Ok(f) => f,
                Err(e) => return Out::Err(format!("validate {e:?}")),
            };
            let ee = ExistsEvent { ident, filter: fv.clone().into_ignore_hidden(), filter_orig: fv };
            match rd.exists(&ee) {
                Ok(b) => Out::Bool(b),
                Err(e) => Out::Err(format!("exists {e:?}")),
            }
        }
        other => panic!("unknown kind {other}"),
    }
}

fn model_query(drv: &mut Driver, at: &mut Atoms, id: &Ident, q: &Query, fc: &Fc) -> Out {
    let idline = match (&id.spec, &id.ent) {
        (IdSpec::Internal(role), _) => format!("id | internal | rw | {role}"),
        (IdSpec::Synch(u), _) => format!("id | synch | sync | n{u}"),
        (IdSpec::User(_, s), Some(e)) => format!(
            "id | user | {} | {}",
            match s {
                Scope::Ro => "ro",
                Scope::Rw => "rw",
                Scope::Sync => "sync",
            },
            enc_ent(at, e)
        ),
        _ => unreachable!(),
    };
    let r = drv.ask(&idline);
    assert_eq!(r, "ok", "model refused identity: {idline}");
    let (mk, wrap) = match q.kind {
        "ext-msg" | "ext-attrs" => ("search_ext", "hidden"),
        "ext-recycle" => ("search_ext", "recycled"),
        "ext-raw" => ("search_ext", "raw"),
        "search" => ("search", "hidden"),
        "exists" => ("exists", "hidden"),
        _ => unreachable!(),
    };
    let attrs = match &q.attrs {
        None => "*".to_string(),
        Some(l) => {
            let v: Vec<String> = l.iter().map(|a| at.get(a).to_string()).collect();
            if v.is_empty() { "-".to_string() } else { v.join(",") }
        }
    };
    let line = format!("q | {mk} | {wrap} | {attrs} | {}", enc_fc(at, fc));
    let reply = drv.ask(&line);
    if reply == "err" {
        return Out::Err("model".into());
    }
    let body = reply.strip_prefix("ok").unwrap_or_else(|| panic!("model reply `{reply}` to `{line}`")).trim();
    match mk {
        "exists" => Out::Bool(body == "1"),
        "search" => {
            let mut v: Vec<u128> = body.split(';').filter(|s| !s.is_empty()).map(|s| s[1..].parse().unwrap()).collect();
            v.sort();
            Out::Uuids(v)
        }
        _ => {
            let mut v: Vec<(u128, Vec<String>)> = body
                .split(';')
                .filter(|s| !s.is_empty())
                .map(|s| {
                    let (u, a) = s.split_once(':').unwrap();
                    let mut names: Vec<String> = a.split(',').filter(|x| !x.is_empty() && *x != "-").map(|x| at.name(x.parse().unwrap())).collect();
                    names.sort();
                    (u[1..].parse().unwrap(), names)
                })
                .collect();
            v.sort();
            Out::Rows(v)
        }
    }
}

fn same_outcome(real: &Out, model: &Out) -> bool {
    match (real, model) {
        (Out::Err(_), Out::Err(_)) => true,
        (a, b) => a == b,
    }
}

fn pf_json(f: &PF) -> J {
    serde_json::to_value(f).unwrap_or(J::Null)
}

struct CaseCtx<'a> {
    seed: u64,
    world: u64,
    qi: usize,
    q: &'a Query,
}

impl<'a> CaseCtx<'a> {
    fn input(&self, id: &Ident) -> J {
        json!({"seed": self.seed, "world": self.world, "query": self.qi, "identity": id.describe(),
               "kind": self.q.kind, "attrs": self.q.attrs, "filter": pf_json(&self.q.filter)})
    }
}

/// Oracle on one real outcome. Returns (failures, non-trivial key).
fn oracle(w: &World, id: &Ident, q: &Query, fc: &Fc, real: &Out, ctx: &CaseCtx, rep: &mut Report) -> Option<String> {
    let me = id.uuid();
    let by_uuid = |u: u128| w.db.iter().find(|e| e.uuid == u);
    let mut fattrs = BTreeSet::new();
    filter_attrs(fc, &mut fattrs);
    let recycle = q.kind == "ext-recycle";
    let raw = q.kind == "ext-raw";
    let mut failed_classes: BTreeSet<String> = BTreeSet::new();
    let mut fail = |class: &str, expected: String, observed: String| {
        // one failure per (query, class)
        if failed_classes.insert(class.to_string()) {
            rep.fail(Failure { kind: "impl-vs-oracle".into(), class: class.into(), input: ctx.input(id), expected, observed });
        }
    };
    // the filter as executed by the wrapper, per the property text: hidden entries only in recycle-bin searches
    let revealed: Vec<u128> = match real {
        Out::Rows(r) => r.iter().map(|x| x.0).collect(),
        Out::Uuids(u) => u.clone(),
        _ => vec![],
    };
    let internal_role = if let IdSpec::Internal(r) = &id.spec { Some(*r) } else { None };
    // O6: sync scope / synch origin / internal on the external interface
    match (&id.spec, real) {
        (IdSpec::Synch(_), Out::Rows(r)) if !r.is_empty() => fail("c23:synch-origin-read", "nothing".into(), format!("{r:?}")),
        (IdSpec::Synch(_), Out::Uuids(r)) if !r.is_empty() => fail("c23:synch-origin-read", "nothing".into(), format!("{r:?}")),
        (IdSpec::Synch(_), Out::Bool(true)) => fail("c23:synch-origin-read", "false".into(), "true".into()),
        (IdSpec::User(_, Scope::Sync), Out::Rows(r)) if !r.is_empty() => fail("c23:sync-scope-read", "nothing".into(), format!("{r:?}")),
        (IdSpec::User(_, Scope::Sync), Out::Uuids(r)) if !r.is_empty() => fail("c23:sync-scope-read", "nothing".into(), format!("{r:?}")),
        (IdSpec::User(_, Scope::Sync), Out::Bool(true)) => fail("c23:sync-scope-read", "false".into(), "true".into()),
        (IdSpec::Internal(_), Out::Rows(r)) => fail("c23:internal-on-external-interface", "search_ext refuses internal identities".into(), format!("{} rows", r.len())),
        _ => {}
    }
    let mut partial_visibility = false;
    let mut grant_sets: BTreeSet<Vec<String>> = BTreeSet::new();
    for u in &revealed {
        let e = match by_uuid(*u) {
            Some(e) => e,
            None => {
                fail("c23:unknown-entry", "an entry of the database".into(), format!("uuid {u:x}"));
                continue;
            }
        };
        // hidden entries
        if e.hidden() && !(recycle || raw) {
            fail("c23:hidden-entry-returned", "no recycled / tombstoned entry outside recycle-bin searches".into(), format!("uuid {u:x} classes {:?}", e.vals("class").len()));
        }
        if recycle && !e.has_class("recycled") {
            fail("c23:recycle-search-returned-live", "only recycled entries".into(), format!("uuid {u:x}"));
        }
        if e.has_class("tombstone") && !raw {
            fail("c23:tombstone-returned", "never".into(), format!("uuid {u:x}"));
        }
        if let Some(role) = internal_role {
            if !internal_may_see(role, e) {
                fail("c23:internal-role-table", format!("{role} may not see this entry"), format!("uuid {u:x}"));
            }
            continue;
        }
        let gr = grants(id, &w.acps, e);
        for (_, s) in &gr {
            grant_sets.insert(s.iter().cloned().collect());
        }
        // the entry must match the caller's own filter
        if !eval(fc, me, e) {
            fail("c23:entry-does-not-match-filter", "only entries matching the filter".into(), format!("uuid {u:x}"));
        }
        // O2: every attribute the filter names is readable on this entry
        if fattrs.is_empty() {
            fail("c23:empty-filter-revealed", "a filter without attributes reveals nothing".into(), format!("uuid {u:x}"));
        }
        for a in &fattrs {
            if !may_read(&gr, a) {
                fail("c23:filter-attr-unreadable", format!("filter attribute `{a}` readable on every revealed entry"), format!("uuid {u:x} revealed; grants {:?}", gr.iter().map(|g| &g.0).collect::<Vec<_>>()));
            }
        }
    }
    if let Out::Rows(rows) = real {
        for (u, names) in rows {
            let e = match by_uuid(*u) {
                Some(e) => e,
                None => continue,
            };
            let gr = grants(id, &w.acps, e);
            for a in names {
                if !may_read(&gr, a) {
                    fail("c23:attr-without-grant", format!("attribute `{a}` covered by a read grant"), format!("uuid {u:x}: released {names:?}; grants {:?}", gr));
                }
                if let Some(req) = &q.attrs {
                    if !req.contains(a) {
                        fail("c23:attr-not-requested", format!("only requested attributes {req:?}"), format!("uuid {u:x}: `{a}`"));
                    }
                }
                if !e.attrs.contains_key(a) {
                    fail("c23:attr-not-on-entry", "attributes of the entry".into(), format!("uuid {u:x}: `{a}`"));
                }
            }
        }
    }
    if let Out::Bool(true) = real {
        if internal_role.is_none() {
            // O4: some visible entry must justify the answer
            let ok = w.db.iter().any(|e| {
                !e.hidden() && eval(fc, me, e) && {
                    let gr = grants(id, &w.acps, e);
                    !fattrs.is_empty() && fattrs.iter().all(|a| may_read(&gr, a))
                }
            });
            if !ok {
                fail("c23:exists-without-readable-entry", "false".into(), "true".into());
            }
        }
    }
    // non-triviality: the caller's filter matches entries of both kinds (all filter attributes
    // readable / not), and at least two grants with different attribute sets apply somewhere
    if internal_role.is_none() && !fattrs.is_empty() {
        let mut yes = false;
        let mut no = false;
        for e in w.db.iter().filter(|e| !e.hidden() && eval(fc, me, e)) {
            let gr = grants(id, &w.acps, e);
            for (_, s) in &gr {
                grant_sets.insert(s.iter().cloned().collect());
            }
            if fattrs.iter().all(|a| may_read(&gr, a)) {
                yes = true;
            } else {
                no = true;
            }
        }
        partial_visibility = yes && no;
    }
    if partial_visibility && grant_sets.len() >= 2 {
        Some(format!("{}|{}|{:?}|{}", id.describe(), q.kind, q.attrs, pf_json(&q.filter)))
    } else {
        None
    }
}

fn classify_model_diff(_q: &Query) -> String {
    "unclassified".into()
}

#[derive(Clone, Copy, PartialEq)]
enum Sel {
    All,
    Main(usize),
    Ldap(usize),
}

async fn run_world(seed: u64, wi: u64, nq: usize, nl: usize, sel: Sel, drv: &mut Driver, at: &mut Atoms, rep: &mut Report) {
    let mut r = Rng::for_case(seed, wi);
    let mut w = build_world(&mut r).await;
    for n in std::mem::take(&mut w.notes) {
        rep.count("world-note");
        if rep.notes.len() < 12 {
            rep.note(format!("world {wi}: {n}"));
        }
    }
    // `--selftest drop-acp`: hide one generated ACP from the model and the oracle, so that the server
    // grants more than the reference does — both channels must report it (sanity check of the check)
    if std::env::args().any(|a| a == "drop-acp") {
        if let Some(i) = w.acps.iter().position(|a| a.name.starts_with("c23acp") && !matches!(a.receiver, Recv::None) && a.target.is_some()) {
            w.acps.remove(i);
        }
    }
    // model state
    let dbline = format!("db | {}", w.db.iter().map(|e| enc_ent(at, e)).collect::<Vec<_>>().join(";"));
    let reply = drv.ask(&dbline);
    assert_eq!(reply, format!("ok {}", w.db.len()), "model refused db");
    let acpline = format!("acps | {}", w.acps.iter().map(|a| enc_acp(at, a)).collect::<Vec<_>>().join(";"));
    let reply = drv.ask(&acpline);
    assert_eq!(reply, format!("ok {}", w.acps.len()), "model refused acps");
    rep.count_n("db-entries", w.db.len() as u64);
    rep.count_n("acps-loaded", w.acps.len() as u64);
    rep.count_n("acps-generated-loaded", w.acps.iter().filter(|a| a.name.starts_with("c23acp")).count() as u64);
    rep.count_n("hidden-entries", w.db.iter().filter(|e| e.hidden()).count() as u64);

    let queries: Vec<Query> = (0..nq).map(|_| rand_query(&mut r, &w)).collect();
    let mut rd = w.idms.proxy_read().await.expect("read txn");
    for (qi, q) in queries.iter().enumerate() {
        match sel {
            Sel::All => {}
            Sel::Main(o) if o == qi => {}
            _ => continue,
        }
        let id = match make_ident(&mut rd.qs_read, &q.id) {
            Some(id) => id,
            None => {
                rep.count("identity-unavailable");
                continue;
            }
        };
        let fc = match pf_to_fc(&mut rd.qs_read, &q.filter) {
            Ok(fc) => fc,
            Err(_) => {
                rep.count("filter-rejected");
                continue;
            }
        };
        let ctx = CaseCtx { seed, world: wi, qi, q };
        let real = run_real(&mut rd.qs_read, &id, q);
        if let Out::Err(e) = &real {
            if e.starts_with("event") || e.starts_with("validate") || e.starts_with("from_ro") {
                // refused while the event was built (schema validation): the access path never ran
                rep.count(&format!("rejected-before-search:{}", e.split(['(', ' ']).nth(1).unwrap_or("")));
                continue;
            }
        }
        let model = model_query(drv, at, &id, q, &fc);
        rep.count(&format!("kind:{}", q.kind));
        rep.count(match &id.spec {
            IdSpec::Internal(_) => "id:internal",
            IdSpec::Synch(_) => "id:synch",
            IdSpec::User(ANON, _) => "id:anonymous",
            IdSpec::User(_, Scope::Sync) => "id:user-sync-scope",
            IdSpec::User(_, Scope::Ro) => "id:user-ro",
            IdSpec::User(_, Scope::Rw) => "id:user-rw",
        });
        match &real {
            Out::Err(e) => rep.count(&format!("out:err:{}", e.split(' ').next().unwrap_or(""))),
            Out::Rows(r) => rep.count(if r.is_empty() { "out:rows-empty" } else { "out:rows" }),
            Out::Uuids(r) => rep.count(if r.is_empty() { "out:uuids-empty" } else { "out:uuids" }),
            Out::Bool(b) => rep.count(if *b { "out:exists-true" } else { "out:exists-false" }),
        }
        if let Out::Rows(rows) = &real {
            rep.count_n("attrs-released", rows.iter().map(|x| x.1.len() as u64).sum());
        }
        if !same_outcome(&real, &model) {
            rep.fail(Failure {
                kind: "impl-vs-model".into(),
                class: classify_model_diff(q),
                input: ctx.input(&id),
                expected: format!("model: {model:?}"),
                observed: format!("impl: {real:?}"),
            });
        }
        let key = oracle(&w, &id, q, &fc, &real, &ctx, rep);
        if key.is_some() && rep.samples.len() < 4 {
            rep.sample(json!({"input": ctx.input(&id), "outcome": format!("{real:?}").chars().take(400).collect::<String>()}));
        }
        rep.case(key);
    }
    drop(rd);
    // ---- LDAP gateway ----
    let ldaps = LdapServer::new(&w.idms).await.expect("ldap server");
    let mut dn_of: BTreeMap<String, u128> = BTreeMap::new();
    {
        let mut rd = w.idms.proxy_read().await.expect("read txn");
        for e in &w.db {
            if let Ok(rdn) = rd.qs_read.uuid_to_rdn(Uuid::from_u128(e.uuid)) {
                dn_of.insert(format!("{rdn},{BASEDN}"), e.uuid);
            }
        }
    }
    let mut lr = Rng::for_case(seed ^ 0x1DA9_1DA9, wi);
    let mut lqs: Vec<LQuery> = (0..nl).map(|_| rand_lquery(&mut lr, &w)).collect();
    // D25 regression (fixed): `+` / `homedirectory` must not release /home/<uuid> where uuid is not readable
    if nl >= 2 && !w.users.is_empty() {
        let who = w.users[(wi as usize) % w.users.len()];
        lqs[0] = LQuery { id: LId::Token(who, Scope::Rw), op: LOp::Search { base: BASEDN.into(), scope: LdapSearchScope::Subtree, filter: LdapFilter::Present("class".into()), attrs: vec!["+".into()] } };
        lqs[1] = LQuery { id: LId::Token(who, Scope::Ro), op: LOp::Search { base: BASEDN.into(), scope: LdapSearchScope::Subtree, filter: LdapFilter::Present("objectclass".into()), attrs: vec!["homedirectory".into(), "cn".into()] } };
    }
    for (li, q) in lqs.iter().enumerate() {
        match sel {
            Sel::All => {}
            Sel::Ldap(o) if o == li => {}
            _ => continue,
        }
        run_ldap_query(&w, &ldaps, &dn_of, seed, wi, li, q, drv, at, rep).await;
    }
}

// ------------------------------------------------------------------------------------------------
// LDAP gateway: search and compare through LdapServer::do_op
// ------------------------------------------------------------------------------------------------

#[derive(Clone, Debug)]
enum LId {
    Anon,
    Token(u128, Scope),
}

#[derive(Clone, Debug)]
enum LOp {
    Search { base: String, scope: LdapSearchScope, filter: LdapFilter, attrs: Vec<String> },
    Compare { entry: String, atype: String, val: String },
}

#[derive(Clone, Debug)]
struct LQuery {
    id: LId,
    op: LOp,
}

const BASEDN: &str = "dc=example,dc=com";
const DOMAIN_INFO: &str = "00000000-0000-0000-0000-ffffff000025";

/// LDAP name ↦ kanidm attribute (kanidm's documented LDAP attribute mapping).
fn vattr(a: &str) -> Option<&'static str> {
    Some(match a {
        "cn" | "uid" | "entrydn" | "dn" => "name",
        "gecos" => "displayname",
        "email" | "emailaddress" | "emailalternative" | "emailprimary" | "mail;alternative" | "mail;primary" => "mail",
        "entryuuid" => "uuid",
        "keys" | "sshpublickey" => "ssh_publickey",
        "objectclass" => "class",
        "uidnumber" => "gidnumber",
        "homedirectory" => "uuid",
        _ => return None,
    })
}

const ALL_VATTRS: &[&str] = &[
    "cn", "email", "emailaddress", "dn", "emailalternative", "emailprimary", "entrydn", "entryuuid", "keys",
    "mail;alternative", "mail;primary", "objectclass", "sshpublickey", "uidnumber", "uid", "gecos", "homedirectory",
    "pwd_changed_time",
];

fn kani_attr(a: &str) -> String {
    let l = a.to_lowercase();
    vattr(&l).map(|s| s.to_string()).unwrap_or(l)
}

fn lf_to_fc(qs: &mut QueryServerReadTransaction, f: &LdapFilter) -> Result<Fc, String> {
    Ok(match f {
        LdapFilter::And(l) => Fc::And(l.iter().map(|g| lf_to_fc(qs, g)).collect::<Result<_, _>>()?),
        LdapFilter::Or(l) => Fc::Or(l.iter().map(|g| lf_to_fc(qs, g)).collect::<Result<_, _>>()?),
        LdapFilter::Not(g) => Fc::AndNot(Box::new(lf_to_fc(qs, g)?)),
        LdapFilter::Equality(a, v) => {
            let k = kani_attr(a);
            Fc::Eq(k.clone(), pv_to_v(&qs.clone_partialvalue(&Attribute::from(k.as_str()), v).map_err(|e| format!("{e:?}"))?))
        }
        LdapFilter::Present(a) => Fc::Pres(kani_attr(a)),
        other => return Err(format!("unsupported {other:?}")),
    })
}

fn class_exclusion() -> LdapFilter {
    LdapFilter::Not(Box::new(LdapFilter::Or(vec![
        LdapFilter::Equality("class".into(), "classtype".into()),
        LdapFilter::Equality("class".into(), "attributetype".into()),
        LdapFilter::Equality("class".into(), "access_control_profile".into()),
    ])))
}

/// `attr=val,<basedn>` | `<basedn>` ↦ Some(Some((attr,val))) | Some(None); anything else None
fn parse_dn(dn: &str) -> Option<Option<(String, String)>> {
    if dn == BASEDN {
        return Some(None);
    }
    let rest = dn.strip_suffix(&format!(",{BASEDN}"))?;
    let (a, v) = rest.split_once('=')?;
    if a.is_empty() || v.is_empty() || a.contains(',') || v.contains(',') || v.contains('=') {
        return None;
    }
    Some(Some((a.to_string(), v.to_string())))
}

/// What kanidm's LDAP gateway documents it turns a search into: the kanidm filter, the requested
/// kanidm attributes, the LDAP names to answer with, and whether all attributes were asked for.
struct LPlan {
    filter: Option<LdapFilter>, // None: answers "success, no entries" without searching
    k_attrs: Option<Vec<String>>,
    l_attrs: Vec<String>,
    all_attrs: bool,
}

fn plan_search(base: &str, scope: &LdapSearchScope, filter: &LdapFilter, attrs: &[String]) -> Result<LPlan, String> {
    let req_dn = parse_dn(base).ok_or("invalid basedn")?;
    let ext = match (scope, req_dn) {
        (LdapSearchScope::Children, Some(_)) | (LdapSearchScope::OneLevel, Some(_)) => {
            return Ok(LPlan { filter: None, k_attrs: None, l_attrs: vec![], all_attrs: false })
        }
        (LdapSearchScope::Children, None) | (LdapSearchScope::OneLevel, None) => {
            Some(LdapFilter::Not(Box::new(LdapFilter::Equality("uuid".into(), DOMAIN_INFO.into()))))
        }
        (LdapSearchScope::Base, Some((a, v))) | (LdapSearchScope::Subtree, Some((a, v))) => Some(LdapFilter::Equality(a, v)),
        (LdapSearchScope::Base, None) => Some(LdapFilter::Equality("uuid".into(), DOMAIN_INFO.into())),
        (LdapSearchScope::Subtree, None) => None,
    };
    let mut no_attrs = false;
    let mut all_attrs = false;
    let mut all_op = false;
    if attrs.is_empty() {
        all_attrs = true;
    } else {
        for a in attrs {
            if a == "*" {
                all_attrs = true;
            } else if a == "+" {
                all_attrs = true;
                all_op = true;
            } else if a == "1.1" && attrs.len() == 1 {
                no_attrs = true;
            }
        }
    }
    let (k_attrs, mut l_attrs): (Option<Vec<String>>, Vec<String>) = if no_attrs {
        (None, vec![])
    } else if all_op {
        (None, ALL_VATTRS.iter().map(|s| s.to_string()).collect())
    } else if all_attrs {
        (None, attrs.iter().map(|a| a.to_lowercase()).filter(|a| vattr(a).is_some()).collect())
    } else {
        let req: Vec<String> = attrs.iter().filter(|a| *a != "*" && *a != "+" && *a != "1.1").map(|a| a.to_lowercase()).collect();
        let mut k: Vec<String> = req.iter().map(|a| vattr(a).map(|s| s.to_string()).unwrap_or(a.clone())).collect();
        k.sort();
        k.dedup();
        (Some(k), req)
    };
    l_attrs.sort();
    l_attrs.dedup();
    let full = match ext {
        Some(e) => LdapFilter::And(vec![filter.clone(), e, class_exclusion()]),
        None => LdapFilter::And(vec![filter.clone(), class_exclusion()]),
    };
    Ok(LPlan { filter: Some(full), k_attrs, l_attrs, all_attrs })
}

fn rand_lfilter(r: &mut Rng, sh: &Shape, depth: u32) -> LdapFilter {
    let leaf = |r: &mut Rng| match r.below(9) {
        0 | 1 => LdapFilter::Equality(r.pick(&["class", "objectclass"]).to_string(), r.pick(CLASS_POOL).to_string()),
        2 => LdapFilter::Equality(r.pick(&["name", "cn", "uid"]).to_string(), format!("c23u{}", r.below(sh.nu as u64))),
        3 => LdapFilter::Equality("name".into(), format!("c23g{}", r.below(sh.ng as u64))),
        4 => LdapFilter::Equality(r.pick(&["uuid", "entryuuid"]).to_string(), rand_ref(r, sh).to_string()),
        5 => LdapFilter::Equality("memberof".into(), gid(r.below(sh.ng as u64) as usize).to_string()),
        6 => LdapFilter::Present(r.pick(&["class", "objectclass", "name", "uuid", "displayname", "gecos", "memberof", "mail", "description", "entry_managed_by", "spn"]).to_string()),
        7 => LdapFilter::Equality("entry_managed_by".into(), rand_ref(r, sh).to_string()),
        _ => LdapFilter::Present("class".into()),
    };
    if depth == 0 || r.chance(1, 2) {
        return leaf(r);
    }
    match r.below(5) {
        0 | 1 => LdapFilter::And((0..r.range(1, 3)).map(|_| rand_lfilter(r, sh, depth - 1)).collect()),
        2 | 3 => LdapFilter::Or((0..r.range(1, 3)).map(|_| rand_lfilter(r, sh, depth - 1)).collect()),
        // a NOT always next to a positive term (D1: unguarded NOT is a known backend defect, C01)
        _ => LdapFilter::And(vec![rand_lfilter(r, sh, depth - 1), LdapFilter::Not(Box::new(rand_lfilter(r, sh, depth - 1)))]),
    }
}

const LDAP_ATTR_POOL: &[&str] = &[
    "name", "cn", "uid", "objectclass", "class", "uuid", "entryuuid", "homedirectory", "dn", "entrydn", "displayname",
    "gecos", "memberof", "mail", "emailprimary", "spn", "description", "member", "entry_managed_by", "uidnumber",
    "oauth2_rs_scope_map", "linked_group", "sync_credential_portal", "DisplayName",
];

fn rand_lquery(r: &mut Rng, w: &World) -> LQuery {
    let sh = &w.shape;
    let id = match r.below(6) {
        0 | 1 => LId::Anon,
        _ => LId::Token(*r.pick(&w.users), match r.below(8) { 0 => Scope::Sync, 1..=4 => Scope::Ro, _ => Scope::Rw }),
    };
    let some_dn = |r: &mut Rng| match r.below(4) {
        0 => format!("name=c23u{},{BASEDN}", r.below(sh.nu as u64)),
        1 => format!("name=c23g{},{BASEDN}", r.below(sh.ng as u64)),
        2 => format!("uuid={},{BASEDN}", rand_ref(r, sh)),
        _ => format!("spn=c23u{}@example.com,{BASEDN}", r.below(sh.nu as u64)),
    };
    if r.chance(1, 4) {
        let (atype, val) = match r.below(6) {
            0 => ("class".to_string(), r.pick(CLASS_POOL).to_string()),
            1 => ("objectclass".to_string(), r.pick(CLASS_POOL).to_string()),
            2 => ("memberof".to_string(), gid(r.below(sh.ng as u64) as usize).to_string()),
            3 => ("displayname".to_string(), format!("C23 u{}", r.below(sh.nu as u64))),
            4 => ("entry_managed_by".to_string(), rand_ref(r, sh).to_string()),
            _ => ("name".to_string(), format!("c23u{}", r.below(sh.nu as u64))),
        };
        return LQuery { id, op: LOp::Compare { entry: some_dn(r), atype, val } };
    }
    let (base, scope) = match r.below(10) {
        0..=5 => (BASEDN.to_string(), LdapSearchScope::Subtree),
        6 => (BASEDN.to_string(), if r.chance(1, 2) { LdapSearchScope::OneLevel } else { LdapSearchScope::Children }),
        7 => (some_dn(r), if r.chance(1, 2) { LdapSearchScope::Base } else { LdapSearchScope::Subtree }),
        8 => (BASEDN.to_string(), LdapSearchScope::Base),
        _ => (some_dn(r), LdapSearchScope::OneLevel),
    };
    let attrs: Vec<String> = match r.below(8) {
        0 => vec![],
        1 => vec!["*".into()],
        2 => vec!["+".into()],
        3 => vec!["1.1".into()],
        4 => vec!["*".into(), r.pick(LDAP_ATTR_POOL).to_string()],
        _ => (0..r.range(1, 4)).map(|_| r.pick(LDAP_ATTR_POOL).to_string()).collect(),
    };
    LQuery { id, op: LOp::Search { base, scope, filter: rand_lfilter(r, sh, 2), attrs } }
}

fn lquery_json(q: &LQuery) -> J {
    match &q.op {
        LOp::Search { base, scope, filter, attrs } => json!({"ldap": "search", "id": format!("{:?}", q.id), "base": base, "scope": format!("{scope:?}"), "filter": format!("{filter:?}"), "attrs": attrs}),
        LOp::Compare { entry, atype, val } => json!({"ldap": "compare", "id": format!("{:?}", q.id), "entry": entry, "atype": atype, "val": val}),
    }
}

/// Canonical LDAP outcome.
#[derive(Debug, PartialEq, Clone)]
enum LOut {
    /// result code other than success / compareTrue / compareFalse / noSuchObject
    Err(String),
    Rows(Vec<(String, Vec<String>)>),
    Compare(&'static str),
}

async fn run_ldap_real(w: &World, ldaps: &LdapServer, q: &LQuery) -> LOut {
    let token = match &q.id {
        LId::Anon => LdapBoundToken { spn: "anonymous".into(), session_id: Uuid::from_u128(1), effective_session: LdapSession::UnixBind(UUID_ANONYMOUS) },
        LId::Token(u, scope) => LdapBoundToken {
            spn: "c23".into(),
            session_id: Uuid::from_u128(2),
            effective_session: LdapSession::ApiToken(ApiToken {
                account_id: Uuid::from_u128(*u),
                token_id: Uuid::from_u128(0xC23_0000_0000 + *u % 0x1000),
                label: "c23".into(),
                expiry: None,
                issued_at: time::OffsetDateTime::UNIX_EPOCH + duration_from_epoch_now(),
                purpose: match scope {
                    Scope::Ro => ApiTokenPurpose::ReadOnly,
                    Scope::Rw => ApiTokenPurpose::ReadWrite,
                    Scope::Sync => ApiTokenPurpose::Synchronise,
                },
            }),
        },
    };
    let op = match &q.op {
        LOp::Search { base, scope, filter, attrs } => ServerOps::Search(LSearchRequest { msgid: 1, base: base.clone(), scope: scope.clone(), filter: filter.clone(), attrs: attrs.clone() }),
        LOp::Compare { entry, atype, val } => ServerOps::Compare(CompareRequest { msgid: 1, entry: entry.clone(), atype: atype.clone(), val: val.clone() }),
    };
    let ip = std::net::IpAddr::V4(std::net::Ipv4Addr::new(127, 0, 0, 1));
    let resp = match ldaps.do_op(&w.idms, op, Some(token), ip, Uuid::from_u128(3)).await {
        Ok(r) => r,
        Err(e) => return LOut::Err(format!("{e:?}")),
    };
    let msgs = match resp {
        LdapResponseState::MultiPartResponse(m) | LdapResponseState::BindMultiPartResponse(_, m) => m,
        LdapResponseState::Respond(m) | LdapResponseState::Disconnect(m) | LdapResponseState::Bind(_, m) => vec![m],
        LdapResponseState::Unbind => vec![],
    };
    let mut rows = vec![];
    let mut out = None;
    for m in msgs {
        match m.op {
            LdapOp::SearchResultEntry(e) => {
                let mut names: Vec<String> = e.attributes.iter().map(|a| a.atype.to_lowercase()).collect();
                names.sort();
                names.dedup();
                rows.push((e.dn, names));
            }
            LdapOp::SearchResultDone(r) => {
                if r.code != LdapResultCode::Success {
                    out = Some(LOut::Err(format!("{:?} {}", r.code, r.message)));
                }
            }
            LdapOp::CompareResult(r) => {
                out = Some(match r.code {
                    LdapResultCode::CompareTrue => LOut::Compare("true"),
                    LdapResultCode::CompareFalse => LOut::Compare("false"),
                    LdapResultCode::NoSuchObject => LOut::Compare("nosuchobject"),
                    c => LOut::Err(format!("{c:?} {}", r.message)),
                });
            }
            other => out = Some(LOut::Err(format!("unexpected {other:?}"))),
        }
    }
    rows.sort();
    out.unwrap_or(LOut::Rows(rows))
}

fn lident(rd: &mut QueryServerReadTransaction, id: &LId) -> Option<Ident> {
    match id {
        LId::Anon => make_ident(rd, &IdSpec::User(ANON, Scope::Ro)),
        LId::Token(u, s) => make_ident(rd, &IdSpec::User(*u, s.clone())),
    }
}

fn set_model_ident(drv: &mut Driver, at: &mut Atoms, id: &Ident) {
    let q = Query { id: id.spec.clone(), kind: "exists", attrs: None, filter: PF::SelfUuid };
    // reuse the identity line of model_query (the answer of the probe query itself is ignored)
    let _ = model_query(drv, at, id, &q, &Fc::SelfUuid);
}

fn model_rows(drv: &mut Driver, at: &mut Atoms, k_attrs: &Option<Vec<String>>, fc: &Fc) -> Option<Vec<(u128, Vec<String>)>> {
    let attrs = match k_attrs {
        None => "*".to_string(),
        Some(l) if l.is_empty() => "-".to_string(),
        Some(l) => l.iter().map(|a| at.get(a).to_string()).collect::<Vec<_>>().join(","),
    };
    let reply = drv.ask(&format!("q | search_ext | hidden | {attrs} | {}", enc_fc(at, fc)));
    let body = reply.strip_prefix("ok")?.trim();
    Some(
        body.split(';')
            .filter(|s| !s.is_empty())
            .map(|s| {
                let (u, a) = s.split_once(':').unwrap();
                (u[1..].parse().unwrap(), a.split(',').filter(|x| !x.is_empty() && *x != "-").map(|x| at.name(x.parse().unwrap())).collect())
            })
            .collect(),
    )
}

fn model_exists(drv: &mut Driver, at: &mut Atoms, fc: &Fc) -> Option<bool> {
    let reply = drv.ask(&format!("q | exists | hidden | * | {}", enc_fc(at, fc)));
    Some(reply.strip_prefix("ok")?.trim() == "1")
}

#[allow(clippy::too_many_arguments)]
async fn run_ldap_query(w: &World, ldaps: &LdapServer, dn_of: &BTreeMap<String, u128>, seed: u64, wi: u64, li: usize, q: &LQuery, drv: &mut Driver, at: &mut Atoms, rep: &mut Report) {
    let real = run_ldap_real(w, ldaps, q).await;
    let mut rd = w.idms.proxy_read().await.expect("read txn");
    let id = match lident(&mut rd.qs_read, &q.id) {
        Some(i) => i,
        None => {
            rep.count("ldap:identity-unavailable");
            return;
        }
    };
    let me = id.uuid();
    let input = json!({"seed": seed, "world": wi, "ldap_query": li, "request": lquery_json(q)});
    let mut failed_classes: BTreeSet<String> = BTreeSet::new();
    let mut fail = |rep: &mut Report, kind: &str, class: &str, expected: String, observed: String| {
        // one failure per (query, class)
        if failed_classes.insert(format!("{kind}|{class}")) {
            rep.fail(Failure { kind: kind.into(), class: class.into(), input: input.clone(), expected, observed });
        }
    };
    rep.count(match &q.op {
        LOp::Search { .. } => "kind:ldap-search",
        LOp::Compare { .. } => "kind:ldap-compare",
    });
    rep.count(match &real {
        LOut::Err(_) => "ldap:out:error",
        LOut::Rows(r) if r.is_empty() => "ldap:out:rows-empty",
        LOut::Rows(_) => "ldap:out:rows",
        LOut::Compare("true") => "ldap:out:compare-true",
        LOut::Compare("false") => "ldap:out:compare-false",
        LOut::Compare(_) => "ldap:out:no-such-object",
    });
    let mut key = None;
    match &q.op {
        LOp::Search { base, scope, filter, attrs } => {
            let plan = plan_search(base, scope, filter, attrs);
            let (plan, fc) = match plan {
                Ok(p) => {
                    let fc = match &p.filter {
                        Some(f) => match lf_to_fc(&mut rd.qs_read, f) {
                            Ok(fc) => Some(fc),
                            Err(_) => {
                                // the server refuses the filter (unknown attribute / bad value): must be an error
                                if let LOut::Rows(r) = &real {
                                    if !r.is_empty() {
                                        fail(rep, "impl-vs-oracle", "c23:ldap-rows-for-invalid-filter", "an error".into(), format!("{r:?}"));
                                    }
                                }
                                rep.count("ldap:filter-rejected");
                                rep.case(None);
                                return;
                            }
                        },
                        None => None,
                    };
                    (p, fc)
                }
                Err(_) => {
                    if let LOut::Rows(r) = &real {
                        if !r.is_empty() {
                            fail(rep, "impl-vs-oracle", "c23:ldap-rows-for-invalid-base", "an error".into(), format!("{r:?}"));
                        }
                    }
                    rep.case(None);
                    return;
                }
            };
            // ---- correspondence -------------------------------------------------------------
            let expected: Option<Vec<(u128, Vec<String>)>> = match &fc {
                None => Some(vec![]),
                Some(fc) => {
                    set_model_ident(drv, at, &id);
                    model_rows(drv, at, &plan.k_attrs, fc).map(|rows| {
                        rows.into_iter()
                            .map(|(u, rel)| {
                                let mut names: BTreeSet<String> = BTreeSet::new();
                                if plan.all_attrs {
                                    names.extend(rel.iter().cloned());
                                }
                                for l in &plan.l_attrs {
                                    // dn / entrydn name the entry; everything else (homedirectory = /home/<uuid>
                                    // included, D25) needs its kanidm attribute in the reduced entry
                                    let always = matches!(l.as_str(), "dn" | "entrydn");
                                    let k = vattr(l).map(|s| s.to_string()).unwrap_or(l.clone());
                                    if always || rel.contains(&k) {
                                        names.insert(l.clone());
                                    }
                                }
                                (u, names.into_iter().collect())
                            })
                            .collect()
                    })
                }
            };
            match (&real, &expected) {
                (LOut::Rows(rows), Some(exp)) => {
                    let mut got: Vec<(u128, Vec<String>)> = vec![];
                    for (dn, names) in rows {
                        match dn_of.get(dn) {
                            Some(u) => got.push((*u, names.clone())),
                            None => fail(rep, "impl-vs-oracle", "c23:ldap-unknown-dn", "the dn of a stored entry".into(), dn.clone()),
                        }
                    }
                    got.sort();
                    let mut exp = exp.clone();
                    exp.sort();
                    if got != exp {
                        fail(rep, "impl-vs-model", "unclassified", format!("model+ldap mapping: {exp:?}"), format!("impl: {got:?}"));
                    }
                }
                (LOut::Err(e), Some(exp)) => {
                    // resource limits of the LDAP identities are not modelled: an error discloses nothing
                    if !(e.contains("ResourceLimit") || exp.is_empty() && e.contains("InvalidState")) {
                        // Synchronise-purpose tokens and the like end in errors too; record the kind
                    }
                    rep.count(&format!("ldap:error:{}", e.split([' ', '(']).next().unwrap_or("")));
                    if rep.notes.len() < 6 {
                        rep.note(format!("ldap error sample: {e} for {}", lquery_json(q)));
                    }
                }
                (_, None) => {
                    if let LOut::Rows(r) = &real {
                        if !r.is_empty() {
                            fail(rep, "impl-vs-model", "unclassified", "model: error".into(), format!("impl: {r:?}"));
                        }
                    }
                }
                (LOut::Compare(_), _) => fail(rep, "impl-vs-oracle", "c23:ldap-wrong-response", "search result".into(), format!("{real:?}")),
            }
            // ---- oracle -------------------------------------------------------------------
            if let (LOut::Rows(rows), Some(fc)) = (&real, &fc) {
                let mut fattrs = BTreeSet::new();
                filter_attrs(fc, &mut fattrs);
                let mut yes = false;
                let mut no = false;
                let mut grant_sets: BTreeSet<Vec<String>> = BTreeSet::new();
                for e in w.db.iter().filter(|e| !e.hidden() && eval(fc, me, e)) {
                    let gr = grants(&id, &w.acps, e);
                    for (_, s) in &gr {
                        grant_sets.insert(s.iter().cloned().collect());
                    }
                    if fattrs.iter().all(|a| may_read(&gr, a)) {
                        yes = true;
                    } else {
                        no = true;
                    }
                }
                if yes && no && grant_sets.len() >= 2 {
                    key = Some(format!("ldap|{}", lquery_json(q)));
                }
                for (dn, names) in rows {
                    let e = match dn_of.get(dn).and_then(|u| w.db.iter().find(|e| e.uuid == *u)) {
                        Some(e) => e,
                        None => continue,
                    };
                    if e.hidden() {
                        fail(rep, "impl-vs-oracle", "c23:hidden-entry-returned", "no recycled / tombstoned entry".into(), dn.clone());
                    }
                    if !eval(fc, me, e) {
                        fail(rep, "impl-vs-oracle", "c23:entry-does-not-match-filter", "only matching entries".into(), dn.clone());
                    }
                    let gr = grants(&id, &w.acps, e);
                    for a in &fattrs {
                        if !may_read(&gr, a) {
                            fail(rep, "impl-vs-oracle", "c23:filter-attr-unreadable", format!("filter attribute `{a}` readable on every revealed entry"), format!("{dn} revealed"));
                        }
                    }
                    if !(may_read(&gr, "spn") || may_read(&gr, "name")) {
                        // the DN is the entry's identifier in LDAP (as the uuid is in the native API);
                        // it is built from the spn whether or not spn/name are readable: counted, reported in notes
                        rep.count("ldap:dn-names-entry-without-name-or-spn-grant");
                    }
                    for a in names {
                        match a.as_str() {
                            "dn" | "entrydn" => {}
                            "homedirectory" => {
                                if !may_read(&gr, "uuid") {
                                    fail(rep, "impl-vs-oracle", "c23:ldap-homedirectory-discloses-uuid-without-grant", "homedirectory (= /home/<uuid>) only where uuid is readable".into(), format!("{dn}: grants {:?}", gr.iter().map(|g| &g.0).collect::<Vec<_>>()));
                                }
                            }
                            other => {
                                let k = vattr(other).map(|s| s.to_string()).unwrap_or(other.to_string());
                                if !may_read(&gr, &k) {
                                    fail(rep, "impl-vs-oracle", "c23:attr-without-grant", format!("ldap attribute `{other}` (kanidm `{k}`) covered by a read grant"), format!("{dn}: {names:?}; grants {gr:?}"));
                                }
                            }
                        }
                    }
                }
            }
        }
        LOp::Compare { entry, atype, val } => {
            let ext = match parse_dn(entry) {
                Some(Some((a, v))) => LdapFilter::Equality(a, v),
                _ => {
                    if let LOut::Compare("true") | LOut::Compare("false") = &real {
                        fail(rep, "impl-vs-oracle", "c23:ldap-compare-invalid-dn-answered", "an error".into(), format!("{real:?}"));
                    }
                    rep.case(None);
                    return;
                }
            };
            let f1 = LdapFilter::And(vec![ext.clone(), LdapFilter::Equality(atype.clone(), val.clone()), class_exclusion()]);
            let f2 = LdapFilter::And(vec![ext, class_exclusion()]);
            let (fc1, fc2) = match (lf_to_fc(&mut rd.qs_read, &f1), lf_to_fc(&mut rd.qs_read, &f2)) {
                (Ok(a), Ok(b)) => (a, b),
                _ => {
                    if let LOut::Compare("true") | LOut::Compare("false") = &real {
                        fail(rep, "impl-vs-oracle", "c23:ldap-compare-invalid-filter-answered", "an error".into(), format!("{real:?}"));
                    }
                    rep.count("ldap:filter-rejected");
                    rep.case(None);
                    return;
                }
            };
            set_model_ident(drv, at, &id);
            let m1 = model_exists(drv, at, &fc1);
            let m2 = model_exists(drv, at, &fc2);
            let expected = match (m1, m2) {
                (Some(true), _) => Some("true"),
                (Some(false), Some(true)) => Some("false"),
                (Some(false), Some(false)) => Some("nosuchobject"),
                _ => None,
            };
            match (&real, expected) {
                (LOut::Compare(r), Some(x)) if *r == x => {}
                (LOut::Err(e), _) => rep.count(&format!("ldap:error:{}", e.split([' ', '(']).next().unwrap_or(""))),
                (r, x) => fail(rep, "impl-vs-model", "unclassified", format!("model: {x:?}"), format!("impl: {r:?}")),
            }
            // oracle: an answer other than noSuchObject confirms an entry; it must be justified
            let justified = |fc: &Fc| {
                let mut fattrs = BTreeSet::new();
                filter_attrs(fc, &mut fattrs);
                w.db.iter().any(|e| !e.hidden() && eval(fc, me, e) && {
                    let gr = grants(&id, &w.acps, e);
                    fattrs.iter().all(|a| may_read(&gr, a))
                })
            };
            match &real {
                LOut::Compare("true") if !justified(&fc1) => fail(rep, "impl-vs-oracle", "c23:ldap-compare-true-without-readable-entry", "no confirmation".into(), "compareTrue".into()),
                LOut::Compare("false") if !justified(&fc2) => fail(rep, "impl-vs-oracle", "c23:ldap-compare-false-without-readable-entry", "noSuchObject".into(), "compareFalse".into()),
                _ => {}
            }
            if justified(&fc2) && !justified(&fc1) {
                key = Some(format!("ldap|{}", lquery_json(q)));
            }
        }
    }
    rep.case(key);
}

fn main() {
    if std::env::var_os("RUST_LOG").is_none() {
        std::env::set_var("RUST_LOG", "off");
    }
    let args = Args::parse();
    let rt = tokio::runtime::Builder::new_current_thread().enable_all().build().unwrap();
    let mut rep = Report::new(
        "access-search",
        "random worlds on a real server (nested groups, users, service accounts, synced account, OAuth2 clients, applications, entry managers, \
         random search ACP entries, recycled + tombstoned entries) × random identities × random filters / requested attributes through search_ext, \
         search, exists; non-trivial = the caller's filter matches visible-by-filter-attributes and not-visible entries AND at least two read grants \
         with different attribute sets apply; distinct = distinct (identity, kind, attrs, filter)",
    );
    let mut drv = Driver::spawn(&args.driver);
    let mut at = Atoms::from_driver(&drv.ask("atoms"));
    rt.block_on(async {
        if let Some(path) = &args.replay {
            let v: J = serde_json::from_str(&std::fs::read_to_string(path).unwrap()).unwrap();
            let inp = &v["input"];
            let (seed, world) = (inp["seed"].as_u64().unwrap(), inp["world"].as_u64().unwrap());
            // query lists are prefixes of one stream per world: regenerate enough of it
            if let Some(li) = inp["ldap_query"].as_u64() {
                run_world(seed, world, 0, li as usize + 1, Sel::Ldap(li as usize), &mut drv, &mut at, &mut rep).await;
            } else {
                let query = inp["query"].as_u64().unwrap() as usize;
                run_world(seed, world, query + 1, 0, Sel::Main(query), &mut drv, &mut at, &mut rep).await;
            }
            return;
        }
        let worlds = args.cases(30, 400);
        for wi in 0..worlds {
            run_world(args.seed, wi, 40, 16, Sel::All, &mut drv, &mut at, &mut rep).await;
        }
    });
    rep.model_requests = drv.requests;
    rep.write(&args.out);
    println!("c23: {} queries, {} non-trivial, {} failures", rep.evaluations, rep.nontrivial_keys.len(), rep.failures.len());
}
